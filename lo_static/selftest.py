"""Self-validation of the checkers: seeded variants (must fire, naming the broken instance) and
behaviour-preserving twins (must stay silent).  Variants are *source edits applied in memory* (overlay on
the program index) - nothing is written to disk, nothing is executed.

A variant whose anchor text is no longer present in the analysed tree is skipped (the tree may have been
edited legitimately); an applied mutant that is not reported is a checker defect -> ANALYSIS-ERROR.
"""
from __future__ import annotations

import importlib
import os
import re
from dataclasses import dataclass, field
from typing import Callable, Dict, List, Optional, Tuple

from .index import ProgramIndex
from .report import Report


@dataclass
class Variant:
    name: str
    prop: str
    file: str  # path relative to the repo root
    old: str  # anchor text (must occur exactly `count` times; whitespace-exact)
    new: str
    expect: Optional[str]  # rule prefix expected on a NEW finding; None => twin (no new finding allowed)
    contains: str = ""  # substring expected in the new finding's function / construct / message
    quick: bool = False  # also run in the quick tier (positive fixture)
    count: int = 1
    extra: List[Tuple[str, str, str]] = field(default_factory=list)  # further (file, old, new) edits


_REGISTRY: Dict[str, List[Variant]] = {}


def register(prop: str, variants: List[Variant]) -> None:
    _REGISTRY.setdefault(prop, []).extend(variants)


def variants_for(prop: str) -> List[Variant]:
    importlib.import_module(f"lo_static.variants.{prop.lower()}")
    return _REGISTRY.get(prop, [])


def _apply(root: str, v: Variant) -> Optional[Dict[str, str]]:
    overlay: Dict[str, str] = {}
    for (file, old, new, count) in [(v.file, v.old, v.new, v.count)] + [(f, o, n, 1) for (f, o, n) in v.extra]:
        path = os.path.join(root, file)
        if file in overlay:
            src = overlay[file]
        else:
            try:
                with open(path) as fh:
                    src = fh.read()
            except OSError:
                return None
        if src.count(old) != count:
            return None
        overlay[file] = src.replace(old, new)
    return overlay


def _run_prop(prop: str, root: str, overlay, tier: str):
    from .cli import PROPS

    idx = ProgramIndex(root, overlay=overlay)
    rep = Report(prop, tier, root)
    rep.quiet = True
    mod = importlib.import_module(f"lo_static.props.{PROPS[prop]}")
    mod.run(idx, rep, tier, selftest=False)
    for r in rep.rules.values():
        if r.instances < r.floor:
            rep.errors.append(f"floor {r.rule}")
    return rep


def _eval_variant(args):
    prop, root, tier, v, base_keys = args
    overlay = _apply(root, v)
    if overlay is None:
        return (v.name, "skipped", "anchor text not found (exactly once) in the analysed tree")
    try:
        rep = _run_prop(prop, root, overlay, tier)
    except Exception as e:  # AnalysisError on a mutant counts as detection-by-refusal only for mutants
        if v.expect is not None:
            return (v.name, "refused", f"{type(e).__name__}: {e}")
        return (v.name, "FAILED", f"twin made the analysis fail: {type(e).__name__}: {e}")
    new = [f for f in rep.findings if f.key() not in base_keys]
    if v.expect is None:
        if new or rep.errors:
            what = "; ".join(f"{f.rule} {f.function}: {f.message}" for f in new[:3]) or "; ".join(rep.errors[:3])
            return (v.name, "FAILED", f"behaviour-preserving twin raised an alarm: {what}")
        return (v.name, "silent", "")
    hits = [f for f in new if f.rule.startswith(v.expect) and (
        not v.contains or v.contains in f.function or v.contains in f.construct or v.contains in f.message)]
    if hits:
        f = hits[0]
        return (v.name, "caught", f"{f.rule} {f.function} [{f.loc}]")
    if rep.errors and not new:
        return (v.name, "refused", "; ".join(rep.errors[:2]))
    return (v.name, "FAILED", "seeded defect not reported" + (
        f" (new findings: {[f.rule + ' ' + f.function for f in new[:4]]})" if new else ""))


def run_fixtures(rep: Report, prop: str, jobs: Optional[int] = None) -> None:
    """Quick tier: the variants flagged quick (positive fixtures for zero-count rules).
    Thorough tier: every variant and twin, in parallel."""
    vs = variants_for(prop)
    if rep.tier == "quick":
        vs = [v for v in vs if v.quick]
    if not vs:
        return
    base_keys = {f.key() for f in rep.findings}
    work = [(prop, rep.root, rep.tier, v, base_keys) for v in vs]
    jobs = jobs or (min(16, os.cpu_count() or 4) if rep.tier == "thorough" else min(4, len(work)))
    if jobs > 1 and len(work) > 1:
        import multiprocessing as mp

        with mp.get_context("fork").Pool(jobs) as pool:
            results = pool.map(_eval_variant, work, chunksize=1)
    else:
        results = [_eval_variant(w) for w in work]
    summary = {"caught": 0, "silent": 0, "refused": 0, "skipped": 0, "FAILED": 0}
    table = []
    for (name, status, info), v in zip(results, vs):
        summary[status] = summary.get(status, 0) + 1
        table.append({"variant": name, "kind": "twin" if v.expect is None else "mutant", "expect": v.expect,
                      "status": status, "info": info})
        if status == "FAILED":
            rep.error(f"self-test variant {name!r}: {info}")
    rep.extra["selftest"] = {"summary": summary, "variants": table}
    applied = summary["caught"] + summary["silent"] + summary["refused"] + summary["FAILED"]
    rep.extra["selftest"]["applied"] = applied
    if not rep.quiet:
        print(f"[{prop}] self-test: {summary}")
