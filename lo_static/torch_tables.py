"""Classification of the torch API as far as the package uses it (assumption A1 of DESIGN.md).

FRESH  - result is a new tensor that shares no storage with any argument
VIEW   - result may share storage with the receiver / the listed argument (different tensor object)
SAME   - result may be the very same tensor object as the receiver (e.g. ``contiguous`` on a contiguous tensor)
SCALAR - python number / bool / size / dtype / device / string
In-place methods (trailing underscore) return the receiver and are sinks.
"""

# ---- tensor methods --------------------------------------------------------------------------------
M_FRESH = {
    "clone", "add", "sub", "mul", "div", "matmul", "mm", "bmm", "mv", "dot", "pow", "sqrt", "rsqrt", "exp", "log",
    "abs", "neg", "reciprocal", "sum", "mean", "prod", "norm", "max", "min", "amax", "amin", "argmax", "argmin", "sort",
    "argsort", "topk", "cumsum", "cumprod", "clamp", "clamp_min", "clamp_max", "sign", "eq", "ne", "lt", "le", "gt", "ge",
    "all", "any", "nonzero", "gather", "index_select", "masked_select", "masked_fill", "scatter", "scatter_add", "repeat",
    "repeat_interleave", "tril", "triu", "flip", "roll", "inverse", "pinverse", "cholesky", "qr", "svd", "fmod",
    "remainder", "floor", "ceil", "round", "trunc", "long", "int", "bool", "logical_not", "logical_and", "logical_or",
    "where", "addcmul", "addcdiv", "addmm", "baddbmm", "lerp", "sigmoid", "tanh", "relu", "softmax", "log_softmax",
    "isnan", "isinf", "isfinite", "count_nonzero", "unique", "bincount", "new_zeros", "new_ones", "new_empty", "new_full",
    "new_tensor", "to_dense", "to_sparse", "coalesce", "index_add", "index_copy", "index_fill", "put", "take",
    "diag", "diag_embed", "trace", "logdet", "det", "slogdet", "std", "var", "median", "mode", "kthvalue", "cross",
    "outer", "ger", "kron", "cdist", "dist", "erf", "erfc", "lgamma", "digamma", "square", "logsumexp", "nansum",
    "float_power", "true_divide", "floor_divide", "fill_diagonal", "sgn", "angle", "conj_physical", "nan_to_num",
    "tolist_tensor", "power",
}
M_VIEW = {
    "view", "view_as", "expand", "expand_as", "transpose", "t", "permute", "squeeze", "unsqueeze", "narrow", "select",
    "diagonal", "unflatten", "split", "chunk", "unbind", "detach", "_indices", "_values", "indices", "values", "unfold",
    "as_strided", "movedim", "swapaxes", "swapdims", "real", "imag", "conj", "storage", "untyped_storage", "data_ptr_view",
    "__getitem__", "tensor_split", "hsplit", "vsplit", "broadcast_to", "adjoint", "mT", "mH", "T", "H",
}
M_SAME = {
    "contiguous", "to", "type", "float", "double", "half", "bfloat16", "cpu", "cuda", "reshape", "reshape_as", "flatten",
    "type_as", "requires_grad_", "ravel", "resolve_conj", "resolve_neg", "pin_memory", "numpy",
}
M_SCALAR = {
    "size", "dim", "ndimension", "numel", "item", "tolist", "stride", "storage_offset", "data_ptr", "is_contiguous",
    "is_floating_point", "is_complex", "element_size", "nelement", "get_device", "is_sparse", "type_str", "__len__",
    "sparse_dim", "dense_dim", "is_coalesced",
}
# metadata-only in-place methods: visible to the caller only when applied to the caller's very tensor object
M_META_INPLACE = {"unsqueeze_", "squeeze_", "transpose_", "t_", "requires_grad_", "detach_", "as_strided_", "set_",
                  "swapaxes_", "swapdims_", "rename_", "retain_grad"}
# in-place methods that change data *and* metadata
M_BOTH_INPLACE = {"resize_", "resize_as_"}

# attributes
A_VIEW = {"mT", "T", "mH", "H", "real", "imag", "data", "grad"}
A_SCALAR = {"shape", "dtype", "device", "ndim", "requires_grad", "is_cuda", "layout", "names", "is_sparse", "is_leaf",
            "grad_fn", "_version", "is_floating_point", "itemsize", "nbytes", "is_quantized", "is_meta"}

# ---- torch.* functions -----------------------------------------------------------------------------
F_FRESH = {
    "zeros", "ones", "eye", "empty", "full", "rand", "randn", "randint", "randperm", "linspace", "logspace", "arange",
    "tensor", "zeros_like", "ones_like", "empty_like", "full_like", "rand_like", "randn_like", "sparse_coo_tensor",
    "sparse_csr_tensor", "cat", "stack", "add", "sub", "mul", "div", "matmul", "mm", "bmm", "addcmul", "addcdiv", "addmm",
    "abs", "sign", "sqrt", "exp", "log", "reciprocal", "sum", "mean", "prod", "norm", "max", "min", "cumsum", "all", "any",
    "eq", "ne", "lt", "le", "gt", "ge", "isnan", "isinf", "isclose", "equal", "gather", "flip", "tril", "triu", "diag_embed",
    "cholesky_solve", "pinverse", "inverse", "count_nonzero", "dsmm", "where", "clamp", "pow", "outer", "kron", "einsum",
    "nonzero", "sort", "argsort", "topk", "unique", "bincount", "logical_not", "logical_and", "logical_or", "trace", "dot",
    "logdet", "det", "index_select", "masked_select", "repeat_interleave", "roll", "clone", "tril_indices", "triu_indices",
    "meshgrid_fresh", "numel_fresh", "triangular_solve", "cdist", "square", "rsqrt", "lgamma", "erf", "floor", "ceil",
    "round", "fmod", "remainder", "from_numpy_fresh", "scalar_tensor", "complex", "polar", "hstack", "vstack", "block_diag",
}
F_FRESH_DOTTED = {
    "torch.linalg.cholesky", "torch.linalg.cholesky_ex", "torch.linalg.eigh", "torch.linalg.eigvalsh", "torch.linalg.qr",
    "torch.linalg.svd", "torch.linalg.solve_triangular", "torch.linalg.solve", "torch.linalg.inv", "torch.linalg.norm",
    "torch.linalg.det", "torch.linalg.slogdet", "torch.linalg.pinv", "torch.linalg.lstsq", "torch.linalg.matrix_norm",
    "torch.autograd.grad", "torch.fft.fft", "torch.fft.ifft", "torch.fft.rfft", "torch.fft.irfft", "torch.fft.fftn",
    "torch.sparse.mm", "torch.sparse.sum", "torch.nn.functional.pad", "torch.sparse.FloatTensor", "torch.sparse.DoubleTensor",
}
F_VIEW = {  # may share storage with their tensor arguments
    "transpose", "t", "squeeze", "unsqueeze", "narrow", "select", "diagonal", "reshape", "flatten", "permute", "movedim",
    "swapaxes", "as_strided", "split", "chunk", "unbind", "broadcast_to", "broadcast_tensors", "atleast_1d", "atleast_2d",
    "atleast_3d", "real", "imag", "view_as_real", "view_as_complex", "detach", "expand_copy_no", "as_tensor", "from_numpy",
    "asarray", "unflatten", "tensor_split", "conj", "ravel", "meshgrid", "adjoint", "contiguous",
}
F_SCALAR = {
    "is_tensor", "is_floating_point", "is_complex", "numel", "broadcast_shapes", "Size", "device", "dtype", "finfo", "iinfo",
    "get_default_dtype", "set_default_dtype", "manual_seed", "is_grad_enabled", "no_grad", "enable_grad", "equal_scalar",
    "result_type", "promote_types", "can_cast", "is_nonzero", "Generator", "set_grad_enabled",
}
F_SCALAR_DOTTED = {"torch.autograd.enable_grad", "torch.autograd.no_grad", "torch.cuda.is_available", "torch.jit.script",
                   "torch.jit.is_scripting", "torch.autograd.set_grad_enabled"}
# `equal` returns bool
F_SCALAR |= {"equal"}
F_FRESH -= {"equal"}
