"""E1 - ownership / provenance dataflow (may-alias analysis).

For every function of the package a flow-sensitive forward analysis over the statement structure computes, for
each value, the set of *origins* whose storage it may share:

    ("P", <function>, <param>)   a parameter of <function>      (caller-owned)
    ("SELF",)                    an attribute of ``self`` that this function did not assign (operator-owned)
    ("CTX",)                     a tensor saved on an autograd ctx
    ("GLOBAL", name)             a module-level object

each with a kind: OBJ (may be the very same tensor object) or STO (a different object that may share storage).
The empty set means *owned / fresh*.  In-place writes (sinks) on a value with non-empty provenance are the
violations of C13.  Calls are resolved through imports, the MRO and class-hierarchy analysis; callees are
represented by summaries (RET: what the result may alias; MUT: which parameters are written) computed as a
fixpoint over the whole package.
"""
from __future__ import annotations

import ast
from dataclasses import dataclass, field
from typing import Dict, FrozenSet, Iterable, List, Optional, Set, Tuple

from . import torch_tables as TT
from .index import ClassInfo, FunctionInfo, ProgramIndex, dotted, norm, short

OBJ, STO = "OBJ", "STO"
Origin = Tuple  # ("P", fq, name) | ("SELF",) | ("CTX",) | ("GLOBAL", name)
Prov = FrozenSet[Tuple[Origin, str]]

T_TENSOR, T_OP, T_CONT, T_SCALAR, T_UNK, T_CALL = "tensor", "op", "container", "scalar", "unknown", "callable"
import os as _os
TRACE = _os.environ.get("LO_TRACE", "")


def _sto(p: Prov) -> Prov:
    return frozenset((o, STO) for o, _ in p)


@dataclass(frozen=True)
class AV:
    """Abstract value with two facets: `prov` = storage the value may share IF IT IS A TENSOR,
    `oprov` = tensors it may hold IF IT IS AN OPERATOR / other object (its content)."""
    prov: Prov = frozenset()
    ty: str = T_UNK
    ety: str = T_UNK  # element type (containers only; one level)
    oprov: Prov = frozenset()
    pos: Optional[Tuple["AV", ...]] = None  # per-position values of a short tuple display

    def join(self, o: "AV") -> "AV":
        if self is o:
            return self
        if self.ty == T_BOT:
            return o
        if o.ty == T_BOT:
            return self
        ty = self.ty if self.ty == o.ty else _join_ty(self.ty, o.ty)
        ety = self.ety if self.ety == o.ety else _join_ty(self.ety, o.ety)
        pos = None
        if self.pos is not None and o.pos is not None and len(self.pos) == len(o.pos):
            pos = tuple(a.join(b) for a, b in zip(self.pos, o.pos))
        return AV(self.prov | o.prov, ty, ety, self.oprov | o.oprov, pos)

    def sto(self) -> "AV":
        return AV(_sto(self.prov), T_TENSOR if self.ty in (T_TENSOR, T_UNK) else self.ty, self.ety, _sto(self.oprov))

    def with_ty(self, ty: str) -> "AV":
        if ty == T_TENSOR:
            return AV(self.prov, ty, self.ety, frozenset())
        if ty == T_OP:
            return AV(frozenset(), ty, self.ety, self.oprov)
        return AV(self.prov, ty, self.ety, self.oprov)

    @property
    def fresh(self) -> bool:
        return not self.prov and not self.oprov

    @property
    def allprov(self) -> Prov:
        return self.prov | self.oprov

    def has_obj(self) -> bool:
        return any(k == OBJ for _, k in self.prov)


T_BOT = "bottom"  # no value yet (summary of a function not analysed so far)


def _join_ty(a: str, b: str) -> str:
    if a == T_BOT:
        return b
    if b == T_BOT:
        return a
    if T_UNK in (a, b):
        return T_UNK
    if {a, b} <= {T_SCALAR}:
        return T_SCALAR
    if a == T_SCALAR:  # None / number joined with something
        return b
    if b == T_SCALAR:
        return a
    return T_UNK


FRESH_T = AV(frozenset(), T_TENSOR)
SCALAR = AV(frozenset(), T_SCALAR)
FRESH_C = AV(frozenset(), T_CONT)
EMPTY_C = AV(frozenset(), T_CONT, T_BOT)  # a container created empty ([], {}, dict(), list()): the first store decides its element type
FRESH_U = AV(frozenset(), T_UNK)
CALLABLE = AV(frozenset(), T_CALL)
BOTTOM = AV(frozenset(), T_BOT)


def join_all(avs: Iterable[AV], ty: Optional[str] = None) -> AV:
    """Join; with ty == container the joined element type becomes the container's element type."""
    avs = list(avs)
    if ty is None and avs:
        acc = avs[0]
        for a in avs[1:]:
            acc = acc.join(a)
        return acc
    prov: Set = set()
    oprov: Set = set()
    t = None
    for a in avs:
        prov |= a.prov
        oprov |= a.oprov
        t = a.ty if t is None else (t if t == a.ty else _join_ty(t, a.ty))
    if ty == T_CONT:
        return AV(frozenset(prov), T_CONT, t or T_UNK, frozenset(oprov))
    return AV(frozenset(prov), ty if ty is not None else (t or T_UNK), T_UNK, frozenset(oprov))


COMMON_TENSOR_OP_ATTRS = {"clone", "detach", "to", "requires_grad", "requires_grad_", "shape", "dtype", "device", "dim",
                          "size", "cpu", "cuda", "double", "float", "half"}


@dataclass
class Sink:
    fn: FunctionInfo
    node: ast.AST
    kind: str  # "data" | "meta" | "both"
    what: str  # e.g. "mul_", "out=", "subscript store", "augmented assignment"
    target: AV
    target_text: str
    via_call: Optional[str] = None  # callee qualname when the write happens inside a callee (MUT obligation)


@dataclass
class Summary:
    ret: AV = FRESH_U
    mut: Dict[str, str] = field(default_factory=dict)  # param name | "SELF" -> "data" | "meta" | "both"
    ret_set: bool = False
    # returns that only happen when a parameter has (not) a given type: (param, "op"|"tensor"|"notop"|"nottensor")
    gret: Dict[Tuple[str, str], AV] = field(default_factory=dict)


BUILTIN_SCALAR = {"len", "int", "float", "bool", "str", "isinstance", "issubclass", "hasattr", "callable", "id", "hash",
                  "repr", "abs", "round", "pow", "divmod", "ord", "chr", "any", "all", "print", "type", "format", "range",
                  "slice", "min", "max", "sum"}
BUILTIN_CONT = {"list", "tuple", "dict", "set", "frozenset", "sorted", "reversed", "zip", "enumerate", "map", "filter",
                "iter", "next", "OrderedDict", "defaultdict", "deque", "chain"}
CONT_METHODS = {"append", "extend", "insert", "update", "pop", "popleft", "remove", "clear", "copy", "keys", "values",
                "items", "get", "setdefault", "index", "count", "sort", "reverse", "join", "format", "add", "discard"}
SCALAR_ANN = ("int", "bool", "float", "str", "torch.Size", "torch.dtype", "torch.device", "Optional[int]",
              "Optional[bool]", "Optional[float]", "Optional[str]", "Optional[torch.Size]", "Optional[torch.dtype]",
              "Optional[torch.device]", "Tuple[int, ...]", "Tuple[int, int]", "List[int]", "Union[torch.Size, List[int]]",
              "IndexType", "Union[int, Tuple[int, ...]]", "Union[torch.Size, int]")
EXEMPT_INPLACE_API = {"detach_", "requires_grad_", "_set_requires_grad", "requires_grad"}


class Engine:
    def __init__(self, idx: ProgramIndex):
        self.idx = idx
        self.summaries: Dict[str, Summary] = {f.qualname: Summary() for f in idx.functions}
        self.sinks: Dict[str, List[Sink]] = {}
        self.env_join: Dict[str, Dict[str, AV]] = {}
        self.unclassified: Dict[str, int] = {}
        self.children: Dict[str, List[FunctionInfo]] = {}
        for f in idx.functions:
            if f.parent is not None:
                self.children.setdefault(f.parent.qualname, []).append(f)
        self.pkg_method_names: Set[str] = set()
        for c in idx.classes.values():
            self.pkg_method_names |= set(c.methods)
        self.attr_types = self._attr_types()
        self.fn_args = self._function_arguments()
        # (private module-level function, parameter) -> (type, element type) joined over every call site of the package:
        # such helpers have no other callers, so what the call sites pass IS what the parameter can be (A5)
        self.param_types: Dict[Tuple[str, str], Tuple[str, str]] = {}
        self.param_sites: Dict[Tuple[str, str], Dict[tuple, Tuple[str, str]]] = {}
        self.changed = False
        self.iterations = 0
        self.n_calls_resolved = 0
        self.n_calls_total = 0

    def private_helper(self, f: FunctionInfo) -> bool:
        """A private module-level function, or a private method that is defined exactly once in the package and is not one of
        the hooks the operator base class declares: every caller is a call site of this package (A5)."""
        if f.parent is not None or isinstance(f.node, ast.Lambda) or not f.name.startswith("_") or f.name.startswith("__"):
            return False
        if f.cls is None:
            return True
        key = "#private_methods"
        cache = self.__dict__.setdefault(key, {})
        if f.name not in cache:
            n_defs = sum(1 for c in self.idx.classes.values() if f.name in c.methods)
            base = self.idx.operator_base()
            cache[f.name] = n_defs == 1 and f.name not in base.methods
        return cache[f.name]

    # ------------------------------------------------------------------------------ functions passed as arguments
    def _function_arguments(self) -> Dict[Tuple[str, str], Optional[List[FunctionInfo]]]:
        """(qualified function, parameter) -> the package functions passed for that parameter, for PRIVATE functions that
        CALL one of their parameters and whose every call site in the package (matched by callee name - a superset of the
        real callers) passes a plain module-level function there.  None / absent = open (some caller passes something
        else): the call of the parameter stays an unknown callable (assumption A2)."""
        idx = self.idx
        wanted: Dict[str, List[Tuple[FunctionInfo, str, int]]] = {}  # callee name -> [(fn, param, positional index at the call)]
        for f in idx.functions:
            if isinstance(f.node, ast.Lambda) or not f.name.startswith("_") or f.name.startswith("__"):
                continue
            a = f.node.args
            names = [x.arg for x in list(a.posonlyargs) + list(a.args)]
            is_method = f.cls is not None and f.parent is None and not f.is_staticmethod()
            called = {n.func.id for n in ast.walk(f.node) if isinstance(n, ast.Call) and isinstance(n.func, ast.Name)}
            stored = {t.id for n in ast.walk(f.node) if isinstance(n, (ast.Assign, ast.AugAssign, ast.For, ast.AnnAssign))
                      for t in ast.walk(n.targets[0] if isinstance(n, ast.Assign) else n.target) if isinstance(t, ast.Name)}
            for i, pn in enumerate(names):
                if (is_method and i == 0) or pn not in called or pn in stored:
                    continue
                wanted.setdefault(f.name, []).append((f, pn, i - (1 if is_method else 0)))
        out: Dict[Tuple[str, str], Optional[List[FunctionInfo]]] = {}
        if not wanted:
            return out
        seen_site: Set[Tuple[str, str]] = set()
        for g in idx.functions:
            for n in ast.walk(g.node):
                if not isinstance(n, ast.Call):
                    continue
                cname = n.func.attr if isinstance(n.func, ast.Attribute) else (n.func.id if isinstance(n.func, ast.Name) else None)
                if cname not in wanted:
                    continue
                for (f, pn, pos) in wanted[cname]:
                    key = (f.qualname, pn)
                    arg = n.args[pos] if pos < len(n.args) and not any(isinstance(x, ast.Starred) for x in n.args[:pos + 1]) else None
                    if arg is None:
                        for k in n.keywords:
                            if k.arg == pn:
                                arg = k.value
                    tgt = None
                    if isinstance(arg, ast.Name):
                        q = idx.resolve_name(g.module, arg.id)
                        if q and q in idx.func_by_qual:
                            tgt = idx.func_by_qual[q]
                    elif isinstance(arg, ast.Attribute) and arg.attr in self.pkg_method_names and not (
                            isinstance(arg.value, ast.Name) and idx.resolve_name(g.module, arg.value.id) is not None):
                        tgt = "method:" + arg.attr  # a bound method of some operator: self.base._matmul
                    seen_site.add(key)
                    if tgt is None:
                        out[key] = None
                    elif key not in out:
                        out[key] = [tgt]
                    elif out[key] is not None and tgt not in out[key]:
                        out[key].append(tgt)
        return {k: v for k, v in out.items() if v}

    # ------------------------------------------------------------------------------ attribute typing
    def _attr_types(self) -> Dict[str, str]:
        votes: Dict[str, Set[str]] = {}
        for f in self.idx.functions:
            if isinstance(f.node, ast.Lambda):
                continue
            params_scalar = self._scalar_params(f)
            for n in ast.walk(f.node):
                if isinstance(n, ast.Assign):
                    for t in n.targets:
                        if isinstance(t, ast.Attribute):
                            votes.setdefault(t.attr, set()).add(self._syntactic_ty(n.value, params_scalar))
        for c in self.idx.classes.values():
            for k, v in c.class_attrs.items():
                votes.setdefault(k, set()).add(self._syntactic_ty(v, set()))
        out = {}
        for a, vs in votes.items():
            vs = vs - {"none"}
            if vs and vs <= {T_SCALAR}:
                out[a] = T_SCALAR
            elif vs and vs <= {T_CONT}:
                out[a] = T_CONT
        return out

    def _scalar_params(self, f: FunctionInfo) -> Set[str]:
        out = set()
        if isinstance(f.node, ast.Lambda):
            return out
        a = f.node.args
        dfl = f.defaults()
        for x in list(a.posonlyargs) + list(a.args) + list(a.kwonlyargs):
            ann = norm(x.annotation) if x.annotation is not None else None
            d = dfl.get(x.arg)
            if ann is not None and ann.strip("'\"") in SCALAR_ANN:
                out.add(x.arg)
            elif isinstance(d, ast.Constant) and isinstance(d.value, (int, float, bool, str)) and d.value is not None:
                out.add(x.arg)
        return out

    def _syntactic_ty(self, e: ast.AST, scalar_params: Set[str]) -> str:
        if isinstance(e, ast.Constant):
            return "none" if e.value is None else T_SCALAR
        if isinstance(e, (ast.List, ast.Dict, ast.Set, ast.ListComp, ast.DictComp, ast.SetComp)):
            return T_CONT
        if isinstance(e, ast.Tuple):
            return T_CONT
        if isinstance(e, ast.Name) and e.id in scalar_params:
            return T_SCALAR
        if isinstance(e, ast.Call):
            d = dotted(e.func)
            if d in ("list", "dict", "tuple", "set", "OrderedDict", "sorted", "defaultdict"):
                return T_CONT
            if d in ("len", "int", "float", "bool", "str", "torch.Size", "isinstance"):
                return T_SCALAR
            if isinstance(e.func, ast.Attribute) and e.func.attr in ("size", "dim", "ndimension", "numel", "item"):
                return T_SCALAR
            if isinstance(e.func, ast.Attribute) and e.func.attr == "copy":
                return T_CONT
        if isinstance(e, (ast.Compare, ast.BoolOp)) and not isinstance(e, ast.BoolOp):
            return T_SCALAR
        if isinstance(e, ast.BinOp):
            l, r = self._syntactic_ty(e.left, scalar_params), self._syntactic_ty(e.right, scalar_params)
            if l == T_SCALAR and r == T_SCALAR:
                return T_SCALAR
        return T_UNK

    # ------------------------------------------------------------------------------ driver
    def run(self, max_iter: int = 12) -> None:
        order = sorted(self.idx.functions, key=lambda f: (f.qualname.count("<locals>") + f.qualname.count("<lambda"), f.qualname))
        self.deps: Dict[str, Set[str]] = {}
        dirty: Optional[Set[str]] = None  # None = everything
        self.analysed_total = 0
        for it in range(max_iter):
            self.changed = False
            self.changed_set: Set[str] = set()
            self.iterations = it + 1
            for f in order:
                if dirty is not None:
                    d = self.deps.get(f.qualname, set())
                    if not (d & dirty) and not (f.parent is not None and f.parent.qualname in dirty) \
                            and f.qualname not in dirty:
                        continue
                self.analysed_total += 1
                self.analyse(f)
            if not self.changed:
                break
            dirty = set(self.changed_set)

    def all_sinks(self) -> List[Sink]:
        out = []
        for q in sorted(self.sinks):
            out += self.sinks[q]
        return out

    # ------------------------------------------------------------------------------ per function
    def analyse(self, fn: FunctionInfo) -> None:
        fa = FuncAnalysis(self, fn)
        fa.run()
        self.sinks[fn.qualname] = fa.sinks
        self.deps[fn.qualname] = fa.deps
        if self.env_join.get(fn.qualname) != fa.env_any and fn.qualname in self.children:
            self.changed_set.add(fn.qualname)
            self.changed = True
        self.env_join[fn.qualname] = fa.env_any
        s = self.summaries[fn.qualname]
        fa.ret = self._apply_return_annotation(fn, fa.ret)
        # provenance only grows from one iteration to the next; types may sharpen (bottom -> unknown -> tensor)
        new_ret = AV(s.ret.prov | fa.ret.prov, fa.ret.ty, fa.ret.ety, s.ret.oprov | fa.ret.oprov, fa.ret.pos) \
            if s.ret_set else fa.ret
        if fa.ret_seen and (not s.ret_set or new_ret != s.ret):
            s.ret = new_ret
            s.ret_set = True
            self.changed = True
            self.changed_set.add(fn.qualname)
        for g, v in fa.gret.items():
            v = self._apply_return_annotation(fn, v)
            old = s.gret.get(g)
            nv = v if old is None else AV(old.prov | v.prov, v.ty, v.ety, old.oprov | v.oprov, v.pos)
            if old != nv:
                s.gret[g] = nv
                self.changed = True
                self.changed_set.add(fn.qualname)
        for k, v in fa.mut.items():
            old = s.mut.get(k)
            nv = v if old is None or old == v else "both"
            if old != nv:
                s.mut[k] = nv
                self.changed = True
                self.changed_set.add(fn.qualname)

    @staticmethod
    def _apply_return_annotation(fn: FunctionInfo, ret: AV) -> AV:
        """The package is annotated with jaxtyping: a return annotation that names only tensors (only operators)
        restricts the result to the tensor (operator) facet."""
        node = fn.node
        ann = getattr(node, "returns", None)
        if ann is None and fn.cls is not None and fn.parent is None:
            # an override without annotation inherits the annotation of the method it overrides
            for k in fn.cls.mro[1:]:
                b = k.methods.get(fn.name)
                if b is not None and getattr(b.node, "returns", None) is not None:
                    ann = b.node.returns
                    break
        if ann is None or ret.ty in (T_SCALAR, T_CALL):
            return ret
        txt = norm(ann)
        if txt.startswith(("Tuple", "Optional[Tuple", "List")) or "Tuple[" in txt:
            return ret
        has_t = "Tensor" in txt
        has_o = "LinearOperator" in txt
        if has_t and not has_o and ret.ty in (T_UNK, T_TENSOR, T_OP):
            return AV(ret.prov, T_TENSOR)
        if has_o and not has_t and ret.ty in (T_UNK, T_TENSOR, T_OP):
            return AV(frozenset(), T_OP, T_UNK, ret.oprov)
        return ret

    # ------------------------------------------------------------------------------ helpers for resolution
    def cha(self, cls: ClassInfo, name: str) -> List[FunctionInfo]:
        """Implementations of `name` reachable from a receiver whose static class is `cls` (or a subclass)."""
        out = []
        r = self.idx.resolve_method(cls, name)
        if r is not None:
            out.append(r)
        for sc in self.idx.subclasses(cls):
            if name in sc.methods and sc.methods[name] not in out:
                out.append(sc.methods[name])
        return out

    def summary_of(self, f: FunctionInfo) -> Summary:
        return self.summaries[f.qualname]


def mk(prov=frozenset(), ty=T_UNK, oprov=frozenset(), ety=T_UNK) -> AV:
    return AV(frozenset(prov), ty, ety, frozenset(oprov))


class FuncAnalysis:
    def __init__(self, eng: Engine, fn: FunctionInfo):
        self.eng = eng
        self.idx = eng.idx
        self.fn = fn
        self.fq = fn.qualname
        self.sinks: List[Sink] = []
        self.ret: AV = BOTTOM
        self.ret_seen = False
        self.gret: Dict[Tuple[str, str], AV] = {}
        self.guards: List[Tuple[str, str]] = []
        self.deps: Set[str] = set()
        self.guardable: Set[str] = set()
        self.mut: Dict[str, str] = {}
        self.env_any: Dict[str, AV] = {}
        self.self_name: Optional[str] = None
        self.ctx_name: Optional[str] = None
        self.scalar_params = eng._scalar_params(fn)
        self.tensor_names: Set[str] = set()
        self._seen_sink_keys: Set = set()

    # -------------------------------------------------------------------------- setup
    def _param_av(self, p: str, ty: str) -> AV:
        if ty == T_SCALAR:
            return SCALAR
        t = frozenset({(("P", self.fq, p, "t"), OBJ)})
        o = frozenset({(("P", self.fq, p, "o"), OBJ)})
        if ty == T_TENSOR:
            return AV(t, T_TENSOR)
        if ty == T_OP:
            return AV(frozenset(), T_OP, T_UNK, o)
        return AV(t, ty, T_UNK, o)

    def _first_param(self) -> Optional[str]:
        a = self.fn.node.args
        names = [x.arg for x in list(a.posonlyargs) + list(a.args)]
        return names[0] if names else None

    def initial_env(self) -> Dict[str, AV]:
        env: Dict[str, AV] = {}
        fn = self.fn
        if fn.parent is not None:
            env.update(self.eng.env_join.get(fn.parent.qualname, {}))
        node = fn.node
        a = node.args
        names = [x.arg for x in list(a.posonlyargs) + list(a.args)]
        is_method = fn.cls is not None and fn.parent is None and not fn.is_staticmethod() and not isinstance(node, ast.Lambda)
        for i, p in enumerate(names):
            if is_method and i == 0:
                if fn.is_classmethod():
                    env[p] = CALLABLE
                else:
                    self.self_name = p
                    env[p] = AV(frozenset(), T_OP, T_UNK, frozenset({(("SELF",), OBJ)}))
                continue
            if p == "ctx" and fn.cls is not None and fn.is_staticmethod():
                self.ctx_name = p
                env[p] = FRESH_U
                continue
            ty_ = T_SCALAR if p in self.scalar_params else self._param_ty(p)
            av0 = self._param_av(p, ty_)
            if ty_ == T_UNK and self.eng.private_helper(fn):
                pt = self.eng.param_types.get((fn.qualname, p))
                if pt is not None and pt[0] in (T_TENSOR, T_OP):
                    av0 = self._param_av(p, pt[0])
                elif pt is not None and pt[0] == T_CONT and pt[1] in (T_TENSOR, T_OP, T_SCALAR, T_CONT):
                    av0 = AV(av0.prov, T_CONT, pt[1], av0.oprov)
            env[p] = av0
        for x in a.kwonlyargs:
            env[x.arg] = self._param_av(x.arg, T_SCALAR if x.arg in self.scalar_params else self._param_ty(x.arg))
        if a.vararg:
            v = self._param_av(a.vararg.arg, T_UNK)
            ety = T_UNK
            if a.vararg.annotation is not None:
                # A5: `*tables: Dict[Callable, str]` - every element is a dictionary (not a tensor, not an operator)
                ann = norm(a.vararg.annotation)
                if "Tensor" not in ann and "LinearOperator" not in ann and "Any" not in ann:
                    if ann.split("[")[0].split(".")[-1] in ("Dict", "dict", "Mapping", "MutableMapping", "List", "list", "Set", "set"):
                        ety = T_CONT
                    elif ann in ("int", "str", "bool", "float", "torch.dtype", "torch.device"):
                        ety = T_SCALAR
            env[a.vararg.arg] = AV(v.prov, T_CONT, ety, v.oprov)
        if a.kwarg:
            v = self._param_av(a.kwarg.arg, T_UNK)
            env[a.kwarg.arg] = AV(v.prov, T_CONT, T_UNK, v.oprov)
        return env

    def _param_ty(self, p: str) -> str:
        if isinstance(self.fn.node, ast.Lambda):
            return T_TENSOR if p in self.tensor_names else T_UNK
        if (self.fn.name == "backward" and self.fn.is_staticmethod() and self.fn.cls is not None
                and "Function" in " ".join(self.fn.cls.external_bases)):
            return T_TENSOR  # autograd hands tensors (or None) to backward
        cands = [self.fn]
        if self.fn.cls is not None and self.fn.parent is None:
            cands += [k.methods[self.fn.name] for k in self.fn.cls.mro[1:] if self.fn.name in k.methods]
        for f in cands:
            a = f.node.args
            for x in list(a.posonlyargs) + list(a.args) + list(a.kwonlyargs):
                if x.arg == p and x.annotation is not None:
                    ann = norm(x.annotation)
                    if "Tensor" in ann and "LinearOperator" not in ann and "Callable" not in ann:
                        return T_TENSOR
                    if "LinearOperator" in ann and "Tensor" not in ann:
                        return T_OP
                    return T_TENSOR if p in self.tensor_names else T_UNK
        return T_TENSOR if p in self.tensor_names else T_UNK

    def _tensor_only_names(self) -> Set[str]:
        """Names on which a tensor-only method is used somewhere in this function (same name, same kind of thing)."""
        eng = self.eng
        out: Set[str] = set()
        for n in ast.walk(self.fn.node):
            if isinstance(n, ast.Call) and isinstance(n.func, ast.Attribute) and isinstance(n.func.value, ast.Name):
                m = n.func.attr
                if m in eng.pkg_method_names:
                    continue
                if (m in TT.M_FRESH or m in TT.M_VIEW or m in TT.M_SAME
                        or (m.endswith("_") and not m.startswith("_") and m not in CONT_METHODS)):
                    out.add(n.func.value.id)
            if isinstance(n, ast.Call):
                d = dotted(n.func)
                if d and d.startswith("torch.") and d.split(".")[-1] in ("cat", "stack", "addcmul", "norm", "cholesky_solve"):
                    # operands of tensor-only torch functions (torch.cat([a, b.mT]) ...)
                    for a in n.args:
                        for x in (a.elts if isinstance(a, (ast.List, ast.Tuple)) else [a]):
                            if isinstance(x, ast.Attribute) and x.attr in ("mT", "T"):
                                x = x.value
                            if isinstance(x, ast.Name):
                                out.add(x.id)
        return out

    def run(self) -> None:
        self.tensor_names = self._tensor_only_names()
        if not isinstance(self.fn.node, ast.Lambda):
            assigned = set()
            for n in ast.walk(self.fn.node):
                if isinstance(n, (ast.Assign, ast.AugAssign, ast.AnnAssign, ast.For, ast.comprehension, ast.NamedExpr)):
                    tg = n.targets if isinstance(n, ast.Assign) else [n.target]
                    for t in tg:
                        assigned |= {x.id for x in ast.walk(t) if isinstance(x, ast.Name)}
            self.guardable = set(self.fn.all_param_names()) - assigned
        env = self.initial_env()
        self._remember(env)
        self.block(self.fn.body(), env)

    def _remember(self, env: Dict[str, AV]) -> None:
        for k, v in env.items():
            old = self.env_any.get(k)
            self.env_any[k] = v if old is None else old.join(v)

    # -------------------------------------------------------------------------- statements
    def block(self, body: List[ast.stmt], env: Dict[str, AV]) -> None:
        pushed = 0
        for st in body:
            self.stmt(st, env)
            # `if isinstance(p, T): return ...` : the rest of the block runs only when p is not a T
            if isinstance(st, ast.If) and not st.orelse and st.body and isinstance(st.body[-1], (ast.Return, ast.Raise)):
                g = self._type_guard(st.test)
                if g is not None:
                    self.guards.append(g[1])
                    pushed += 1
        for _ in range(pushed):
            self.guards.pop()

    def _type_guard(self, test: ast.expr) -> Optional[Tuple[Tuple[str, str], Tuple[str, str]]]:
        """((param, kind) when the test holds, (param, kind) when it does not) for a type test of a parameter
        that this function never reassigns."""
        neg = False
        t = test
        if isinstance(t, ast.UnaryOp) and isinstance(t.op, ast.Not):
            neg, t = True, t.operand
        if not (isinstance(t, ast.Call) and t.args and isinstance(t.args[0], ast.Name)):
            return None
        name = t.args[0].id
        if name not in self.guardable:
            return None
        d = dotted(t.func)
        kind = None
        if d == "torch.is_tensor":
            kind = "tensor"
        elif d == "isinstance" and len(t.args) == 2:
            txt = norm(t.args[1])
            if txt in ("torch.Tensor", "Tensor"):
                kind = "tensor"
            elif "Tensor" not in txt and "LinearOperator" in txt:
                c = self.idx.class_of_expr(self.fn.module, t.args[1]) if isinstance(t.args[1], (ast.Name, ast.Attribute)) else None
                if c is not None and c is self.idx.operator_base():
                    kind = "op"
                elif c is not None or isinstance(t.args[1], ast.Tuple):
                    # a specific operator class: holds => operator; fails => nothing known
                    pos, negk = (name, "op"), (name, "any")
                    return (negk, pos) if neg else (pos, negk)
        if kind is None:
            return None
        pos, negk = (name, kind), (name, "not" + kind)
        return (negk, pos) if neg else (pos, negk)

    def stmt(self, st: ast.stmt, env: Dict[str, AV]) -> None:
        if isinstance(st, ast.Expr):
            self.ev(st.value, env)
        elif isinstance(st, ast.Assign):
            v = self.ev(st.value, env)
            for t in st.targets:
                self.assign(t, v, env, st)
        elif isinstance(st, ast.AnnAssign):
            if st.value is not None:
                self.assign(st.target, self.ev(st.value, env), env, st)
        elif isinstance(st, ast.AugAssign):
            v = self.ev(st.value, env)
            self.augassign(st, v, env)
        elif isinstance(st, ast.Return):
            v = self.ev(st.value, env) if st.value is not None else SCALAR
            self.ret_seen = True
            if self.guards:
                g = self.guards[0]
                self.gret[g] = v if g not in self.gret else self.gret[g].join(v)
            else:
                self.ret = self.ret.join(v)
        elif isinstance(st, ast.If):
            self.ev(st.test, env)
            e1, e2 = dict(env), dict(env)
            self._narrow(st.test, e1, e2)
            g = self._type_guard(st.test)
            if g is not None:
                self.guards.append(g[0])
            self.block(st.body, e1)
            if g is not None:
                self.guards[-1] = g[1]
            self.block(st.orelse, e2)
            if g is not None:
                self.guards.pop()
            t1 = bool(st.body) and isinstance(st.body[-1], (ast.Return, ast.Raise))
            t2 = bool(st.orelse) and isinstance(st.orelse[-1], (ast.Return, ast.Raise))
            if t1 and not t2:
                # `if c: ... return` : what follows runs only with the else-environment (and its narrowing)
                env.clear()
                env.update(e2)
            elif t2 and not t1:
                env.clear()
                env.update(e1)
            else:
                self._merge(env, e1, e2)
        elif isinstance(st, (ast.For, ast.AsyncFor)):
            it = self.ev(st.iter, env)
            for _ in range(3):
                before = dict(env)
                self._iter_assign(st.target, st.iter, it, env, st)
                self.block(st.body, env)
                self._merge(env, env, before)
                if env == before:
                    break
            self.block(st.orelse, env)
        elif isinstance(st, ast.While):
            for _ in range(3):
                before = dict(env)
                self.ev(st.test, env)
                self.block(st.body, env)
                self._merge(env, env, before)
                if env == before:
                    break
            self.block(st.orelse, env)
        elif isinstance(st, ast.Try):
            before = dict(env)
            self.block(st.body, env)
            after_body = dict(env)
            outs = [after_body]
            for h in st.handlers:
                eh = dict(before)
                self._merge(eh, eh, after_body)
                if h.name:
                    eh[h.name] = FRESH_U
                self.block(h.body, eh)
                outs.append(eh)
            eo = dict(after_body)
            self.block(st.orelse, eo)
            outs.append(eo)
            acc = outs[0]
            for o in outs[1:]:
                m = dict(acc)
                self._merge(m, acc, o)
                acc = m
            env.clear()
            env.update(acc)
            self.block(st.finalbody, env)
        elif isinstance(st, (ast.With, ast.AsyncWith)):
            for item in st.items:
                v = self.ev(item.context_expr, env)
                if item.optional_vars is not None:
                    self.assign(item.optional_vars, v, env, st)
            self.block(st.body, env)
        elif isinstance(st, (ast.Raise, ast.Assert)):
            for ch in ast.iter_child_nodes(st):
                if isinstance(ch, ast.expr):
                    self.ev(ch, env)
        elif isinstance(st, (ast.FunctionDef, ast.AsyncFunctionDef)):
            env[st.name] = CALLABLE
        elif hasattr(ast, "Match") and isinstance(st, ast.Match):  # pragma: no cover
            for case in st.cases:
                self.block(case.body, env)
        self._remember(env)
        if TRACE and TRACE in self.fq:
            def sh(v):
                f = lambda pr: sorted((o[0] if o[0] != "P" else "P:" + o[2] + ":" + o[3], k) for o, k in pr)
                return f"{v.ty}/{v.ety} T={f(v.prov)} O={f(v.oprov)}"
            if isinstance(st, (ast.Assign, ast.AugAssign, ast.Return, ast.Expr)):
                names = {n.id for n in ast.walk(st) if isinstance(n, ast.Name)}
                print(f"TRACE {self.fn.short}:{st.lineno} {short(st, 80)}")
                for n in sorted(names):
                    if n in env:
                        print(f"        {n} = {sh(env[n])}")

    def _narrow(self, test: ast.expr, e_true: Dict[str, AV], e_false: Dict[str, AV]) -> None:
        """torch.is_tensor(x) / isinstance(x, Tensor | LinearOperator) refine the type of a plain name."""
        neg = False
        t = test
        if isinstance(t, ast.UnaryOp) and isinstance(t.op, ast.Not):
            neg, t = True, t.operand
        if isinstance(t, ast.BoolOp) and isinstance(t.op, ast.And) and not neg:
            for v in t.values:
                self._narrow(v, e_true, {})
            return
        if not isinstance(t, ast.Call) or not t.args or not isinstance(t.args[0], ast.Name):
            return
        name = t.args[0].id
        d = dotted(t.func)
        ty = None
        if d == "hasattr" and len(t.args) == 2 and isinstance(t.args[1], ast.Constant) and t.args[1].value in COMMON_TENSOR_OP_ATTRS:
            # every tensor and every operator has this attribute: where the test FAILS the value is neither (a python
            # scalar / flag / size / None), i.e. it owns no tensor storage
            tgt = e_true if neg else e_false
            if name in tgt and tgt[name].ty in (T_UNK,):
                tgt[name] = SCALAR
            return
        if d == "torch.is_tensor":
            ty = T_TENSOR
        elif d == "isinstance" and len(t.args) == 2:
            txt = norm(t.args[1])
            if "LinearOperator" in txt and "Tensor" not in txt:
                ty = T_OP
            elif txt in ("torch.Tensor", "Tensor"):
                ty = T_TENSOR
        if ty is None:
            return
        tgt = e_false if neg else e_true
        if name in tgt and tgt[name].ty == T_UNK:
            tgt[name] = tgt[name].with_ty(ty)
        # where the test FAILS: not a tensor -> the tensor facet is void; after that, not an operator either -> the value is a
        # plain python object (same assumption as for `hasattr(x, "clone")` above: it owns no tensor storage)
        oth = e_true if neg else e_false
        if name in oth and oth[name].ty == T_UNK:
            v = oth[name]
            if ty == T_TENSOR:
                oth[name] = AV(frozenset(), T_UNK, v.ety, v.oprov)
            elif ty == T_OP and not v.prov:
                oth[name] = AV(frozenset(), T_UNK, v.ety, frozenset())

    def _merge(self, dst: Dict[str, AV], a: Dict[str, AV], b: Dict[str, AV]) -> None:
        out = {}
        for k in set(a) | set(b):
            x, y = a.get(k), b.get(k)
            out[k] = y if x is None else (x if y is None else x.join(y))
        dst.clear()
        dst.update(out)

    def _element(self, it: AV) -> AV:
        """Element of an iterable: same objects for containers, views for tensors."""
        if it.ty == T_CONT:
            if it.ety == T_BOT:  # element of a container nothing was stored into (on this path)
                return AV(it.prov, T_UNK, T_UNK, it.oprov)
            return SCALAR if it.ety == T_SCALAR else AV(it.prov, it.ety, T_UNK, it.oprov).with_ty(it.ety)
        if it.ty in (T_SCALAR, T_CALL):
            return SCALAR
        if it.ty == T_TENSOR:
            return AV(_sto(it.prov), T_TENSOR)
        # unknown: container (same objects), tensor (views) or operator (rows)
        return AV(it.prov, T_UNK, T_UNK, it.oprov)

    def _iter_assign(self, target: ast.AST, iter_expr: ast.AST, it: AV, env: Dict[str, AV], st: ast.AST) -> None:
        """Loop-variable binding; position-wise for `for a, b in zip(x, y)` / `enumerate(x)` / `d.items()`."""
        if isinstance(target, (ast.Tuple, ast.List)) and isinstance(iter_expr, ast.Call):
            f = iter_expr.func
            n = len(target.elts)
            if isinstance(f, ast.Name) and f.id == "zip" and len(iter_expr.args) == n and not any(
                    isinstance(a, ast.Starred) for a in iter_expr.args):
                for t, a in zip(target.elts, iter_expr.args):
                    self.assign(t, self._element(self.ev(a, env)), env, st)
                return
            if isinstance(f, ast.Name) and f.id == "enumerate" and n == 2 and iter_expr.args:
                self.assign(target.elts[0], SCALAR, env, st)
                inner = iter_expr.args[0]
                self._iter_assign(target.elts[1], inner, self.ev(inner, env), env, st)
                return
            if isinstance(f, ast.Attribute) and f.attr == "items" and n == 2 and not iter_expr.args:
                self.assign(target.elts[0], SCALAR, env, st)
                self.assign(target.elts[1], self._element(self.ev(f.value, env)), env, st)
                return
        self.assign(target, self._element(it), env, st)

    def assign(self, t: ast.AST, v: AV, env: Dict[str, AV], st: ast.AST) -> None:
        if isinstance(t, ast.Name):
            if v.ty == T_UNK and t.id in self.tensor_names:
                v = v.with_ty(T_TENSOR)
            env[t.id] = v
        elif isinstance(t, (ast.Tuple, ast.List)) and v.pos is not None and len(v.pos) == len(t.elts) and not any(
                isinstance(e, ast.Starred) for e in t.elts):
            for e, pv in zip(t.elts, v.pos):
                self.assign(e, pv, env, st)
        elif isinstance(t, (ast.Tuple, ast.List)):
            el = self._element(v)
            for e in t.elts:
                if isinstance(e, ast.Starred):
                    self.assign(e.value, AV(el.prov, T_CONT, el.ty, el.oprov), env, st)
                else:
                    self.assign(e, el, env, st)
        elif isinstance(t, ast.Attribute):
            base = t.value
            if isinstance(base, ast.Name) and base.id == self.self_name:
                env[f"{self.self_name}.{t.attr}"] = v
            else:
                self.ev(base, env)
        elif isinstance(t, ast.Subscript):
            tgt = self.ev(t.value, env)
            self.ev(t.slice, env)
            if tgt.ty in (T_CONT, T_SCALAR, T_CALL):
                self._update_container(t.value, tgt, v, env)
            else:
                self.sink(st, "data", "subscript store", tgt, norm(t.value), env)
        elif isinstance(t, ast.Starred):
            self.assign(t.value, v, env, st)

    def _update_container(self, target_expr: ast.AST, tgt: AV, v: AV, env: Dict[str, AV]) -> None:
        ety = v.ty if tgt.ety == v.ty or (tgt.fresh and tgt.ety == T_UNK and tgt.ty == T_CONT and False) else _join_ty(tgt.ety, v.ty)
        new = AV(tgt.prov | v.prov, tgt.ty, ety, tgt.oprov | v.oprov)
        if isinstance(target_expr, ast.Name):
            env[target_expr.id] = new
        elif (isinstance(target_expr, ast.Attribute) and isinstance(target_expr.value, ast.Name)
              and target_expr.value.id == self.self_name):
            env[f"{self.self_name}.{target_expr.attr}"] = new

    def augassign(self, st: ast.AugAssign, v: AV, env: Dict[str, AV]) -> None:
        t = st.target
        if isinstance(t, ast.Name):
            cur = env.get(t.id, FRESH_U)
            if cur.ty in (T_SCALAR, T_CALL):
                env[t.id] = SCALAR if v.ty == T_SCALAR else AV(frozenset(), T_TENSOR if v.ty == T_TENSOR else T_UNK)
                return
            if cur.ty == T_CONT:
                env[t.id] = AV(cur.prov | v.prov, T_CONT, cur.ety, cur.oprov | v.oprov)
                return
            self.sink(st, "data", "augmented assignment", cur, t.id, env)
        elif isinstance(t, ast.Subscript):
            tgt = self.ev(t.value, env)
            self.ev(t.slice, env)
            if tgt.ty in (T_CONT, T_SCALAR, T_CALL):
                self._update_container(t.value, tgt, v, env)
            else:
                self.sink(st, "data", "augmented subscript store", tgt, norm(t.value), env)
        elif isinstance(t, ast.Attribute):
            cur = self.ev(t, env)
            if cur.ty not in (T_SCALAR, T_CONT, T_CALL):
                self.sink(st, "data", "augmented attribute assignment", cur, norm(t), env)

    # -------------------------------------------------------------------------- sinks
    def sink(self, node: ast.AST, kind: str, what: str, tgt: AV, text: str, env, via: Optional[str] = None,
             facet: str = "t") -> None:
        """A write through a tensor in-place operation (facet t: the tensor itself) or through an in-place API
        method of an operator (facet o: the tensors the operator holds)."""
        if tgt.ty in (T_SCALAR, T_CALL):
            return
        prov = tgt.prov if facet == "t" else tgt.oprov
        if tgt.ty == T_CONT and facet == "t":
            prov = tgt.prov
        if kind == "meta":
            prov = frozenset(p for p in prov if p[1] == OBJ)
        if not prov:
            return
        fn = self.fn
        # (i) explicit out= buffers: a parameter named `out`
        prov = frozenset(p for p in prov if not (p[0][0] == "P" and p[0][2] == "out"))
        if not prov:
            return
        # (ii) the in-place API methods the property itself names
        owner = fn
        while owner.parent is not None:
            owner = owner.parent
        if owner.name in EXEMPT_INPLACE_API and what in ("detach_", "requires_grad_", "_set_requires_grad"):
            return
        # (iii) private module-level helpers: the obligation moves to the call sites through MUT
        if is_private_helper(fn):
            own = {p[0][2] for p in prov if p[0][0] == "P" and p[0][1] == self.fq}
            for p in own:
                old = self.mut.get(p)
                self.mut[p] = kind if old in (None, kind) else "both"
            prov = frozenset(p for p in prov if not (p[0][0] == "P" and p[0][1] == self.fq))
            if not prov:
                return
        key = (id(node), what, text)
        if key in self._seen_sink_keys:
            for s in self.sinks:
                if (id(s.node), s.what, s.target_text) == key:
                    s.target = AV(s.target.prov | prov, tgt.ty)
            return
        self._seen_sink_keys.add(key)
        self.sinks.append(Sink(fn, node, kind, what, AV(prov, tgt.ty), text, via))

    # -------------------------------------------------------------------------- expressions
    def ev(self, e: Optional[ast.AST], env: Dict[str, AV]) -> AV:
        if e is None:
            return SCALAR
        m = getattr(self, "ev_" + type(e).__name__, None)
        if m is None:
            for ch in ast.iter_child_nodes(e):
                if isinstance(ch, ast.expr):
                    self.ev(ch, env)
            return FRESH_U
        return m(e, env)

    def ev_Constant(self, e, env):
        return SCALAR

    def ev_JoinedStr(self, e, env):
        for v in e.values:
            if isinstance(v, ast.FormattedValue):
                self.ev(v.value, env)
        return SCALAR

    def ev_Name(self, e: ast.Name, env):
        if e.id in env:
            return env[e.id]
        m = self.fn.module
        if e.id in m.globals_:
            ty = self.eng._syntactic_ty(m.globals_[e.id], set())
            if ty in (T_SCALAR, "none"):
                return SCALAR
            if ty == T_CONT:
                return FRESH_C
            g = frozenset({(("GLOBAL", e.id), OBJ)})
            return AV(g, T_UNK, T_UNK, g)
        if e.id in ("True", "False", "None", "Ellipsis", "NotImplemented"):
            return SCALAR
        return CALLABLE  # imported module / function / class / builtin

    def ev_Tuple(self, e, env):
        vals = [self._elt(x, env) for x in e.elts]
        j = join_all(vals, T_CONT)
        if 0 < len(vals) <= 8 and not any(isinstance(x, ast.Starred) for x in e.elts):
            return AV(j.prov, j.ty, j.ety, j.oprov, tuple(AV(v.prov, v.ty, v.ety, v.oprov) for v in vals))
        return j

    def ev_List(self, e, env):
        if not e.elts:
            return EMPTY_C
        return join_all([self._elt(x, env) for x in e.elts], T_CONT)

    ev_Set = ev_List

    def _elt(self, x, env):
        if isinstance(x, ast.Starred):
            v = self.ev(x.value, env)
            return self._element(v)
        return self.ev(x, env)

    def ev_Starred(self, e, env):
        return self.ev(e.value, env)

    def ev_Dict(self, e, env):
        vs = []
        for k, v in zip(e.keys, e.values):
            val = self.ev(v, env)
            if k is None:
                val = self._element(val)
            else:
                self.ev(k, env)
            vs.append(val)
        if not vs:
            return EMPTY_C
        return join_all(vs, T_CONT)

    def _comp(self, e, env, elts):
        env2 = dict(env)
        for g in e.generators:
            it = self.ev(g.iter, env2)
            self._iter_assign(g.target, g.iter, it, env2, e)
            for c in g.ifs:
                self.ev(c, env2)
                self._narrow(c, env2, {})
        vs = [self.ev(x, env2) for x in elts]
        return join_all(vs, T_CONT)

    def ev_ListComp(self, e, env):
        return self._comp(e, env, [e.elt])

    ev_SetComp = ev_ListComp
    ev_GeneratorExp = ev_ListComp

    def ev_DictComp(self, e, env):
        env2 = dict(env)
        for g in e.generators:
            it = self.ev(g.iter, env2)
            self._iter_assign(g.target, g.iter, it, env2, e)
            for c in g.ifs:
                self.ev(c, env2)
                self._narrow(c, env2, {})
        self.ev(e.key, env2)
        return join_all([self.ev(e.value, env2)], T_CONT)

    def ev_Lambda(self, e, env):
        return CALLABLE

    def ev_IfExp(self, e, env):
        self.ev(e.test, env)
        e1, e2 = dict(env), dict(env)
        self._narrow(e.test, e1, e2)
        return self.ev(e.body, e1).join(self.ev(e.orelse, e2))

    def ev_BoolOp(self, e, env):
        return join_all([self.ev(v, env) for v in e.values])

    def ev_Compare(self, e, env):
        vals = [self.ev(e.left, env)] + [self.ev(c, env) for c in e.comparators]
        if all(v.ty in (T_SCALAR, T_CONT, T_CALL) for v in vals) or any(
                isinstance(op, (ast.Is, ast.IsNot, ast.In, ast.NotIn)) for op in e.ops):
            return SCALAR
        return FRESH_T

    def ev_UnaryOp(self, e, env):
        v = self.ev(e.operand, env)
        if isinstance(e.op, ast.Not) or v.ty == T_SCALAR:
            return SCALAR
        if v.ty == T_TENSOR:
            return FRESH_T
        return AV(frozenset(), T_UNK, T_UNK, v.oprov)  # -op is an operator that holds op

    def ev_BinOp(self, e, env):
        l, r = self.ev(e.left, env), self.ev(e.right, env)
        if (l.ty == T_CONT or r.ty == T_CONT) and isinstance(e.op, (ast.Add, ast.Mult)):
            ety = l.ety if l.ty == T_CONT else r.ety
            return AV(l.prov | r.prov, T_CONT, ety, l.oprov | r.oprov)
        if l.ty == T_SCALAR and r.ty == T_SCALAR:
            return SCALAR
        if isinstance(e.op, ast.Mod) and l.ty == T_SCALAR:
            return SCALAR
        if {l.ty, r.ty} <= {T_TENSOR, T_SCALAR}:
            return FRESH_T
        # an operator may be involved: dispatch to the operators' dunder methods (class hierarchy analysis)
        dunder = {ast.MatMult: ("__matmul__", "__rmatmul__"), ast.Add: ("__add__", "__radd__"),
                  ast.Sub: ("__sub__", "__rsub__"), ast.Mult: ("__mul__", "__rmul__"),
                  ast.Div: ("__truediv__", None)}.get(type(e.op))
        held = l.allprov | r.allprov
        blanket = AV(frozenset(), T_OP if T_OP in (l.ty, r.ty) else T_UNK, T_UNK, held)
        if dunder is None:
            return blanket
        base = self.idx.operator_base()
        results: List[AV] = []
        fake = ast.Call(func=ast.Name(id="_binop", ctx=ast.Load()), args=[e.right], keywords=[])
        ast.copy_location(fake, e)
        if l.ty in (T_OP, T_UNK):
            impls = [f for f in self.idx.implementations(dunder[0]) if f.cls is not None and base in f.cls.mro]
            if not impls:
                return blanket
            results.append(self._apply_summary(impls, l, fake, [r], {}, env))
            if l.ty == T_UNK:
                results.append(FRESH_T)  # l was a tensor after all
        if r.ty in (T_OP, T_UNK) and l.ty != T_OP:
            if dunder[1] is None:
                return blanket
            impls = [f for f in self.idx.implementations(dunder[1]) if f.cls is not None and base in f.cls.mro]
            if not impls:
                return blanket
            fake2 = ast.Call(func=ast.Name(id="_binop", ctx=ast.Load()), args=[e.left], keywords=[])
            ast.copy_location(fake2, e)
            results.append(self._apply_summary(impls, r, fake2, [l], {}, env))
            results.append(FRESH_T)
        return join_all(results) if results else blanket

    def ev_NamedExpr(self, e, env):
        v = self.ev(e.value, env)
        self.assign(e.target, v, env, e)
        return v

    def ev_Await(self, e, env):
        return self.ev(e.value, env)

    def ev_Slice(self, e, env):
        for x in (e.lower, e.upper, e.step):
            if x is not None:
                self.ev(x, env)
        return SCALAR

    def _content(self, b: AV, ty: str) -> AV:
        """An attribute / item of an object: part of its content (same tensor objects)."""
        if ty == T_SCALAR:
            return SCALAR
        held = b.oprov
        return AV(held if ty != T_OP else frozenset(), ty, T_UNK, held if ty != T_TENSOR else frozenset())

    def ev_Attribute(self, e: ast.Attribute, env):
        base = e.value
        at = self.eng.attr_types.get(e.attr)
        if isinstance(base, ast.Name):
            if base.id == self.self_name:
                k = f"{self.self_name}.{e.attr}"
                if k in env:
                    return env[k]
                if e.attr == "__class__":
                    return CALLABLE
                if at == T_SCALAR or e.attr in TT.A_SCALAR or e.attr in ("batch_shape", "matrix_shape", "is_square",
                                                                          "batch_dim", "ndim"):
                    return SCALAR
                s = frozenset({(("SELF",), OBJ)})
                return AV(s, at or T_UNK, T_UNK, s)
            if base.id == self.ctx_name:
                c = frozenset({(("CTX",), OBJ)})
                if e.attr == "saved_tensors":
                    return AV(c, T_CONT, T_TENSOR)
                if e.attr == "needs_input_grad":
                    return SCALAR
                return AV(c, T_UNK, T_UNK, c)
            if base.id not in env:
                return CALLABLE  # module attribute: torch.float, settings.debug, math.pi ...
        b = self.ev(base, env)
        if e.attr in TT.A_SCALAR or at == T_SCALAR:
            return SCALAR
        if b.ty in (T_SCALAR, T_CALL) and b.fresh:
            return FRESH_U if b.ty == T_CALL else SCALAR
        if e.attr in TT.A_VIEW:
            # tensor facet: a view; operator facet: e.g. op.mT holds (views of) the same tensors
            return AV(_sto(b.prov), b.ty, T_UNK, b.oprov)
        if b.ty == T_TENSOR:
            return AV(_sto(b.prov), T_UNK)
        c = self._content(b, at or T_UNK)
        if b.ty == T_CONT:
            return AV(b.prov, T_UNK, T_UNK, b.oprov)
        return c

    def ev_Subscript(self, e: ast.Subscript, env):
        b = self.ev(e.value, env)
        self.ev(e.slice, env)
        if b.ty == T_CONT:
            if isinstance(e.slice, ast.Slice):
                return AV(b.prov, b.ty, b.ety, b.oprov)
            if b.pos is not None and isinstance(e.slice, ast.Constant) and isinstance(e.slice.value, int) \
                    and -len(b.pos) <= e.slice.value < len(b.pos):
                return b.pos[e.slice.value]
            return self._element(b)
        if b.ty == T_SCALAR:
            return SCALAR
        if b.ty == T_CALL:
            return FRESH_U  # typing expressions: List[int] ...
        # tensor facet: a view.  operator facet: a new operator / tensor holding (views of) the same tensors
        # (for an untyped value only the tensor facet flows into the tensor facet: the facets of a parameter or
        # attribute coincide anyway; they differ only for results of arithmetic / lazy constructions, whose items
        # are computed, not stored)
        if b.ty == T_OP:
            return AV(_sto(b.oprov), T_UNK, T_UNK, b.oprov)
        return AV(_sto(b.prov), T_TENSOR if b.ty == T_TENSOR else T_UNK, T_UNK,
                  frozenset() if b.ty == T_TENSOR else b.oprov)

    # -------------------------------------------------------------------------- calls
    def ev_Call(self, e: ast.Call, env) -> AV:
        eng = self.eng
        eng.n_calls_total += 1
        args = [self.ev(a, env) for a in e.args]
        kwargs: Dict[Optional[str], AV] = {}
        for k in e.keywords:
            v = self.ev(k.value, env)
            kwargs[k.arg] = v if k.arg not in kwargs else kwargs[k.arg].join(v)
        allargs = args + list(kwargs.values())
        if "out" in kwargs:
            okw = next(k for k in e.keywords if k.arg == "out")
            ov = kwargs["out"]
            if not (isinstance(okw.value, ast.Constant) and okw.value.value is None):
                self.sink(e, "data", "out=", AV(ov.prov, T_TENSOR), norm(okw.value), env)
        f = e.func
        d = dotted(f)
        if isinstance(f, ast.Name):
            return self._call_name(f.id, e, args, kwargs, allargs, env)
        if isinstance(f, ast.Attribute):
            return self._call_attr(f, d, e, args, kwargs, allargs, env)
        fv = self.ev(f, env)
        if isinstance(f, ast.Call) or isinstance(f, ast.Subscript):
            return self._call_unknown_callable(fv, allargs)
        return self._call_unknown_callable(fv, allargs)

    def _call_name(self, name: str, e, args, kwargs, allargs, env) -> AV:
        eng = self.eng
        if name in env and env[name].ty != T_CALL:
            passed = eng.fn_args.get((self.fn.qualname, name))
            if passed:
                # a private function that calls its parameter, and every caller hands it a package function / bound method
                outs = []
                funcs = [f_ for f_ in passed if not isinstance(f_, str)]
                if funcs:
                    outs.append(self._apply_summary(funcs, None, e, args, kwargs, env))
                for mn in [f_[len("method:"):] for f_ in passed if isinstance(f_, str)]:
                    impls = self.idx.implementations(mn)
                    if not impls:
                        return self._call_unknown_callable(env[name], allargs)
                    recv_av = AV(frozenset(), T_OP, T_UNK, env[name].prov | env[name].oprov)  # the operator the method is bound to
                    outs.append(self._apply_summary(impls, recv_av, e, args, kwargs, env))
                return join_all(outs) if outs else FRESH_U
            return self._call_unknown_callable(env[name], allargs)
        nested = self._find_nested(name)
        if nested is not None:
            return self._apply_summary([nested], None, e, args, kwargs, env)
        q = self.idx.resolve_name(self.fn.module, name)
        if q and q in self.idx.func_by_qual:
            return self._apply_summary([self.idx.func_by_qual[q]], None, e, args, kwargs, env)
        if q and q in self.idx.classes:
            return self._construct(self.idx.classes[q], e, args, kwargs, env)
        if q and q.startswith("torch."):
            return self._torch_function(q, e, args, kwargs, env)
        if name in BUILTIN_SCALAR:
            if name in ("min", "max", "sum", "abs", "pow", "round") and any(a.ty == T_TENSOR for a in args):
                return FRESH_T
            return SCALAR
        if name == "super":
            return env.get(self.self_name, FRESH_U) if self.self_name else FRESH_U
        if name in BUILTIN_CONT:
            els = [self._element(a) if a.ty in (T_CONT, T_UNK, T_TENSOR) else a for a in allargs]
            if name in ("zip", "enumerate"):
                # container of tuples of elements
                j = join_all(els, T_CONT) if els else FRESH_C
                return AV(j.prov, T_CONT, T_CONT, j.oprov)
            if name in ("map", "filter") and len(args) >= 2:
                j = self._call_unknown_callable(args[0], [self._element(a) for a in args[1:]])
                return AV(j.prov, T_CONT, T_UNK, j.oprov)
            return join_all(els, T_CONT) if els else (EMPTY_C if not allargs else FRESH_C)
        if name == "getattr" and args:
            return self._content(args[0], T_UNK).join(AV(_sto(args[0].prov), T_UNK))
        if name in ("deepcopy", "copy"):
            return AV(frozenset(), args[0].ty if args else T_UNK)
        if name in env:
            return self._call_unknown_callable(env[name], allargs)
        eng.unclassified[f"call:{name}"] = eng.unclassified.get(f"call:{name}", 0) + 1
        if name and name[0].isupper() and name.endswith(("Error", "Warning", "Exception")):
            return SCALAR
        return join_all(allargs, T_UNK) if allargs else FRESH_U

    def _call_attr(self, f: ast.Attribute, d: Optional[str], e, args, kwargs, allargs, env) -> AV:
        eng = self.eng
        mname = f.attr
        if d is not None:
            head = d.split(".")[0]
            if head not in env and head != self.self_name:
                q = self.idx.resolve_name(self.fn.module, d)
                if q is None and head in self.fn.module.imports:
                    q = self.fn.module.imports[head] + d[len(head):]
                if q:
                    return self._call_qualified(q, e, args, kwargs, allargs, env)
        # super().m(...)
        if isinstance(f.value, ast.Call) and isinstance(f.value.func, ast.Name) and f.value.func.id == "super":
            cls = self.fn.cls
            recv = env.get(self.self_name, FRESH_U) if self.self_name else FRESH_U
            if cls is not None:
                after = cls
                if f.value.args:
                    after = self.idx.class_of_expr(self.fn.module, f.value.args[0]) or cls
                impls = []
                for sc in [cls] + self.idx.subclasses(cls):
                    t = self.idx.resolve_method(sc, mname, after=after)
                    if t is not None and t not in impls:
                        impls.append(t)
                if impls:
                    return self._apply_summary(impls, recv, e, args, kwargs, env)
            return FRESH_U
        recv_expr = f.value
        recv = self.ev(recv_expr, env)
        if isinstance(recv_expr, ast.Name) and recv_expr.id == self.ctx_name and mname not in (
                "save_for_backward", "mark_non_differentiable", "mark_dirty", "set_materialize_grads"):
            # a callable stored on the autograd ctx (ctx.representation_tree(*args), ctx.preconditioner(x))
            return self._call_unknown_callable(recv, allargs)
        if isinstance(recv_expr, ast.Name) and recv_expr.id == self.self_name and self.fn.cls is not None:
            if mname == "__class__":
                # self.__class__(...) constructs (a subclass of) the enclosing class: the new operator holds its arguments
                return self._construct(self.fn.cls, e, args, kwargs, env)
            k = f"{self.self_name}.{mname}"
            impls = eng.cha(self.fn.cls, mname)
            if impls:
                return self._apply_summary(impls, recv, e, args, kwargs, env)
            if k in env:
                return self._call_unknown_callable(env[k], allargs)
            return self._call_unknown_callable(recv, allargs)
        if isinstance(recv_expr, ast.Name) and self.fn.cls is not None and self.fn.is_classmethod() and self.fn.parent is None \
                and recv_expr.id == self._first_param():
            # cls.helper(...) inside a classmethod: the static / class methods of (a subclass of) the enclosing class
            impls = [m for m in eng.cha(self.fn.cls, mname) if m.is_staticmethod() or m.is_classmethod()]
            if impls and len(impls) == len(eng.cha(self.fn.cls, mname)):
                return self._apply_summary(impls, None, e, args, kwargs, env)
        # cls(...) / self.__class__(...) : constructor of (a subclass of) the enclosing class
        if mname == "__class__":
            held = frozenset().union(*[a.allprov for a in allargs]) if allargs else frozenset()
            return AV(frozenset(), T_OP if recv.ty == T_OP else T_UNK, T_UNK, held)
        return self._method_call(recv, recv_expr, mname, e, args, kwargs, env)

    def _call_qualified(self, q: str, e, args, kwargs, allargs, env) -> AV:
        if q.startswith("torch.") or q == "torch":
            return self._torch_function(q, e, args, kwargs, env)
        if q in self.idx.func_by_qual:
            return self._apply_summary([self.idx.func_by_qual[q]], None, e, args, kwargs, env)
        if q in self.idx.classes:
            return self._construct(self.idx.classes[q], e, args, kwargs, env)
        cq, _, meth = q.rpartition(".")
        if cq in self.idx.classes:
            c = self.idx.classes[cq]
            if meth == "apply" and self.idx.resolve_method(c, "forward") is not None:
                fw = self.idx.resolve_method(c, "forward")
                r = self._apply_summary([fw], None, e, [FRESH_U] + args, kwargs, env)
                return AV(_sto(r.prov), T_UNK, T_UNK, _sto(r.oprov))  # A4: apply returns new tensor objects
            tgt = self.idx.resolve_method(c, meth)
            if tgt is not None:
                if tgt.is_classmethod() or tgt.is_staticmethod():
                    pre = [CALLABLE] if tgt.is_classmethod() else []
                    return self._apply_summary([tgt], None, e, pre + args, kwargs, env)
                return self._apply_summary([tgt], args[0] if args else FRESH_U, e, args[1:], kwargs, env)
            return SCALAR
        head = q.split(".")[0]
        if head in ("itertools", "collections"):
            els = [self._element(a) for a in allargs]
            return join_all(els, T_CONT) if els else (EMPTY_C if not allargs else FRESH_C)
        if q in ("copy.deepcopy", "copy.copy"):
            return AV(frozenset(), args[0].ty if args else T_UNK)
        if head in ("math", "warnings", "functools", "pickle", "numbers", "numpy", "np", "logging", "copy", "typing",
                    "scipy"):
            return SCALAR if head != "scipy" else FRESH_U
        return join_all(allargs, T_UNK) if allargs else FRESH_U

    def _find_nested(self, name: str) -> Optional[FunctionInfo]:
        f: Optional[FunctionInfo] = self.fn
        while f is not None:
            for ch in self.eng.children.get(f.qualname, []):
                if ch.name == name:
                    return ch
            f = f.parent
        return None

    def _call_unknown_callable(self, callee: AV, allargs: List[AV]) -> AV:
        """A2: a caller-supplied / unknown callable returns a value that is fresh or aliases its arguments."""
        if not allargs:
            return FRESH_U
        flat = [self._element(a) if a.ty == T_CONT else a for a in allargs]
        j = join_all(flat, T_UNK)
        # the result may alias an argument (tensor facet) or be an object that holds the arguments
        return AV(j.prov, T_UNK, T_UNK, j.prov | j.oprov)

    def _construct(self, cls: ClassInfo, e: ast.Call, args, kwargs, env) -> AV:
        """Constructor call: the new object holds its arguments (content union)."""
        init = self.idx.resolve_method(cls, "__init__")
        is_op = self.idx.operator_base() in cls.mro
        allargs = args + list(kwargs.values())
        held = frozenset().union(*[a.allprov for a in allargs]) if allargs else frozenset()
        if init is not None:
            self._apply_summary([init], AV(frozenset(), T_OP), e, args, kwargs, env, ret=False)
        if is_op:
            return AV(frozenset(), T_OP, T_UNK, held)
        if any(b.endswith(("Error", "Warning", "Exception")) for b in cls.external_bases) or any(
                k.name.endswith(("Error", "Warning")) for k in cls.mro):
            return SCALAR
        return AV(frozenset(), T_UNK, T_UNK, held)

    def _torch_function(self, q: str, e: ast.Call, args, kwargs, env) -> AV:
        leaf = q.split(".")[-1]
        allargs = args + [v for k, v in kwargs.items() if k not in ("dtype", "device", "out", "dim")]
        tens = [a for a in allargs if a.ty not in (T_SCALAR, T_CALL)]
        tprov = frozenset().union(*[a.prov for a in tens]) if tens else frozenset()
        if q in TT.F_FRESH_DOTTED:
            return AV(frozenset(), T_CONT, T_TENSOR) if leaf in ("qr", "svd", "eigh", "cholesky_ex", "slogdet", "grad") \
                else FRESH_T
        if q in TT.F_SCALAR_DOTTED:
            return SCALAR
        if q.startswith("torch.Tensor."):
            if args:
                return self._tensor_method(args[0], e.args[0] if e.args else e, leaf, e, args[1:], kwargs, env)
            return FRESH_T
        if leaf in TT.F_SCALAR:
            return SCALAR
        if leaf.endswith("_") and not leaf.startswith("_"):
            if args:
                self.sink(e, "data", leaf, args[0], norm(e.args[0]), env)
                return args[0]
        if leaf in TT.F_FRESH:
            return FRESH_T
        if leaf in TT.F_VIEW:
            if leaf in ("split", "chunk", "unbind", "broadcast_tensors", "meshgrid"):
                return AV(_sto(tprov), T_CONT, T_TENSOR)
            return AV(_sto(tprov), T_TENSOR)
        self.eng.unclassified[q] = self.eng.unclassified.get(q, 0) + 1
        return AV(_sto(tprov), T_UNK)

    def _tensor_method(self, recv: AV, recv_expr: ast.AST, mname: str, e, args, kwargs, env) -> AV:
        if mname.endswith("_") and not mname.startswith("_") and not mname.endswith("__"):
            kind = "meta" if mname in TT.M_META_INPLACE else "data"
            self.sink(e, kind, mname, recv, norm(recv_expr), env)
            if mname in TT.M_BOTH_INPLACE:
                self.sink(e, "meta", mname, recv, norm(recv_expr), env)
            return AV(recv.prov, T_TENSOR if recv.ty in (T_TENSOR, T_UNK) else recv.ty)
        if mname in TT.M_FRESH:
            return AV(frozenset(), T_CONT, T_TENSOR) if mname in ("sort", "topk", "qr", "svd") else FRESH_T
        if mname in TT.M_VIEW:
            if mname in ("split", "chunk", "unbind"):
                return AV(_sto(recv.prov), T_CONT, T_TENSOR)
            return AV(_sto(recv.prov), T_TENSOR)
        if mname in TT.M_SAME:
            return AV(recv.prov, T_TENSOR)
        if mname in TT.M_SCALAR:
            return SCALAR
        self.eng.unclassified[f"method:{mname}"] = self.eng.unclassified.get(f"method:{mname}", 0) + 1
        allp = recv.prov.union(*[a.prov for a in args]) if args else recv.prov
        return AV(_sto(allp), T_UNK)

    def _method_call(self, recv: AV, recv_expr, mname: str, e, args, kwargs, env) -> AV:
        eng = self.eng
        allargs = args + list(kwargs.values())
        if recv.ty == T_CONT and mname in CONT_METHODS:
            if mname in ("append", "add", "insert", "extend", "update", "setdefault"):
                add = join_all(allargs) if allargs else FRESH_U
                if mname in ("extend", "update") and add.ty == T_CONT:
                    add = self._element(add)
                if mname == "insert" and len(args) == 2:
                    add = args[1]
                self._update_container(recv_expr, recv, add, env)
                return SCALAR
            if mname == "copy":
                return recv
            if mname in ("keys", "index", "count", "join", "format"):
                return SCALAR
            if mname in ("pop", "popleft", "get"):
                return self._element(recv)
            if mname in ("values",):
                return recv
            if mname == "items":
                return AV(recv.prov, T_CONT, T_CONT, recv.oprov)
            return recv
        if recv.ty == T_SCALAR:
            return SCALAR
        if recv.ty == T_CALL:
            if mname == "apply":
                j = join_all(allargs, T_UNK) if allargs else FRESH_U
                return AV(_sto(j.prov), T_UNK, T_UNK, _sto(j.oprov))
            return join_all(allargs, T_UNK) if allargs else FRESH_U
        in_pkg = mname in eng.pkg_method_names
        is_tensor_m = (mname in TT.M_FRESH or mname in TT.M_VIEW or mname in TT.M_SAME or mname in TT.M_SCALAR
                       or (mname.endswith("_") and not mname.startswith("_")))
        results: List[AV] = []
        if in_pkg and recv.ty != T_TENSOR and (recv.ty == T_OP or recv.oprov or recv.ty == T_UNK):
            impls = self.idx.implementations(mname)
            base = self.idx.operator_base()
            if mname in base.methods:
                # part of the operator API: an untyped receiver with held tensors is an operator
                impls = [f for f in impls if f.cls is not None and base in f.cls.mro]
            # in-place API of operators applied to an operator the caller owns
            if mname in ("requires_grad_", "detach_"):
                self.sink(e, "meta", mname, recv, norm(recv_expr), env, facet="o")
            results.append(self._apply_summary(impls, recv, e, args, kwargs, env))
        if is_tensor_m and recv.ty != T_OP:
            results.append(self._tensor_method(recv, recv_expr, mname, e, args, kwargs, env))
        if results:
            return join_all(results)
        if mname in CONT_METHODS and recv.ty == T_UNK:
            if mname in ("append", "insert", "extend", "update"):
                self._update_container(recv_expr, recv, join_all(allargs) if allargs else FRESH_U, env)
                return SCALAR
            return AV(recv.prov, T_UNK, T_UNK, recv.oprov)
        if recv.ty == T_TENSOR:
            return self._tensor_method(recv, recv_expr, mname, e, args, kwargs, env)
        # unknown method of an unknown object: result may hold / alias anything involved
        self.eng.unclassified[f"method:{mname}"] = self.eng.unclassified.get(f"method:{mname}", 0) + 1
        j = join_all([recv] + allargs, T_UNK)
        return AV(j.prov, T_UNK, T_UNK, j.oprov)

    def _apply_summary(self, impls: List[FunctionInfo], recv: Optional[AV], e: ast.Call, args: List[AV],
                       kwargs: Dict[Optional[str], AV], env, ret: bool = True) -> AV:
        """Instantiate callee summaries at this call site: map RET tokens to actuals, check MUT obligations."""
        self.eng.n_calls_resolved += 1
        out: List[AV] = []
        flags = [isinstance(a, ast.Starred) for a in e.args]
        # callers may have prepended / dropped leading actuals (ctx of Function.apply, explicit receiver)
        if len(flags) < len(args):
            flags = [False] * (len(args) - len(flags)) + flags
        elif len(flags) > len(args):
            flags = flags[len(flags) - len(args):]
        for callee in impls:
            s = self.eng.summary_of(callee)
            self.deps.add(callee.qualname)
            binding = self._bind(callee, recv, args, kwargs, flags, e)
            if self.eng.private_helper(callee):
                for p_, av_ in binding.items():
                    if av_.ty == T_BOT:
                        continue
                    key_ = (callee.qualname, p_)
                    site_ = (self.fn.qualname, getattr(e, "lineno", 0), getattr(e, "col_offset", 0))
                    sites_ = self.eng.param_sites.setdefault(key_, {})
                    sites_[site_] = (av_.ty, av_.ety)  # what THIS call site passes now (types sharpen over the iterations)
                    tys_ = {t_[0] for t_ in sites_.values()}
                    etys_ = {t_[1] for t_ in sites_.values()}
                    new_ = (tys_.pop() if len(tys_) == 1 else T_UNK, etys_.pop() if len(etys_) == 1 else T_UNK)
                    if new_ != self.eng.param_types.get(key_):
                        self.eng.param_types[key_] = new_
                        self.eng.changed = True
                        self.eng.changed_set.add(callee.qualname)
            for p, kind in s.mut.items():
                actual = binding.get(p)
                if actual is None:
                    continue
                for kd in (["data", "meta"] if kind == "both" else [kind]):
                    self.sink(e, kd, f"{callee.short}() writes its argument `{p}` in place", actual,
                              self._actual_text(callee, p, e), env, via=callee.qualname)
            if not ret:
                continue
            r = s.ret if s.ret_set else BOTTOM
            for (gp, gk), gv in s.gret.items():
                a = binding.get(gp)
                aty = a.ty if a is not None else T_SCALAR  # unbound: the default (None / a constant)
                ok = (gk == "any" or aty in (T_UNK, T_BOT)
                      or (gk == "op" and aty == T_OP) or (gk == "tensor" and aty == T_TENSOR)
                      or (gk == "notop" and aty != T_OP) or (gk == "nottensor" and aty != T_TENSOR))
                if ok:
                    r = r.join(gv)

            def mapped(tokens: Prov) -> Set:
                res: Set = set()
                for (o, k) in tokens:
                    if o[0] == "P" and o[1] == callee.qualname:
                        a = binding.get(o[2])
                        if a is not None:
                            src = a.prov if o[3] == "t" else a.oprov
                            for (o2, k2) in src:
                                res.add((o2, k2 if k == OBJ else STO))
                    elif o == ("SELF",):
                        a = binding.get("SELF")
                        if a is not None:
                            for (o2, k2) in a.oprov:
                                res.add((o2, k2 if k == OBJ else STO))
                    else:
                        res.add((o, k))  # enclosing function's parameters, CTX, GLOBAL
                return res

            def map_av(v: AV) -> AV:
                return AV(frozenset(mapped(v.prov)), v.ty, v.ety, frozenset(mapped(v.oprov)),
                          tuple(map_av(x) for x in v.pos) if v.pos is not None else None)

            out.append(map_av(r))
        if not ret:
            return FRESH_U
        res = join_all(out) if out else FRESH_U
        return res if res.ty != T_BOT else FRESH_U

    def _actual_text(self, callee: FunctionInfo, p: str, e: ast.Call) -> str:
        if p == "SELF" and isinstance(e.func, ast.Attribute):
            return norm(e.func.value)
        params = callee.params()
        if callee.cls is not None and callee.parent is None and not callee.is_staticmethod():
            params = params[1:]
        if p in params:
            i = params.index(p)
            if i < len(e.args):
                return norm(e.args[i])
        for k in e.keywords:
            if k.arg == p:
                return norm(k.value)
        return p

    def _bind(self, callee: FunctionInfo, recv: Optional[AV], args: List[AV], kwargs, flags: List[bool],
              e: ast.Call) -> Dict[str, AV]:
        node = callee.node
        a = node.args
        params = [x.arg for x in list(a.posonlyargs) + list(a.args)]
        binding: Dict[str, AV] = {}
        is_m = callee.cls is not None and callee.parent is None and not callee.is_staticmethod() and not isinstance(
            node, ast.Lambda)
        actuals = list(args)
        flags = list(flags)
        if is_m:
            if recv is not None:
                binding["SELF"] = recv
            elif not callee.is_classmethod() and actuals:
                binding["SELF"] = actuals[0]
                actuals = actuals[1:]
                flags = flags[1:]
            params = params[1:]
        if any(flags):
            # actuals before the first starred one are at known positions; a starred actual spills over every
            # remaining positional parameter and the *vararg
            k = flags.index(True)
            for i, p in enumerate(params[:k]):
                if i < len(actuals):
                    binding[p] = actuals[i]
            spill = [self._element(x) if f else x for x, f in zip(actuals[k:], flags[k:])]
            allp = join_all(spill) if spill else FRESH_U
            for p in params[k:]:
                binding[p] = allp
            if a.vararg:
                binding[a.vararg.arg] = AV(allp.prov, T_CONT, allp.ty, allp.oprov)
        else:
            for i, p in enumerate(params):
                if i < len(actuals):
                    binding[p] = actuals[i]
            if a.vararg:
                rest = actuals[len(params):]
                binding[a.vararg.arg] = join_all(rest, T_CONT) if rest else FRESH_C
        extra = []
        named = params + [x.arg for x in a.kwonlyargs]
        for k, v in kwargs.items():
            if k is None:
                extra.append(self._element(v))
            elif k in named:
                binding[k] = v
            else:
                extra.append(v)
        if extra:
            ev_ = join_all(extra, T_CONT)
            if a.kwarg:
                binding[a.kwarg.arg] = ev_
            if None in kwargs:
                el = self._element(kwargs[None])
                for p in named:
                    if p not in binding:
                        binding[p] = el
        return binding


def is_private_helper(fn: FunctionInfo) -> bool:
    """Private module-level helper (its in-place writes on parameters are obligations of its call sites)."""
    top = fn
    while top.parent is not None:
        top = top.parent
    return top.cls is None and top.name.startswith("_") and not top.name.startswith("__")
