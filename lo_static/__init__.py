"""Static verification machinery for cornellius-gp/linear_operator.

Everything in this package decides properties from the *source* of
``<root>/linear_operator`` (parsed with :mod:`ast` on every run).  Nothing of the
library is imported or executed.
"""
