"""Findings, known-findings protocol, evidence writer and exit-code policy.

exit 0  - property held on everything analysed (KNOWN-FINDING lines allowed)
exit 1  - at least one violation that the known-findings file does not list
exit 2  - ANALYSIS-ERROR: the analysis cannot stand behind a verdict (fail closed)
"""
from __future__ import annotations

import json
import os
import re
import time
from dataclasses import dataclass, field
from typing import Any, Dict, List, Optional

VERIF_DIR = os.path.dirname(os.path.dirname(os.path.abspath(__file__)))
KNOWN_FILE = os.path.join(VERIF_DIR, "known_findings.json")
# maintainer tools that run many trees in parallel (tools/regress_par.py) redirect what a run writes; registered commands never set it
_SCRATCH = os.environ.get("VERIF_SCRATCH")
EVIDENCE_DIR = os.path.join(_SCRATCH or VERIF_DIR, "evidence")
OUT_DIR = os.path.join(_SCRATCH or VERIF_DIR, "out")


def _squash(s: str) -> str:
    return re.sub(r"\s+", " ", s).strip()


@dataclass
class Finding:
    prop: str
    rule: str  # e.g. "C17.S1"
    function: str  # qualified construct owner, e.g. "settings._feature_flag.__init__"
    construct: str  # normalised text of the offending construct (position independent)
    message: str
    loc: str = ""  # file:line (diagnostic only, never part of the key)
    detail: Dict[str, Any] = field(default_factory=dict)

    def key(self) -> str:
        return f"{self.prop}|{self.rule}|{self.function}|{_squash(self.construct)}"

    def to_json(self) -> Dict[str, Any]:
        return {
            "property": self.prop,
            "rule": self.rule,
            "function": self.function,
            "construct": _squash(self.construct),
            "message": self.message,
            "loc": self.loc,
            "detail": self.detail,
            "key": self.key(),
        }


@dataclass
class RuleStats:
    rule: str
    description: str
    instances: int = 0
    discharged: int = 0
    floor: int = 0
    samples: List[Any] = field(default_factory=list)
    keys: set = field(default_factory=set)

    def add_key(self, sample: Any) -> None:
        if sample is None:
            self.keys.add(f"#{self.instances}")
        else:
            try:
                self.keys.add(json.dumps(sample, sort_keys=True, default=str))
            except Exception:
                self.keys.add(repr(sample))

    def to_json(self):
        return {
            "rule": self.rule,
            "description": self.description,
            "instances": self.instances,
            "discharged": self.discharged,
            "floor": self.floor,
        }


class Report:
    """Collects rule statistics, findings and evidence for one property check."""

    def __init__(self, prop: str, tier: str, root: str):
        self.prop = prop
        self.tier = tier
        self.root = root
        self.rules: Dict[str, RuleStats] = {}
        self.findings: List[Finding] = []
        self.errors: List[str] = []
        self.assumptions: List[str] = []
        self.extra: Dict[str, Any] = {}
        self.samples: List[Any] = []
        self.analysed: Dict[str, Any] = {}
        self.notes: List[str] = []
        self.quiet = False  # self-test runs: no printing, no evidence, no replay files
        self.t0 = time.time()

    # -- rules ---------------------------------------------------------------------------------
    def rule(self, rule: str, description: str, floor: int = 0) -> RuleStats:
        if rule not in self.rules:
            self.rules[rule] = RuleStats(rule, description, floor=floor)
        return self.rules[rule]

    def ok(self, rule: str, sample: Any = None) -> None:
        r = self.rules[rule]
        r.instances += 1
        r.discharged += 1
        r.add_key(sample)
        if sample is not None and len(r.samples) < 6:
            r.samples.append(sample)

    def bad(self, rule: str, finding: Finding, sample: Any = None) -> None:
        r = self.rules[rule]
        r.instances += 1
        r.add_key(finding.key())
        self.findings.append(finding)
        if len(r.samples) < 12:
            r.samples.append(sample if sample is not None else {"violation": finding.to_json()})

    def count(self, rule: str, n: int = 1) -> None:
        """Instances that are enumerated but carry no obligation of their own (informational)."""
        for _ in range(n):
            self.rules[rule].instances += 1
            self.rules[rule].discharged += 1
            self.rules[rule].add_key(None)

    def error(self, msg: str) -> None:
        self.errors.append(msg)

    def note(self, msg: str) -> None:
        self.notes.append(msg)

    # -- finish --------------------------------------------------------------------------------
    def finish(self) -> int:
        for r in self.rules.values():
            if r.instances < r.floor:
                self.errors.append(
                    f"rule {r.rule}: only {r.instances} instance(s) analysed, floor is {r.floor} "
                    f"(anchor vanished or checker blind) - {r.description}"
                )
        known = load_known(self.prop)
        fixed = load_fixed(self.prop)
        unlisted: List[Finding] = []
        matched_known: List[Dict[str, Any]] = []
        seen_keys = set()
        for f in self.findings:
            k = f.key()
            if k in seen_keys:
                continue
            seen_keys.add(k)
            ent = known.get(k)
            if ent is not None:
                matched_known.append({"key": k, "what": ent.get("what", f.message)})
                print(f"KNOWN-FINDING: property={self.prop} {f.rule} {f.function}: "
                      f"{ent.get('what', f.message)} [{f.loc}]")
            else:
                unlisted.append(f)
        stale = [k for k in known if k not in seen_keys]
        for k in stale:
            # a listed finding that no longer reproduces is only reported; it suppresses nothing
            print(f"NOTE: known finding no longer reproduces (fixed or moved): {k}")
        for k, ent in fixed.items():
            if k in seen_keys:
                print(f"NOTE: finding recorded as fixed ({ent.get('commit')}) has RETURNED: {k}")

        rc = 0
        replay_paths: List[str] = []
        if unlisted:
            rc = 1
            os.makedirs(os.path.join(OUT_DIR, self.prop), exist_ok=True)
            for i, f in enumerate(unlisted):
                p = os.path.join(OUT_DIR, self.prop, f"{i}.json")
                with open(p, "w") as fh:
                    json.dump({"root": self.root, "tier": self.tier, **f.to_json()}, fh, indent=1, sort_keys=True)
                replay_paths.append(p)
                print(f"{f.loc}: [{f.rule}] {f.function}: {f.message}")
                print(f"    construct: {_squash(f.construct)[:300]}")
                print(f"VIOLATION property={self.prop} replay={p}")
        if self.errors:
            # a real violation is still reported as such; blindness alone is exit 2 (never a silent pass)
            rc = 1 if unlisted else 2
            for e in self.errors:
                print(f"ANALYSIS-ERROR property={self.prop} {e}")

        self._write_evidence(unlisted, matched_known, stale, rc)
        total = sum(r.instances for r in self.rules.values())
        disc = sum(r.discharged for r in self.rules.values())
        print(f"[{self.prop}] tier={self.tier} rules={len(self.rules)} obligations={total} discharged={disc} "
              f"violations={len(unlisted)} known={len(matched_known)} errors={len(self.errors)} "
              f"wall={time.time() - self.t0:.2f}s exit={rc}")
        return rc

    def _write_evidence(self, unlisted, matched_known, stale, rc) -> None:
        os.makedirs(EVIDENCE_DIR, exist_ok=True)
        total = sum(r.instances for r in self.rules.values())
        disc = sum(r.discharged for r in self.rules.values())
        samples: List[Any] = list(self.samples)
        for r in self.rules.values():
            for s in r.samples[:4]:
                samples.append({"rule": r.rule, "case": s})
        if not samples:
            samples = [{"note": "no obligations enumerated"}]
        nontrivial = sum(len(r.keys) for r in self.rules.values())
        cov = {
            "explanation": self.extra.pop("explanation", ""),
            "obligations": total,
            "discharged": disc,
            "evaluations": max(total, 1),
            "distinct_nontrivial": nontrivial,
            "rule": "each obligation is one (rule, code construct) pair enumerated from the current source of "
                    "/repo/linear_operator; distinct by construction (keyed by qualified function and normalised "
                    "construct text); non-trivial = the construct exists in the analysed tree and the rule had to "
                    "be evaluated on it",
            "exhaustive": True,
            "rules": [r.to_json() for r in self.rules.values()],
            "samples": samples[:60],
            "analysed": self.analysed,
            "known_findings_matched": matched_known,
            "known_findings_not_reproduced": stale,
            "violations_unlisted": [f.to_json() for f in unlisted][:50],
            "analysis_errors": self.errors,
            "notes": self.notes,
            "checker_cmd": f"./check {self.prop} --tier {self.tier}",
            "trusted_base": ["python ast parser", "lo_static rule tables (torch API classification)"],
            "exit_code": rc,
        }
        cov.update(self.extra)
        ev = {
            "property_id": self.prop,
            "tier": self.tier,
            "seed": int(os.environ.get("VERIF_SEED", "0") or 0),
            "level": "other",
            "coverage": cov,
            "assumptions": self.assumptions,
            "wall_s": round(time.time() - self.t0, 3),
            "violations": len(unlisted),
        }
        with open(os.path.join(EVIDENCE_DIR, f"{self.prop}.json"), "w") as fh:
            json.dump(ev, fh, indent=1, sort_keys=True, default=str)


def _load_all() -> List[Dict[str, Any]]:
    if not os.path.exists(KNOWN_FILE):
        return []
    with open(KNOWN_FILE) as fh:
        data = json.load(fh)
    return data.get("findings", [])


def load_known(prop: str) -> Dict[str, Dict[str, Any]]:
    return {e["key"]: e for e in _load_all() if e.get("property") == prop and e.get("status") == "known"}


def load_fixed(prop: str) -> Dict[str, Dict[str, Any]]:
    return {e["key"]: e for e in _load_all() if e.get("property") == prop and str(e.get("status", "")).startswith("fixed")}
