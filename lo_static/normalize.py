"""Source-level normalisation applied to the parsed package before it is indexed (nothing is executed, nothing is written).

specialise_reflective_names
    A private function / method that receives an attribute NAME as a parameter and uses it only reflectively
    (``getattr(x, name)``, ``hasattr(x, name)``, ``setattr(x, name, v)``), and whose every call site in the package passes a
    string literal for it, is specialised per literal::

        def _rebuild_with_method(self, method_name, *method_args):          def _rebuild_with_method__clone(self, *method_args):
            ... hasattr(c, method_name) ... getattr(c, method_name)(...)  ->     ... hasattr(c, "clone") ... c.clone(...)
        self._rebuild_with_method("clone")                                      self._rebuild_with_method__clone()

    so that the analyses see ordinary attribute accesses whether a maintainer wrote four near-identical methods or one
    table-driven helper.  Call sites are matched by callee NAME (a superset of the real callers): if any of them passes
    something other than a string literal, nothing is specialised and the reflective code is analysed as written.
"""
from __future__ import annotations

import ast
import copy
from typing import Dict, List, Optional, Tuple

REFLECT = {"getattr", "hasattr", "setattr", "delattr"}


def _defs(tree: ast.Module):
    """(container body list, def node, is_method) for module-level functions and methods of module-level classes."""
    for st in tree.body:
        if isinstance(st, (ast.FunctionDef, ast.AsyncFunctionDef)):
            yield tree.body, st, False
        elif isinstance(st, ast.ClassDef):
            for s2 in st.body:
                if isinstance(s2, (ast.FunctionDef, ast.AsyncFunctionDef)):
                    static = any(isinstance(d, ast.Name) and d.id == "staticmethod" for d in s2.decorator_list)
                    yield st.body, s2, not static


def _reflective_only(fn: ast.AST, p: str) -> bool:
    loads, refl = [], set()
    for n in ast.walk(fn):
        if isinstance(n, ast.Name) and n.id == p:
            if not isinstance(n.ctx, ast.Load):
                return False
            loads.append(n)
        if isinstance(n, ast.Call) and isinstance(n.func, ast.Name) and n.func.id in REFLECT and len(n.args) >= 2 \
                and isinstance(n.args[1], ast.Name) and n.args[1].id == p:
            refl.add(id(n.args[1]))
        if isinstance(n, ast.arg) and n.arg == p and n is not None:
            pass
    # the parameter must not be re-declared by a nested function
    for n in ast.walk(fn):
        if n is not fn and isinstance(n, (ast.FunctionDef, ast.AsyncFunctionDef, ast.Lambda)):
            a = n.args
            if any(x.arg == p for x in list(a.posonlyargs) + list(a.args) + list(a.kwonlyargs)) or (a.vararg and a.vararg.arg == p) \
                    or (a.kwarg and a.kwarg.arg == p):
                return False
    return bool(loads) and all(id(x) in refl for x in loads)


class _Subst(ast.NodeTransformer):
    def __init__(self, p: str, c: str):
        self.p, self.c = p, c

    def visit_Name(self, node: ast.Name):
        if node.id == self.p and isinstance(node.ctx, ast.Load):
            return ast.copy_location(ast.Constant(value=self.c), node)
        return node

    def visit_Call(self, node: ast.Call):
        self.generic_visit(node)
        if isinstance(node.func, ast.Name) and node.func.id == "getattr" and len(node.args) == 2 and not node.keywords \
                and isinstance(node.args[1], ast.Constant) and node.args[1].value == self.c:
            return ast.copy_location(ast.Attribute(value=node.args[0], attr=self.c, ctx=ast.Load()), node)
        return node


def specialise_reflective_names(trees: Dict[str, ast.Module]) -> List[str]:
    done: List[str] = []
    cands: List[Tuple[str, list, ast.FunctionDef, bool, str, int]] = []
    for mod, tree in trees.items():
        for body, fn, is_method in _defs(tree):
            if not fn.name.startswith("_") or fn.name.startswith("__"):
                continue
            a = fn.args
            if a.posonlyargs:
                continue
            names = [x.arg for x in a.args]
            for i, p in enumerate(names):
                if is_method and i == 0:
                    continue
                if _reflective_only(fn, p):
                    cands.append((mod, body, fn, is_method, p, i - (1 if is_method else 0)))
    if not cands:
        return done
    by_name: Dict[str, List[int]] = {}
    for k, c in enumerate(cands):
        by_name.setdefault(c[2].name, []).append(k)
    # a name defined more than once (overrides) is specialised only if all definitions agree on the parameter
    sites: Dict[int, List[Tuple[ast.Call, Optional[int], Optional[int], str]]] = {k: [] for k in range(len(cands))}
    dead = set()
    for mod, tree in trees.items():
        for n in ast.walk(tree):
            if not isinstance(n, ast.Call):
                continue
            cname = n.func.attr if isinstance(n.func, ast.Attribute) else (n.func.id if isinstance(n.func, ast.Name) else None)
            for k in by_name.get(cname, []):
                _m, _b, fn, _ism, p, pos = cands[k]
                ai = ki = None
                val = None
                if pos < len(n.args) and not any(isinstance(x, ast.Starred) for x in n.args[: pos + 1]):
                    ai, val = pos, n.args[pos]
                else:
                    for j, kw in enumerate(n.keywords):
                        if kw.arg == p:
                            ki, val = j, kw.value
                if isinstance(val, ast.Constant) and isinstance(val.value, str) and val.value.isidentifier():
                    sites[k].append((n, ai, ki, val.value))
                else:
                    dead.add(k)
    for name, ks in by_name.items():
        all_defs = sum(1 for tree in trees.values() for _b, f, _i in _defs(tree) if f.name == name)
        # exactly one definition of that name in the package and one reflective parameter: enough for today's shapes, and
        # every call site then belongs to that definition
        if all_defs != 1 or len(ks) != 1 or ks[0] in dead or not sites[ks[0]]:
            continue
        for k in ks:
            mod, body, fn, is_method, p, pos = cands[k]
            consts = sorted({c for (_n, _a, _k, c) in sites[k]})
            at = body.index(fn)
            for c in consts:
                new = copy.deepcopy(fn)
                new.name = f"{fn.name}__{c}"
                a = new.args
                real_i = pos + (1 if is_method else 0)
                n_def = len(a.defaults)
                first_def = len(a.args) - n_def
                if real_i >= first_def:
                    del a.defaults[real_i - first_def]
                del a.args[real_i]
                new.body = [_Subst(p, c).visit(st) for st in new.body]
                ast.fix_missing_locations(new)
                at += 1
                body.insert(at, new)
            done.append(f"{mod}:{fn.name}({p}) specialised for {consts}")
        for k in ks:
            fn = cands[k][2]
            for (call, ai, ki, c) in sites[k]:
                if isinstance(call.func, ast.Attribute):
                    call.func.attr = f"{fn.name}__{c}"
                else:
                    call.func.id = f"{fn.name}__{c}"
                if ai is not None:
                    del call.args[ai]
                elif ki is not None:
                    del call.keywords[ki]
    return done


# ------------------------------------------------------------------------------------------------ getattr dispatch
def _str_consts(node: ast.AST, values_only: bool = False) -> List[str]:
    out: List[str] = []
    if values_only and isinstance(node, ast.Dict):
        for v in node.values:
            out += _str_consts(v)
        return out
    for x in ast.walk(node):
        if isinstance(x, ast.Constant) and isinstance(x.value, str):
            out.append(x.value)
    return out


def _returns_flow_from(fn: ast.FunctionDef) -> Optional[set]:
    """Parameters of a small helper whose VALUE can reach what it returns (flow-insensitive closure over its assignments and
    loop targets); None when the helper returns something that is not built from its parameters and constants."""
    params = [a.arg for a in fn.args.args] + [a.arg for a in fn.args.kwonlyargs]
    dep: Dict[str, set] = {p: {p} for p in params}
    changed = True
    while changed:
        changed = False
        for n in ast.walk(fn):
            pairs = []
            if isinstance(n, ast.Assign):
                pairs = [(t, n.value) for t in n.targets]
            elif isinstance(n, ast.For):
                pairs = [(n.target, n.iter)]
            elif isinstance(n, ast.comprehension):
                pairs = [(n.target, n.iter)]
            for t, v in pairs:
                src = set()
                for x in ast.walk(v):
                    if isinstance(x, ast.Name) and x.id in dep:
                        src |= dep[x.id]
                for x in ast.walk(t):
                    if isinstance(x, ast.Name):
                        old = dep.get(x.id, set())
                        if not src <= old:
                            dep[x.id] = old | src
                            changed = True
    out: set = set()
    for r in ast.walk(fn):
        if isinstance(r, ast.Return) and r.value is not None:
            for x in ast.walk(r.value):
                if isinstance(x, ast.Name):
                    if x.id in dep:
                        out |= dep[x.id]
                    elif x.id not in ("None", "True", "False"):
                        return None
                elif isinstance(x, (ast.Call, ast.Attribute)):
                    return None
    return out


def expand_getattr_dispatch(trees: Dict[str, ast.Module]) -> List[str]:
    """``getattr(obj, name)(args)`` where ``name`` can only be one of a few string literals of the package - taken from a
    module- / class-level table, possibly through a small lookup helper - becomes the equivalent chain
    ``obj.m1(args) if name == "m1" else obj.m2(args) ...``: table-driven dispatch and an if/elif chain are then the same
    program for every analysis.  Nothing is rewritten when a source of the name is not a literal of the package."""
    done: List[str] = []
    for mod, tree in trees.items():
        mod_tables = {t.id: st.value for st in tree.body if isinstance(st, ast.Assign) and isinstance(st.value, (ast.Dict, ast.Tuple, ast.List, ast.Set))
                      for t in st.targets if isinstance(t, ast.Name)}
        mod_funcs = {st.name: st for st in tree.body if isinstance(st, ast.FunctionDef)}
        scopes: List[Tuple[Optional[ast.ClassDef], ast.FunctionDef]] = []
        for st in tree.body:
            if isinstance(st, ast.FunctionDef):
                scopes.append((None, st))
            elif isinstance(st, ast.ClassDef):
                for s2 in st.body:
                    if isinstance(s2, ast.FunctionDef):
                        scopes.append((st, s2))
        for cls, fn in scopes:
            cls_tables = {t.id: s2.value for s2 in (cls.body if cls else []) if isinstance(s2, ast.Assign)
                          and isinstance(s2.value, (ast.Dict, ast.Tuple, ast.List, ast.Set)) for t in s2.targets if isinstance(t, ast.Name)}
            params = {a.arg for a in fn.args.args + fn.args.kwonlyargs} | ({fn.args.vararg.arg} if fn.args.vararg else set())
            assigns: Dict[str, List[ast.AST]] = {}
            for n in ast.walk(fn):
                if isinstance(n, ast.Assign):
                    for t in n.targets:
                        if isinstance(t, ast.Name):
                            assigns.setdefault(t.id, []).append(n.value)
                elif isinstance(n, (ast.For, ast.comprehension)):
                    for x in ast.walk(n.target):
                        if isinstance(x, ast.Name):
                            assigns.setdefault(x.id, []).append(None)  # loop variable: not a single expression
                elif isinstance(n, (ast.AugAssign, ast.AnnAssign, ast.NamedExpr)):
                    t = n.target
                    if isinstance(t, ast.Name):
                        assigns.setdefault(t.id, []).append(None)

            def table_of(e: ast.AST) -> Optional[ast.AST]:
                if isinstance(e, ast.Name):
                    if e.id in assigns or e.id in params:
                        return None
                    return mod_tables.get(e.id)
                if isinstance(e, ast.Attribute) and isinstance(e.value, ast.Name) and e.value.id in ("self", "cls"):
                    return cls_tables.get(e.attr)
                if isinstance(e, ast.Attribute) and isinstance(e.value, ast.Call) and isinstance(e.value.func, ast.Name) \
                        and e.value.func.id == "type":
                    return cls_tables.get(e.attr)
                return None

            def candidates(e: ast.AST, depth: int = 0) -> Optional[List[str]]:
                """String literals e can evaluate to, or None when a source is not a literal of the package."""
                if isinstance(e, ast.Constant):
                    return [e.value] if isinstance(e.value, str) else []
                if isinstance(e, ast.IfExp):
                    a_, b_ = candidates(e.body, depth), candidates(e.orelse, depth)
                    return None if a_ is None or b_ is None else a_ + b_
                if isinstance(e, ast.Name) and depth < 3:
                    vs = assigns.get(e.id)
                    if vs is not None and len(vs) == 1 and vs[0] is not None and e.id not in params:
                        return candidates(vs[0], depth + 1)
                    return None
                if isinstance(e, ast.Subscript):
                    t = table_of(e.value)
                    if t is not None:
                        return _str_consts(t, values_only=True)
                    return None
                if isinstance(e, ast.Call) and isinstance(e.func, ast.Attribute) and e.func.attr == "get" and e.args:
                    t = table_of(e.func.value)
                    if t is None:
                        return None
                    out = _str_consts(t, values_only=True)
                    for extra in e.args[1:]:
                        c_ = candidates(extra, depth)
                        if c_ is None:
                            return None
                        out += c_
                    return out
                if isinstance(e, ast.Call) and isinstance(e.func, ast.Name) and e.func.id in mod_funcs and e.func.id not in assigns:
                    h = mod_funcs[e.func.id]
                    flow = _returns_flow_from(h)
                    if flow is None:
                        return None
                    hp = [a.arg for a in h.args.args]
                    out: List[str] = []
                    bound = list(zip(hp, e.args)) + [(k.arg, k.value) for k in e.keywords if k.arg]
                    given = {p_ for p_, _v in bound}
                    for p_, v in bound:
                        if p_ not in flow:
                            continue
                        t = table_of(v)
                        if t is not None:
                            out += _str_consts(t)
                            continue
                        c_ = candidates(v, depth)
                        if c_ is None:
                            return None
                        out += c_
                    # defaults of parameters that were not passed
                    dfl = dict(zip(hp[len(hp) - len(h.args.defaults):], h.args.defaults))
                    for p_ in flow - given:
                        if p_ in dfl:
                            c_ = candidates(dfl[p_], depth)
                            if c_ is None:
                                return None
                            out += c_
                        else:
                            return None
                    return out
                return None

            class _Rewrite(ast.NodeTransformer):
                def visit_FunctionDef(self, node):
                    if node is not fn:
                        return node
                    self.generic_visit(node)
                    return node

                def visit_Lambda(self, node):
                    return node

                def visit_Call(self, node: ast.Call):
                    self.generic_visit(node)
                    g = node.func
                    if not (isinstance(g, ast.Call) and isinstance(g.func, ast.Name) and g.func.id == "getattr" and len(g.args) == 2
                            and not g.keywords):
                        return node
                    obj, name_e = g.args
                    if not isinstance(obj, (ast.Name, ast.Attribute)):
                        return node
                    cs = candidates(name_e)
                    if not cs:
                        return node
                    names: List[str] = []
                    for c_ in cs:
                        if c_.isidentifier() and c_ not in names:
                            names.append(c_)
                    if not names or len(names) > 12:
                        return node

                    def call_of(m_: str) -> ast.Call:
                        c2 = ast.Call(func=ast.Attribute(value=copy.deepcopy(obj), attr=m_, ctx=ast.Load()),
                                      args=[copy.deepcopy(a) for a in node.args], keywords=[copy.deepcopy(k) for k in node.keywords])
                        return ast.copy_location(c2, node)

                    out: ast.AST = call_of(names[-1])
                    for m_ in reversed(names[:-1]):
                        test = ast.Compare(left=copy.deepcopy(name_e), ops=[ast.Eq()], comparators=[ast.Constant(value=m_)])
                        out = ast.copy_location(ast.IfExp(test=ast.copy_location(test, node), body=call_of(m_), orelse=out), node)
                    ast.fix_missing_locations(out)
                    done.append(f"{mod}:{(cls.name + '.') if cls else ''}{fn.name}: getattr dispatch over {names}")
                    return out

            _Rewrite().visit(fn)
    return done


# ------------------------------------------------------------------------------------------------ tables of callables
class _SubstNames(ast.NodeTransformer):
    def __init__(self, mapping: Dict[str, ast.AST]):
        self.mapping = mapping

    def visit_Name(self, node: ast.Name):
        if isinstance(node.ctx, ast.Load) and node.id in self.mapping:
            return copy.deepcopy(self.mapping[node.id])
        return node

    def visit_Lambda(self, node):
        return node


def expand_callable_tables(trees: Dict[str, ast.Module]) -> List[str]:
    """``TABLE[key](args)`` (directly, or through a local bound once to ``TABLE[key]``) where TABLE is a module- / class-level
    dict display whose values are all lambdas or plain function names becomes the chain
    ``<body of entry 1 applied to args> if key == K1 else <entry 2 ...>`` - the if/else the table was written instead of.
    Lambdas are beta-reduced only when every argument is a name, attribute or constant (no duplicated effects)."""
    done: List[str] = []
    for mod, tree in trees.items():
        def callable_dict(v: ast.AST) -> bool:
            return isinstance(v, ast.Dict) and v.keys and all(k is not None for k in v.keys) and all(
                isinstance(x, ast.Lambda) or (isinstance(x, ast.Name) and x.id in mod_func_names) for x in v.values)

        mod_func_names = {st.name for st in tree.body if isinstance(st, ast.FunctionDef)}
        mod_tables = {t.id: st.value for st in tree.body if isinstance(st, ast.Assign) and callable_dict(st.value)
                      for t in st.targets if isinstance(t, ast.Name)}
        scopes: List[Tuple[Optional[ast.ClassDef], ast.FunctionDef]] = []
        for st in tree.body:
            if isinstance(st, ast.FunctionDef):
                scopes.append((None, st))
            elif isinstance(st, ast.ClassDef):
                for s2 in st.body:
                    if isinstance(s2, ast.FunctionDef):
                        scopes.append((st, s2))
        for cls, fn in scopes:
            cls_tables = {t.id: s2.value for s2 in (cls.body if cls else []) if isinstance(s2, ast.Assign) and callable_dict(s2.value)
                          for t in s2.targets if isinstance(t, ast.Name)}
            if not mod_tables and not cls_tables:
                continue
            params = {a.arg for a in fn.args.args + fn.args.kwonlyargs}
            single: Dict[str, ast.AST] = {}
            counts: Dict[str, int] = {}
            for n in ast.walk(fn):
                if isinstance(n, ast.Assign):
                    for t in n.targets:
                        for x in ast.walk(t):
                            if isinstance(x, ast.Name):
                                counts[x.id] = counts.get(x.id, 0) + 1
                                if isinstance(t, ast.Name):
                                    single[x.id] = n.value
                elif isinstance(n, (ast.For, ast.comprehension, ast.AugAssign, ast.AnnAssign, ast.NamedExpr)):
                    for x in ast.walk(n.target):
                        if isinstance(x, ast.Name):
                            counts[x.id] = counts.get(x.id, 0) + 2

            def table_of(e: ast.AST):
                if isinstance(e, ast.Name) and e.id not in counts and e.id not in params:
                    return mod_tables.get(e.id)
                if isinstance(e, ast.Attribute) and isinstance(e.value, ast.Name) and e.value.id in ("self", "cls"):
                    return cls_tables.get(e.attr)
                return None

            def selection(e: ast.AST):
                """(table, key expression) when e is TABLE[key] or a local bound exactly once to that."""
                if isinstance(e, ast.Name) and counts.get(e.id) == 1 and e.id not in params and e.id in single:
                    e = single[e.id]
                if isinstance(e, ast.Subscript):
                    t = table_of(e.value)
                    if t is not None:
                        key = e.slice
                        # bool(x) around the key is how a truth value is turned into a key; compare truthiness directly
                        return t, key
                return None

            class _Rewrite(ast.NodeTransformer):
                def visit_FunctionDef(self, node):
                    if node is not fn:
                        return node
                    self.generic_visit(node)
                    return node

                def alternatives(self, node: ast.Call):
                    sel = selection(node.func)
                    if sel is None or any(isinstance(a, ast.Starred) for a in node.args):
                        return None
                    table, key = sel
                    simple = all(isinstance(a, (ast.Name, ast.Attribute, ast.Constant)) for a in node.args)
                    alts = []
                    for k_, v in zip(table.keys, table.values):
                        if isinstance(v, ast.Lambda):
                            la = v.args
                            if la.vararg or la.kwarg or la.kwonlyargs or la.defaults or len(la.args) != len(node.args) or not simple \
                                    or node.keywords:
                                return None
                            body = _SubstNames({p.arg: a for p, a in zip(la.args, node.args)}).visit(copy.deepcopy(v.body))
                        else:
                            body = ast.Call(func=copy.deepcopy(v), args=[copy.deepcopy(a) for a in node.args],
                                            keywords=[copy.deepcopy(k) for k in node.keywords])
                        if isinstance(k_, ast.Constant) and k_.value is True:
                            test = copy.deepcopy(key)
                        elif isinstance(k_, ast.Constant) and k_.value is False:
                            test = ast.UnaryOp(op=ast.Not(), operand=copy.deepcopy(key))
                        else:
                            test = ast.Compare(left=copy.deepcopy(key), ops=[ast.Eq()], comparators=[copy.deepcopy(k_)])
                        alts.append((test, body))
                    return alts

                def _stmt(self, node, make):
                    """A statement whose whole value is TABLE[key](args): an if / elif chain of that statement."""
                    v = getattr(node, "value", None)
                    alts = self.alternatives(v) if isinstance(v, ast.Call) else None
                    if not alts:
                        self.generic_visit(node)
                        return node
                    out = [make(alts[-1][1])]
                    for test, body in reversed(alts[:-1]):
                        out = [ast.If(test=test, body=[make(body)], orelse=out)]
                    for x in ast.walk(out[0]):
                        if not hasattr(x, "lineno"):
                            ast.copy_location(x, node)
                    ast.fix_missing_locations(out[0])
                    done.append(f"{mod}:{(cls.name + '.') if cls else ''}{fn.name}: table of callables applied at line {getattr(node, 'lineno', 0)} (statement)")
                    return out[0]

                def visit_Assign(self, node: ast.Assign):
                    return self._stmt(node, lambda b_: ast.Assign(targets=[copy.deepcopy(t) for t in node.targets], value=b_))

                def visit_Expr(self, node: ast.Expr):
                    return self._stmt(node, lambda b_: ast.Expr(value=b_))

                def visit_Return(self, node: ast.Return):
                    return self._stmt(node, lambda b_: ast.Return(value=b_))

                def visit_Call(self, node: ast.Call):
                    self.generic_visit(node)
                    alts = self.alternatives(node)
                    if not alts:
                        return node
                    out = alts[-1][1]
                    for test, body in reversed(alts[:-1]):
                        out = ast.IfExp(test=test, body=body, orelse=out)
                    out = ast.copy_location(out, node)
                    for x in ast.walk(out):
                        ast.copy_location(x, node) if not hasattr(x, "lineno") else None
                    ast.fix_missing_locations(out)
                    done.append(f"{mod}:{(cls.name + '.') if cls else ''}{fn.name}: table of callables applied at line {getattr(node, 'lineno', 0)}")
                    return out

            _Rewrite().visit(fn)
        # dead code left behind by the rewrite: locals that were only bound to TABLE[key], and tables nobody reads any more
        if mod_tables:
            for _cls, fn in scopes:
                loads = {}
                for x in ast.walk(fn):
                    if isinstance(x, ast.Name) and isinstance(x.ctx, ast.Load):
                        loads[x.id] = loads.get(x.id, 0) + 1

                def prune(body: List[ast.stmt]) -> List[ast.stmt]:
                    out_ = []
                    for st in body:
                        if isinstance(st, ast.Assign) and len(st.targets) == 1 and isinstance(st.targets[0], ast.Name) \
                                and loads.get(st.targets[0].id, 0) == 0 and isinstance(st.value, ast.Subscript) \
                                and isinstance(st.value.value, ast.Name) and st.value.value.id in mod_tables:
                            continue
                        for fld in ("body", "orelse", "finalbody"):
                            if isinstance(getattr(st, fld, None), list) and not isinstance(st, (ast.FunctionDef, ast.ClassDef)):
                                new_ = prune(getattr(st, fld))
                                setattr(st, fld, new_ if new_ or fld != "body" else [ast.copy_location(ast.Pass(), st)])
                        out_.append(st)
                    return out_

                fn.body = prune(fn.body) or [ast.copy_location(ast.Pass(), fn)]
            still = {x.id for x in ast.walk(tree) if isinstance(x, ast.Name) and isinstance(x.ctx, ast.Load)}
            tree.body = [st for st in tree.body if not (isinstance(st, ast.Assign) and len(st.targets) == 1 and isinstance(st.targets[0], ast.Name)
                                                        and st.targets[0].id in mod_tables and st.targets[0].id not in still)]
    return done
