"""Source-level normalisation applied to the parsed package before it is indexed (nothing is executed, nothing is written).

specialise_reflective_names
    A private function / method that receives an attribute NAME as a parameter and uses it only reflectively
    (``getattr(x, name)``, ``hasattr(x, name)``, ``setattr(x, name, v)``), and whose every call site in the package passes a
    string literal for it, is specialised per literal::

        def _rebuild_with_method(self, method_name, *method_args):          def _rebuild_with_method__clone(self, *method_args):
            ... hasattr(c, method_name) ... getattr(c, method_name)(...)  ->     ... hasattr(c, "clone") ... c.clone(...)
        self._rebuild_with_method("clone")                                      self._rebuild_with_method__clone()

    so that the analyses see ordinary attribute accesses whether a maintainer wrote four near-identical methods or one
    table-driven helper.  Call sites are matched by callee NAME (a superset of the real callers): if any of them passes
    something other than a string literal, nothing is specialised and the reflective code is analysed as written.
"""
from __future__ import annotations

import ast
import copy
from typing import Dict, List, Optional, Tuple

REFLECT = {"getattr", "hasattr", "setattr", "delattr"}


def _defs(tree: ast.Module):
    """(container body list, def node, is_method) for module-level functions and methods of module-level classes."""
    for st in tree.body:
        if isinstance(st, (ast.FunctionDef, ast.AsyncFunctionDef)):
            yield tree.body, st, False
        elif isinstance(st, ast.ClassDef):
            for s2 in st.body:
                if isinstance(s2, (ast.FunctionDef, ast.AsyncFunctionDef)):
                    static = any(isinstance(d, ast.Name) and d.id == "staticmethod" for d in s2.decorator_list)
                    yield st.body, s2, not static


def _reflective_only(fn: ast.AST, p: str) -> bool:
    loads, refl = [], set()
    for n in ast.walk(fn):
        if isinstance(n, ast.Name) and n.id == p:
            if not isinstance(n.ctx, ast.Load):
                return False
            loads.append(n)
        if isinstance(n, ast.Call) and isinstance(n.func, ast.Name) and n.func.id in REFLECT and len(n.args) >= 2 \
                and isinstance(n.args[1], ast.Name) and n.args[1].id == p:
            refl.add(id(n.args[1]))
        if isinstance(n, ast.arg) and n.arg == p and n is not None:
            pass
    # the parameter must not be re-declared by a nested function
    for n in ast.walk(fn):
        if n is not fn and isinstance(n, (ast.FunctionDef, ast.AsyncFunctionDef, ast.Lambda)):
            a = n.args
            if any(x.arg == p for x in list(a.posonlyargs) + list(a.args) + list(a.kwonlyargs)) or (a.vararg and a.vararg.arg == p) \
                    or (a.kwarg and a.kwarg.arg == p):
                return False
    return bool(loads) and all(id(x) in refl for x in loads)


class _Subst(ast.NodeTransformer):
    def __init__(self, p: str, c: str):
        self.p, self.c = p, c

    def visit_Name(self, node: ast.Name):
        if node.id == self.p and isinstance(node.ctx, ast.Load):
            return ast.copy_location(ast.Constant(value=self.c), node)
        return node

    def visit_Call(self, node: ast.Call):
        self.generic_visit(node)
        if isinstance(node.func, ast.Name) and node.func.id == "getattr" and len(node.args) == 2 and not node.keywords \
                and isinstance(node.args[1], ast.Constant) and node.args[1].value == self.c:
            return ast.copy_location(ast.Attribute(value=node.args[0], attr=self.c, ctx=ast.Load()), node)
        return node


def specialise_reflective_names(trees: Dict[str, ast.Module]) -> List[str]:
    done: List[str] = []
    cands: List[Tuple[str, list, ast.FunctionDef, bool, str, int]] = []
    for mod, tree in trees.items():
        for body, fn, is_method in _defs(tree):
            if not fn.name.startswith("_") or fn.name.startswith("__"):
                continue
            a = fn.args
            if a.posonlyargs:
                continue
            names = [x.arg for x in a.args]
            for i, p in enumerate(names):
                if is_method and i == 0:
                    continue
                if _reflective_only(fn, p):
                    cands.append((mod, body, fn, is_method, p, i - (1 if is_method else 0)))
    if not cands:
        return done
    by_name: Dict[str, List[int]] = {}
    for k, c in enumerate(cands):
        by_name.setdefault(c[2].name, []).append(k)
    # a name defined more than once (overrides) is specialised only if all definitions agree on the parameter
    sites: Dict[int, List[Tuple[ast.Call, Optional[int], Optional[int], str]]] = {k: [] for k in range(len(cands))}
    dead = set()
    for mod, tree in trees.items():
        for n in ast.walk(tree):
            if not isinstance(n, ast.Call):
                continue
            cname = n.func.attr if isinstance(n.func, ast.Attribute) else (n.func.id if isinstance(n.func, ast.Name) else None)
            for k in by_name.get(cname, []):
                _m, _b, fn, _ism, p, pos = cands[k]
                ai = ki = None
                val = None
                if pos < len(n.args) and not any(isinstance(x, ast.Starred) for x in n.args[: pos + 1]):
                    ai, val = pos, n.args[pos]
                else:
                    for j, kw in enumerate(n.keywords):
                        if kw.arg == p:
                            ki, val = j, kw.value
                if isinstance(val, ast.Constant) and isinstance(val.value, str) and val.value.isidentifier():
                    sites[k].append((n, ai, ki, val.value))
                else:
                    dead.add(k)
    for name, ks in by_name.items():
        all_defs = sum(1 for tree in trees.values() for _b, f, _i in _defs(tree) if f.name == name)
        # exactly one definition of that name in the package and one reflective parameter: enough for today's shapes, and
        # every call site then belongs to that definition
        if all_defs != 1 or len(ks) != 1 or ks[0] in dead or not sites[ks[0]]:
            continue
        for k in ks:
            mod, body, fn, is_method, p, pos = cands[k]
            consts = sorted({c for (_n, _a, _k, c) in sites[k]})
            at = body.index(fn)
            for c in consts:
                new = copy.deepcopy(fn)
                new.name = f"{fn.name}__{c}"
                a = new.args
                real_i = pos + (1 if is_method else 0)
                n_def = len(a.defaults)
                first_def = len(a.args) - n_def
                if real_i >= first_def:
                    del a.defaults[real_i - first_def]
                del a.args[real_i]
                new.body = [_Subst(p, c).visit(st) for st in new.body]
                ast.fix_missing_locations(new)
                at += 1
                body.insert(at, new)
            done.append(f"{mod}:{fn.name}({p}) specialised for {consts}")
        for k in ks:
            fn = cands[k][2]
            for (call, ai, ki, c) in sites[k]:
                if isinstance(call.func, ast.Attribute):
                    call.func.attr = f"{fn.name}__{c}"
                else:
                    call.func.id = f"{fn.name}__{c}"
                if ai is not None:
                    del call.args[ai]
                elif ki is not None:
                    del call.keywords[ki]
    return done


# ------------------------------------------------------------------------------------------------ getattr dispatch
def _str_consts(node: ast.AST, values_only: bool = False) -> List[str]:
    out: List[str] = []
    if values_only and isinstance(node, ast.Dict):
        for v in node.values:
            out += _str_consts(v)
        return out
    for x in ast.walk(node):
        if isinstance(x, ast.Constant) and isinstance(x.value, str):
            out.append(x.value)
    return out


def _returns_flow_from(fn: ast.FunctionDef) -> Optional[set]:
    """Parameters of a small helper whose VALUE can reach what it returns (flow-insensitive closure over its assignments and
    loop targets); None when the helper returns something that is not built from its parameters and constants."""
    params = [a.arg for a in fn.args.args] + [a.arg for a in fn.args.kwonlyargs]
    dep: Dict[str, set] = {p: {p} for p in params}
    changed = True
    while changed:
        changed = False
        for n in ast.walk(fn):
            pairs = []
            if isinstance(n, ast.Assign):
                pairs = [(t, n.value) for t in n.targets]
            elif isinstance(n, ast.For):
                pairs = [(n.target, n.iter)]
            elif isinstance(n, ast.comprehension):
                pairs = [(n.target, n.iter)]
            for t, v in pairs:
                src = set()
                for x in ast.walk(v):
                    if isinstance(x, ast.Name) and x.id in dep:
                        src |= dep[x.id]
                for x in ast.walk(t):
                    if isinstance(x, ast.Name):
                        old = dep.get(x.id, set())
                        if not src <= old:
                            dep[x.id] = old | src
                            changed = True
    out: set = set()
    for r in ast.walk(fn):
        if isinstance(r, ast.Return) and r.value is not None:
            for x in ast.walk(r.value):
                if isinstance(x, ast.Name):
                    if x.id in dep:
                        out |= dep[x.id]
                    elif x.id not in ("None", "True", "False"):
                        return None
                elif isinstance(x, (ast.Call, ast.Attribute)):
                    return None
    return out


def expand_getattr_dispatch(trees: Dict[str, ast.Module]) -> List[str]:
    """``getattr(obj, name)(args)`` where ``name`` can only be one of a few string literals of the package - taken from a
    module- / class-level table, possibly through a small lookup helper - becomes the equivalent chain
    ``obj.m1(args) if name == "m1" else obj.m2(args) ...``: table-driven dispatch and an if/elif chain are then the same
    program for every analysis.  Nothing is rewritten when a source of the name is not a literal of the package."""
    done: List[str] = []
    for mod, tree in trees.items():
        mod_tables = {t.id: st.value for st in tree.body if isinstance(st, ast.Assign) and isinstance(st.value, (ast.Dict, ast.Tuple, ast.List, ast.Set))
                      for t in st.targets if isinstance(t, ast.Name)}
        mod_funcs = {st.name: st for st in tree.body if isinstance(st, ast.FunctionDef)}
        scopes: List[Tuple[Optional[ast.ClassDef], ast.FunctionDef]] = []
        for st in tree.body:
            if isinstance(st, ast.FunctionDef):
                scopes.append((None, st))
            elif isinstance(st, ast.ClassDef):
                for s2 in st.body:
                    if isinstance(s2, ast.FunctionDef):
                        scopes.append((st, s2))
        for cls, fn in scopes:
            cls_tables = {t.id: s2.value for s2 in (cls.body if cls else []) if isinstance(s2, ast.Assign)
                          and isinstance(s2.value, (ast.Dict, ast.Tuple, ast.List, ast.Set)) for t in s2.targets if isinstance(t, ast.Name)}
            params = {a.arg for a in fn.args.args + fn.args.kwonlyargs} | ({fn.args.vararg.arg} if fn.args.vararg else set())
            assigns: Dict[str, List[ast.AST]] = {}
            for n in ast.walk(fn):
                if isinstance(n, ast.Assign):
                    for t in n.targets:
                        if isinstance(t, ast.Name):
                            assigns.setdefault(t.id, []).append(n.value)
                elif isinstance(n, (ast.For, ast.comprehension)):
                    for x in ast.walk(n.target):
                        if isinstance(x, ast.Name):
                            assigns.setdefault(x.id, []).append(None)  # loop variable: not a single expression
                elif isinstance(n, (ast.AugAssign, ast.AnnAssign, ast.NamedExpr)):
                    t = n.target
                    if isinstance(t, ast.Name):
                        assigns.setdefault(t.id, []).append(None)

            def table_of(e: ast.AST) -> Optional[ast.AST]:
                if isinstance(e, ast.Name):
                    if e.id in assigns or e.id in params:
                        return None
                    return mod_tables.get(e.id)
                if isinstance(e, ast.Attribute) and isinstance(e.value, ast.Name) and e.value.id in ("self", "cls"):
                    return cls_tables.get(e.attr)
                if isinstance(e, ast.Attribute) and isinstance(e.value, ast.Call) and isinstance(e.value.func, ast.Name) \
                        and e.value.func.id == "type":
                    return cls_tables.get(e.attr)
                return None

            def candidates(e: ast.AST, depth: int = 0) -> Optional[List[str]]:
                """String literals e can evaluate to, or None when a source is not a literal of the package."""
                if isinstance(e, ast.Constant):
                    return [e.value] if isinstance(e.value, str) else []
                if isinstance(e, ast.IfExp):
                    a_, b_ = candidates(e.body, depth), candidates(e.orelse, depth)
                    return None if a_ is None or b_ is None else a_ + b_
                if isinstance(e, ast.Name) and depth < 3:
                    vs = assigns.get(e.id)
                    if vs is not None and len(vs) == 1 and vs[0] is not None and e.id not in params:
                        return candidates(vs[0], depth + 1)
                    return None
                if isinstance(e, ast.Subscript):
                    t = table_of(e.value)
                    if t is not None:
                        return _str_consts(t, values_only=True)
                    return None
                if isinstance(e, ast.Call) and isinstance(e.func, ast.Attribute) and e.func.attr == "get" and e.args:
                    t = table_of(e.func.value)
                    if t is None:
                        return None
                    out = _str_consts(t, values_only=True)
                    for extra in e.args[1:]:
                        c_ = candidates(extra, depth)
                        if c_ is None:
                            return None
                        out += c_
                    return out
                if isinstance(e, ast.Call) and isinstance(e.func, ast.Name) and e.func.id in mod_funcs and e.func.id not in assigns:
                    h = mod_funcs[e.func.id]
                    flow = _returns_flow_from(h)
                    if flow is None:
                        return None
                    hp = [a.arg for a in h.args.args]
                    out: List[str] = []
                    bound = list(zip(hp, e.args)) + [(k.arg, k.value) for k in e.keywords if k.arg]
                    given = {p_ for p_, _v in bound}
                    for p_, v in bound:
                        if p_ not in flow:
                            continue
                        t = table_of(v)
                        if t is not None:
                            out += _str_consts(t)
                            continue
                        c_ = candidates(v, depth)
                        if c_ is None:
                            return None
                        out += c_
                    # defaults of parameters that were not passed
                    dfl = dict(zip(hp[len(hp) - len(h.args.defaults):], h.args.defaults))
                    for p_ in flow - given:
                        if p_ in dfl:
                            c_ = candidates(dfl[p_], depth)
                            if c_ is None:
                                return None
                            out += c_
                        else:
                            return None
                    return out
                return None

            class _Rewrite(ast.NodeTransformer):
                def visit_FunctionDef(self, node):
                    if node is not fn:
                        return node
                    self.generic_visit(node)
                    return node

                def visit_Lambda(self, node):
                    return node

                def visit_Call(self, node: ast.Call):
                    self.generic_visit(node)
                    g = node.func
                    if not (isinstance(g, ast.Call) and isinstance(g.func, ast.Name) and g.func.id == "getattr" and len(g.args) == 2
                            and not g.keywords):
                        return node
                    obj, name_e = g.args
                    if not isinstance(obj, (ast.Name, ast.Attribute)):
                        return node
                    cs = candidates(name_e)
                    if not cs:
                        return node
                    names: List[str] = []
                    for c_ in cs:
                        if c_.isidentifier() and c_ not in names:
                            names.append(c_)
                    if not names or len(names) > 12:
                        return node

                    def call_of(m_: str) -> ast.Call:
                        c2 = ast.Call(func=ast.Attribute(value=copy.deepcopy(obj), attr=m_, ctx=ast.Load()),
                                      args=[copy.deepcopy(a) for a in node.args], keywords=[copy.deepcopy(k) for k in node.keywords])
                        return ast.copy_location(c2, node)

                    out: ast.AST = call_of(names[-1])
                    for m_ in reversed(names[:-1]):
                        test = ast.Compare(left=copy.deepcopy(name_e), ops=[ast.Eq()], comparators=[ast.Constant(value=m_)])
                        out = ast.copy_location(ast.IfExp(test=ast.copy_location(test, node), body=call_of(m_), orelse=out), node)
                    ast.fix_missing_locations(out)
                    done.append(f"{mod}:{(cls.name + '.') if cls else ''}{fn.name}: getattr dispatch over {names}")
                    return out

            _Rewrite().visit(fn)
    return done


# ------------------------------------------------------------------------------------------------ tables of callables
class _SubstNames(ast.NodeTransformer):
    def __init__(self, mapping: Dict[str, ast.AST]):
        self.mapping = mapping

    def visit_Name(self, node: ast.Name):
        if isinstance(node.ctx, ast.Load) and node.id in self.mapping:
            return copy.deepcopy(self.mapping[node.id])
        return node

    def visit_Lambda(self, node):
        return node


def _key_test(key: ast.AST, k_: ast.AST) -> Optional[ast.AST]:
    """The condition ``key == k_`` written the way an if statement would test it (None: cannot hold)."""
    if isinstance(key, ast.Tuple) and isinstance(k_, ast.Tuple) and len(key.elts) == len(k_.elts):
        parts = [_key_test(a, b) for a, b in zip(key.elts, k_.elts)]
        if any(p_ is None for p_ in parts):
            return None
        return parts[0] if len(parts) == 1 else ast.BoolOp(op=ast.And(), values=parts)
    if isinstance(key, ast.IfExp) and isinstance(key.body, ast.Constant) and isinstance(key.orelse, ast.Constant) \
            and isinstance(k_, ast.Constant) and key.body.value != key.orelse.value:
        # ("upper" if flag else "lower") == "upper"  is  flag
        if k_.value == key.body.value and type(k_.value) is type(key.body.value):
            return copy.deepcopy(key.test)
        if k_.value == key.orelse.value and type(k_.value) is type(key.orelse.value):
            return ast.UnaryOp(op=ast.Not(), operand=copy.deepcopy(key.test))
        return None
    if isinstance(k_, ast.Constant) and k_.value is True:
        return copy.deepcopy(key)
    if isinstance(k_, ast.Constant) and k_.value is False:
        return ast.UnaryOp(op=ast.Not(), operand=copy.deepcopy(key))
    return ast.Compare(left=copy.deepcopy(key), ops=[ast.Eq()], comparators=[copy.deepcopy(k_)])


def expand_callable_tables(trees: Dict[str, ast.Module]) -> List[str]:
    """``TABLE[key](args)`` (directly, or through a local bound once to ``TABLE[key]``) where TABLE is a module- / class-level
    dict display whose values are all lambdas or plain function names becomes the chain
    ``<body of entry 1 applied to args> if key == K1 else <entry 2 ...>`` - the if/else the table was written instead of.
    Lambdas are beta-reduced only when every argument is a name, attribute or constant (no duplicated effects)."""
    done: List[str] = []
    for mod, tree in trees.items():
        def callable_dict(v: ast.AST) -> bool:
            return isinstance(v, ast.Dict) and v.keys and all(k is not None for k in v.keys) and all(
                isinstance(x, ast.Lambda) or (isinstance(x, ast.Name) and x.id in mod_func_names) for x in v.values)

        mod_func_names = {st.name for st in tree.body if isinstance(st, ast.FunctionDef)}
        mod_tables = {t.id: st.value for st in tree.body if isinstance(st, ast.Assign) and callable_dict(st.value)
                      for t in st.targets if isinstance(t, ast.Name)}
        scopes: List[Tuple[Optional[ast.ClassDef], ast.FunctionDef]] = []
        for st in tree.body:
            if isinstance(st, ast.FunctionDef):
                scopes.append((None, st))
            elif isinstance(st, ast.ClassDef):
                for s2 in st.body:
                    if isinstance(s2, ast.FunctionDef):
                        scopes.append((st, s2))
        for cls, fn in scopes:
            cls_tables = {t.id: s2.value for s2 in (cls.body if cls else []) if isinstance(s2, ast.Assign) and callable_dict(s2.value)
                          for t in s2.targets if isinstance(t, ast.Name)}
            if not mod_tables and not cls_tables:
                continue
            params = {a.arg for a in fn.args.args + fn.args.kwonlyargs}
            single: Dict[str, ast.AST] = {}
            counts: Dict[str, int] = {}
            for n in ast.walk(fn):
                if isinstance(n, ast.Assign):
                    for t in n.targets:
                        for x in ast.walk(t):
                            if isinstance(x, ast.Name):
                                counts[x.id] = counts.get(x.id, 0) + 1
                                if isinstance(t, ast.Name):
                                    single[x.id] = n.value
                elif isinstance(n, (ast.For, ast.comprehension, ast.AugAssign, ast.AnnAssign, ast.NamedExpr)):
                    for x in ast.walk(n.target):
                        if isinstance(x, ast.Name):
                            counts[x.id] = counts.get(x.id, 0) + 2

            def table_of(e: ast.AST):
                if isinstance(e, ast.Name) and e.id not in counts and e.id not in params:
                    return mod_tables.get(e.id)
                if isinstance(e, ast.Attribute) and isinstance(e.value, ast.Name) and e.value.id in ("self", "cls"):
                    return cls_tables.get(e.attr)
                return None

            def selection(e: ast.AST):
                """(table, key expression) when e is TABLE[key] or a local bound exactly once to that."""
                if isinstance(e, ast.Name) and counts.get(e.id) == 1 and e.id not in params and e.id in single:
                    e = single[e.id]
                if isinstance(e, ast.Subscript):
                    t = table_of(e.value)
                    if t is not None:
                        key = e.slice
                        # bool(x) around the key is how a truth value is turned into a key; compare truthiness directly
                        return t, key
                return None

            class _Rewrite(ast.NodeTransformer):
                def visit_FunctionDef(self, node):
                    if node is not fn:
                        return node
                    self.generic_visit(node)
                    return node

                def alternatives(self, node: ast.Call):
                    sel = selection(node.func)
                    if sel is None or any(isinstance(a, ast.Starred) for a in node.args):
                        return None
                    table, key = sel
                    simple = all(isinstance(a, (ast.Name, ast.Attribute, ast.Constant)) for a in node.args)
                    alts = []
                    for k_, v in zip(table.keys, table.values):
                        if isinstance(v, ast.Lambda):
                            la = v.args
                            if la.vararg or la.kwarg or la.kwonlyargs or la.defaults or len(la.args) != len(node.args) or not simple \
                                    or node.keywords:
                                return None
                            body = _SubstNames({p.arg: a for p, a in zip(la.args, node.args)}).visit(copy.deepcopy(v.body))
                        else:
                            body = ast.Call(func=copy.deepcopy(v), args=[copy.deepcopy(a) for a in node.args],
                                            keywords=[copy.deepcopy(k) for k in node.keywords])
                        test = _key_test(key, k_)
                        if test is None:
                            continue  # the key expression can never take this entry's key
                        alts.append((test, body))
                    return alts

                def _stmt(self, node, make):
                    """A statement whose whole value is TABLE[key](args): an if / elif chain of that statement."""
                    v = getattr(node, "value", None)
                    alts = self.alternatives(v) if isinstance(v, ast.Call) else None
                    if not alts:
                        self.generic_visit(node)
                        return node
                    out = [make(alts[-1][1])]
                    for test, body in reversed(alts[:-1]):
                        out = [ast.If(test=test, body=[make(body)], orelse=out)]
                    for x in ast.walk(out[0]):
                        if not hasattr(x, "lineno"):
                            ast.copy_location(x, node)
                    ast.fix_missing_locations(out[0])
                    done.append(f"{mod}:{(cls.name + '.') if cls else ''}{fn.name}: table of callables applied at line {getattr(node, 'lineno', 0)} (statement)")
                    return out[0]

                def visit_Assign(self, node: ast.Assign):
                    return self._stmt(node, lambda b_: ast.Assign(targets=[copy.deepcopy(t) for t in node.targets], value=b_))

                def visit_Expr(self, node: ast.Expr):
                    return self._stmt(node, lambda b_: ast.Expr(value=b_))

                def visit_Return(self, node: ast.Return):
                    return self._stmt(node, lambda b_: ast.Return(value=b_))

                def visit_Call(self, node: ast.Call):
                    self.generic_visit(node)
                    alts = self.alternatives(node)
                    if not alts:
                        return node
                    out = alts[-1][1]
                    for test, body in reversed(alts[:-1]):
                        out = ast.IfExp(test=test, body=body, orelse=out)
                    out = ast.copy_location(out, node)
                    for x in ast.walk(out):
                        ast.copy_location(x, node) if not hasattr(x, "lineno") else None
                    ast.fix_missing_locations(out)
                    done.append(f"{mod}:{(cls.name + '.') if cls else ''}{fn.name}: table of callables applied at line {getattr(node, 'lineno', 0)}")
                    return out

            _Rewrite().visit(fn)
        # dead code left behind by the rewrite: locals that were only bound to TABLE[key], and tables nobody reads any more
        if mod_tables:
            for _cls, fn in scopes:
                loads = {}
                for x in ast.walk(fn):
                    if isinstance(x, ast.Name) and isinstance(x.ctx, ast.Load):
                        loads[x.id] = loads.get(x.id, 0) + 1

                def prune(body: List[ast.stmt]) -> List[ast.stmt]:
                    out_ = []
                    for st in body:
                        if isinstance(st, ast.Assign) and len(st.targets) == 1 and isinstance(st.targets[0], ast.Name) \
                                and loads.get(st.targets[0].id, 0) == 0 and isinstance(st.value, ast.Subscript) \
                                and isinstance(st.value.value, ast.Name) and st.value.value.id in mod_tables:
                            continue
                        for fld in ("body", "orelse", "finalbody"):
                            if isinstance(getattr(st, fld, None), list) and not isinstance(st, (ast.FunctionDef, ast.ClassDef)):
                                new_ = prune(getattr(st, fld))
                                setattr(st, fld, new_ if new_ or fld != "body" else [ast.copy_location(ast.Pass(), st)])
                        out_.append(st)
                    return out_

                fn.body = prune(fn.body) or [ast.copy_location(ast.Pass(), fn)]
            still = {x.id for x in ast.walk(tree) if isinstance(x, ast.Name) and isinstance(x.ctx, ast.Load)}
            tree.body = [st for st in tree.body if not (isinstance(st, ast.Assign) and len(st.targets) == 1 and isinstance(st.targets[0], ast.Name)
                                                        and st.targets[0].id in mod_tables and st.targets[0].id not in still)]
    return done


# ---------------------------------------------------------------------------------------------------- loop ... else
def expand_loop_else(trees: Dict[str, ast.Module]) -> List[str]:
    """``for ...: ... break ... else: E`` is the flag idiom written with syntax: E runs exactly when the loop was not left by a
    ``break`` of its own.  It is rewritten into the flag form the analyses model::

        loop_left_by_break_1 = False
        for ...:
            ...
                loop_left_by_break_1 = True
                break
        if not loop_left_by_break_1:
            E

    (only loops that have both an ``else`` block and a ``break`` of their own; an ``else`` without a break always runs and is
    simply appended)."""
    applied: List[str] = []

    def own_breaks(loop) -> List[Tuple[list, int]]:
        out = []

        def scan(stmts: list):
            for i, s in enumerate(stmts):
                if isinstance(s, ast.Break):
                    out.append((stmts, i))
                elif isinstance(s, (ast.For, ast.While, ast.AsyncFor)):
                    scan(s.orelse)  # a break in the else block of an inner loop belongs to the outer loop
                elif isinstance(s, (ast.FunctionDef, ast.AsyncFunctionDef, ast.ClassDef)):
                    continue
                else:
                    for fld in ("body", "orelse", "finalbody"):
                        blk = getattr(s, fld, None)
                        if isinstance(blk, list):
                            scan(blk)
                    for h in getattr(s, "handlers", []) or []:
                        scan(h.body)
                    for c in getattr(s, "cases", []) or []:
                        scan(c.body)

        scan(loop.body)
        return out

    class T(ast.NodeTransformer):
        def __init__(self, mod: str):
            self.mod = mod
            self.counter = 0

        def _loop(self, node):
            self.generic_visit(node)
            if not node.orelse:
                return node
            brs = own_breaks(node)
            orelse, node.orelse = node.orelse, []
            if not brs:
                applied.append(f"{self.mod}:{node.lineno} loop-else without a break appended after the loop")
                return [node] + orelse
            self.counter += 1
            flag = f"loop_left_by_break_{self.counter}"

            def assign(v: bool, at):
                return ast.copy_location(ast.Assign(targets=[ast.Name(id=flag, ctx=ast.Store())], value=ast.Constant(value=v)), at)

            for stmts, i in sorted(brs, key=lambda t: -t[1]):
                stmts.insert(i, assign(True, stmts[i]))
            test = ast.copy_location(ast.UnaryOp(op=ast.Not(), operand=ast.Name(id=flag, ctx=ast.Load())), orelse[0])
            tail = ast.copy_location(ast.If(test=test, body=orelse, orelse=[]), orelse[0])
            applied.append(f"{self.mod}:{node.lineno} loop-else rewritten with the flag {flag}")
            return [ast.fix_missing_locations(assign(False, node)), node, ast.fix_missing_locations(tail)]

        visit_For = _loop
        visit_While = _loop

    for mod, tree in trees.items():
        T(mod).visit(tree)
    return applied


# ---------------------------------------------------------------------------------------------------- t = f(); a = t[0]; b = t[1]
TORCH_RESULT_ARITY = {"cholesky_ex": 2, "eigh": 2, "qr": 2, "slogdet": 2, "sort": 2, "topk": 2, "lu_factor": 2, "inv_ex": 2}


def destructure_indexed_results(trees: Dict[str, ast.Module]) -> List[str]:
    """``t = f(...); a = t[0]; b = t[1]`` (consecutive statements; ``t`` is read nowhere else in the function; ``f`` returns a
    tuple of exactly that many values - a torch function of known arity or a package function whose every return is a tuple
    display of that length) is the tuple assignment ``a, b = f(...)`` written out; it is analysed as the tuple assignment."""
    applied: List[str] = []
    arity: Dict[str, Optional[int]] = {}
    for tree in trees.values():
        for fn in ast.walk(tree):
            if isinstance(fn, ast.FunctionDef):
                rets = [n for n in _own_nodes(fn) if isinstance(n, ast.Return)]
                ar = {len(r.value.elts) if isinstance(r.value, ast.Tuple) and not any(isinstance(x, ast.Starred) for x in r.value.elts)
                      else None for r in rets}
                a = next(iter(ar)) if len(ar) == 1 else None
                arity[fn.name] = a if fn.name not in arity else (a if arity[fn.name] == a else None)

    def result_arity(call: ast.Call) -> Optional[int]:
        f = call.func
        leaf = f.attr if isinstance(f, ast.Attribute) else (f.id if isinstance(f, ast.Name) else None)
        if leaf is None:
            return None
        d = []
        x = f
        while isinstance(x, ast.Attribute):
            d.append(x.attr)
            x = x.value
        root = x.id if isinstance(x, ast.Name) else None
        if root == "torch" and leaf in TORCH_RESULT_ARITY:
            return TORCH_RESULT_ARITY[leaf]
        if isinstance(f, ast.Name) or root in ("self", "cls"):
            return arity.get(leaf)
        return None

    for mod, tree in trees.items():
        for fn in [n for n in ast.walk(tree) if isinstance(n, ast.FunctionDef)]:
            loads: Dict[str, int] = {}
            for x in _own_nodes(fn):
                if isinstance(x, ast.Name) and isinstance(x.ctx, ast.Load):
                    loads[x.id] = loads.get(x.id, 0) + 1
            sites = []  # (block, index, name, targets)
            consumed: Dict[str, int] = {}

            def scan(block: List[ast.stmt]):
                for i, st in enumerate(block):
                    if isinstance(st, ast.Assign) and len(st.targets) == 1 and isinstance(st.targets[0], ast.Name) \
                            and isinstance(st.value, ast.Call):
                        t = st.targets[0].id
                        n = result_arity(st.value)
                        tg = []
                        for k, s2 in enumerate(block[i + 1:]):
                            if isinstance(s2, ast.Assign) and len(s2.targets) == 1 and isinstance(s2.targets[0], ast.Name) \
                                    and isinstance(s2.value, ast.Subscript) and isinstance(s2.value.value, ast.Name) \
                                    and s2.value.value.id == t and isinstance(s2.value.slice, ast.Constant) \
                                    and s2.value.slice.value == k and s2.targets[0].id != t:
                                tg.append(s2.targets[0])
                            else:
                                break
                        if n is not None and len(tg) == n and n >= 2:
                            sites.append((block, i, t, tg))
                            consumed[t] = consumed.get(t, 0) + n
                    if isinstance(st, (ast.FunctionDef, ast.AsyncFunctionDef, ast.ClassDef)):
                        continue
                    for fld in ("body", "orelse", "finalbody"):
                        b = getattr(st, fld, None)
                        if isinstance(b, list):
                            scan(b)
                    for h in getattr(st, "handlers", []) or []:
                        scan(h.body)

            scan(fn.body)
            for block, i, t, tg in sorted(sites, key=lambda s_: -s_[1]):
                if loads.get(t, 0) != consumed.get(t, 0):
                    continue
                st = block[i]
                new = ast.Assign(targets=[ast.Tuple(elts=[ast.Name(id=x.id, ctx=ast.Store()) for x in tg], ctx=ast.Store())],
                                 value=st.value)
                ast.copy_location(new, st)
                ast.fix_missing_locations(new)
                block[i:i + 1 + len(tg)] = [new]
                applied.append(f"{mod}:{fn.name}: indexed result `{t}` at line {st.lineno} read as a tuple assignment")
    return applied


def _own_nodes(fn: ast.AST):
    """Nodes of a function, not descending into nested function / class definitions."""
    stack = list(ast.iter_child_nodes(fn))
    while stack:
        n = stack.pop()
        yield n
        if isinstance(n, (ast.FunctionDef, ast.AsyncFunctionDef, ast.ClassDef, ast.Lambda)):
            continue
        stack.extend(ast.iter_child_nodes(n))


# ---------------------------------------------------------------------------------------------------- for x in _generator(...)
def inline_simple_generators(trees: Dict[str, ast.Module]) -> List[str]:
    """``for T in _gen(args): BODY`` where ``_gen`` is a private module-level generator of the same module (plain ``yield E``
    statements, no return, no nested definitions) that is used nowhere else, and BODY neither breaks nor continues the loop, is
    the generator's body with every ``yield E`` replaced by ``T = E; BODY`` - the loop the schedule was extracted from.  The
    generator's locals are renamed apart; parameters it never rebinds are replaced by the (name / constant) arguments."""
    applied: List[str] = []
    for mod, tree in trees.items():
        gens: Dict[str, ast.FunctionDef] = {}
        for st in tree.body:
            if not (isinstance(st, ast.FunctionDef) and st.name.startswith("_") and not st.decorator_list):
                continue
            own = list(_own_nodes(st))
            ys = [n for n in own if isinstance(n, ast.Yield)]
            if not ys or any(isinstance(n, (ast.YieldFrom, ast.Return, ast.FunctionDef, ast.Lambda, ast.ClassDef, ast.Global, ast.Nonlocal,
                                            ast.Try, ast.With)) for n in own):
                continue
            ystm = [n for n in own if isinstance(n, ast.Expr) and isinstance(n.value, ast.Yield) and n.value.value is not None]
            a = st.args
            if len(ystm) != len(ys) or a.vararg or a.kwarg or a.posonlyargs or a.kwonlyargs:
                continue
            gens[st.name] = st
        if not gens:
            continue
        uses: Dict[str, int] = {}
        for x in ast.walk(tree):
            if isinstance(x, ast.Name) and x.id in gens:
                uses[x.id] = uses.get(x.id, 0) + 1

        def own_loop_jumps(body: List[ast.stmt]) -> bool:
            for s in body:
                if isinstance(s, (ast.Break, ast.Continue)):
                    return True
                if isinstance(s, (ast.For, ast.While, ast.FunctionDef, ast.ClassDef, ast.AsyncFor)):
                    if isinstance(s, (ast.For, ast.While)) and own_loop_jumps(s.orelse):
                        return True
                    continue
                for fld in ("body", "orelse", "finalbody"):
                    b = getattr(s, fld, None)
                    if isinstance(b, list) and own_loop_jumps(b):
                        return True
                for h in getattr(s, "handlers", []) or []:
                    if own_loop_jumps(h.body):
                        return True
            return False

        sites: Dict[str, int] = {}

        class T(ast.NodeTransformer):
            def visit_For(self, node: ast.For):
                self.generic_visit(node)
                it = node.iter
                if not (isinstance(it, ast.Call) and isinstance(it.func, ast.Name) and it.func.id in gens):
                    return node
                g = gens[it.func.id]
                if node.orelse or own_loop_jumps(node.body) or any(isinstance(a_, ast.Starred) for a_ in it.args) \
                        or any(k.arg is None for k in it.keywords):
                    return node
                params = [p.arg for p in g.args.args]
                bound: Dict[str, ast.AST] = {}
                for p, a_ in zip(params, it.args):
                    bound[p] = a_
                for k in it.keywords:
                    if k.arg not in params or k.arg in bound:
                        return node
                    bound[k.arg] = k.value
                defaults = dict(zip(params[len(params) - len(g.args.defaults):], g.args.defaults))
                for p in params:
                    if p not in bound:
                        if p not in defaults:
                            return node
                        bound[p] = defaults[p]
                if len(it.args) > len(params):
                    return node
                stored = {x.id for x in _own_nodes(g) if isinstance(x, ast.Name) and isinstance(x.ctx, (ast.Store, ast.Del))}
                prefix = g.name.lstrip("_") + "__"
                ren: Dict[str, ast.AST] = {}
                pre: List[ast.stmt] = []
                for p in params:
                    if p not in stored and isinstance(bound[p], (ast.Name, ast.Constant)):
                        ren[p] = bound[p]
                    else:
                        ren[p] = ast.Name(id=prefix + p, ctx=ast.Load())
                        pre.append(ast.Assign(targets=[ast.Name(id=prefix + p, ctx=ast.Store())], value=copy.deepcopy(bound[p])))
                for v in stored:
                    if v not in params:
                        ren[v] = ast.Name(id=prefix + v, ctx=ast.Load())
                loop_body, target = node.body, node.target

                class R(ast.NodeTransformer):
                    def visit_Name(self, n: ast.Name):
                        if n.id in ren:
                            r = copy.deepcopy(ren[n.id])
                            if isinstance(r, ast.Name):
                                r.ctx = type(n.ctx)()
                            return ast.copy_location(r, n)
                        return n

                    def visit_Expr(self, n: ast.Expr):
                        if isinstance(n.value, ast.Yield):
                            val = self.visit(copy.deepcopy(n.value.value))
                            return [ast.Assign(targets=[copy.deepcopy(target)], value=val)] + copy.deepcopy(loop_body)
                        return self.generic_visit(n)

                body = [R().visit(copy.deepcopy(s)) for s in g.body
                        if not (isinstance(s, ast.Expr) and isinstance(s.value, ast.Constant) and isinstance(s.value.value, str))]
                flat: List[ast.stmt] = []
                for b in body:
                    flat.extend(b if isinstance(b, list) else [b])
                out = pre + flat
                for s in out:
                    for x in ast.walk(s):
                        if not hasattr(x, "lineno"):
                            ast.copy_location(x, node)
                    ast.fix_missing_locations(s)
                sites[g.name] = sites.get(g.name, 0) + 1
                applied.append(f"{mod}: generator {g.name} inlined into the loop at line {node.lineno}")
                return out

        # only generators every use of which is such a loop: decided by a dry run on a copy
        probe = copy.deepcopy(tree)
        applied_before = len(applied)
        T().visit(probe)
        ok = {g for g in gens if sites.get(g, 0) == uses.get(g, 0) and sites.get(g, 0) > 0}
        del applied[applied_before:]
        sites.clear()
        gens = {k: v for k, v in gens.items() if k in ok}
        if not gens:
            continue
        T().visit(tree)
        tree.body = [st for st in tree.body if not (isinstance(st, ast.FunctionDef) and st.name in gens)]
    return applied


# ---------------------------------------------------------------------------------------------------- return a if c else b
def split_conditional_returns(trees: Dict[str, ast.Module]) -> List[str]:
    """``return A if c else B`` is ``if c: return A`` / ``else: return B``; analyses that look at the returned expressions
    per return statement see the two returns."""
    applied: List[str] = []

    class T(ast.NodeTransformer):
        def __init__(self, mod):
            self.mod = mod

        def visit_Return(self, node: ast.Return):
            v = node.value
            if isinstance(v, ast.IfExp):
                a = self.visit_Return(ast.copy_location(ast.Return(value=v.body), node))
                b = self.visit_Return(ast.copy_location(ast.Return(value=v.orelse), node))
                new = ast.If(test=v.test, body=a if isinstance(a, list) else [a], orelse=b if isinstance(b, list) else [b])
                ast.copy_location(new, node)
                ast.fix_missing_locations(new)
                applied.append(f"{self.mod}:{node.lineno} conditional return split")
                return new
            return node

    for mod, tree in trees.items():
        T(mod).visit(tree)
    return applied


# ---------------------------------------------------------------------------------------------------- t = torch.f(); t.L ... t.info
TORCH_RESULT_FIELDS = {"cholesky_ex": ("L", "info"), "eigh": ("eigenvalues", "eigenvectors"), "qr": ("Q", "R"),
                       "slogdet": ("sign", "logabsdet"), "sort": ("values", "indices"), "topk": ("values", "indices"),
                       "inv_ex": ("inverse", "info")}


def destructure_named_results(trees: Dict[str, ast.Module]) -> List[str]:
    """``t = torch.linalg.cholesky_ex(...)`` whose every later read is a field (``t.L``, ``t.info``) or a constant index
    (``t[0]``, ``t[1]``) is the tuple assignment ``t__L, t__info = ...`` with the reads replaced by the two names."""
    applied: List[str] = []
    for mod, tree in trees.items():
        for fn in [n for n in ast.walk(tree) if isinstance(n, ast.FunctionDef)]:
            cands: Dict[str, Tuple[str, ...]] = {}
            bad: set = set()
            for n in _own_nodes(fn):
                if isinstance(n, ast.Assign) and len(n.targets) == 1 and isinstance(n.targets[0], ast.Name) and isinstance(n.value, ast.Call):
                    f = n.value.func
                    leaf = f.attr if isinstance(f, ast.Attribute) else None
                    root = f
                    while isinstance(root, ast.Attribute):
                        root = root.value
                    if leaf in TORCH_RESULT_FIELDS and isinstance(root, ast.Name) and root.id == "torch":
                        t = n.targets[0].id
                        if t in cands and cands[t] != TORCH_RESULT_FIELDS[leaf]:
                            bad.add(t)
                        cands[t] = TORCH_RESULT_FIELDS[leaf]
                        continue
                for t_ in ([n.target] if isinstance(n, (ast.AugAssign, ast.AnnAssign, ast.For)) else (n.targets if isinstance(n, ast.Assign) else [])):
                    for x in ast.walk(t_):
                        if isinstance(x, ast.Name) and isinstance(x.ctx, ast.Store):
                            bad.add(x.id)  # bound by something else as well
            cands = {k: v for k, v in cands.items() if k not in bad}
            if not cands:
                continue
            # every load must be a field / constant-index read
            parent_ok: Dict[int, bool] = {}
            for n in _own_nodes(fn):
                if isinstance(n, ast.Attribute) and isinstance(n.value, ast.Name) and n.value.id in cands and n.attr in cands[n.value.id]:
                    parent_ok[id(n.value)] = True
                if isinstance(n, ast.Subscript) and isinstance(n.value, ast.Name) and n.value.id in cands and isinstance(n.slice, ast.Constant) \
                        and isinstance(n.slice.value, int) and 0 <= n.slice.value < len(cands[n.value.id]) and isinstance(n.ctx, ast.Load):
                    parent_ok[id(n.value)] = True
            for n in _own_nodes(fn):
                if isinstance(n, ast.Name) and n.id in cands and isinstance(n.ctx, ast.Load) and not parent_ok.get(id(n)):
                    cands.pop(n.id, None)
            # nested functions reading the name: leave alone
            for n in ast.walk(fn):
                if isinstance(n, (ast.FunctionDef, ast.Lambda)) and n is not fn:
                    for x in ast.walk(n):
                        if isinstance(x, ast.Name) and x.id in cands:
                            cands.pop(x.id, None)
            if not cands:
                continue

            class R(ast.NodeTransformer):
                def visit_FunctionDef(self, node):
                    if node is not fn:
                        return node
                    self.generic_visit(node)
                    return node

                def visit_Attribute(self, node: ast.Attribute):
                    if isinstance(node.value, ast.Name) and node.value.id in cands and node.attr in cands[node.value.id]:
                        return ast.copy_location(ast.Name(id=f"{node.value.id}__{node.attr}", ctx=node.ctx), node)
                    self.generic_visit(node)
                    return node

                def visit_Subscript(self, node: ast.Subscript):
                    if isinstance(node.value, ast.Name) and node.value.id in cands and isinstance(node.slice, ast.Constant) \
                            and isinstance(node.slice.value, int) and isinstance(node.ctx, ast.Load):
                        fld = cands[node.value.id][node.slice.value]
                        return ast.copy_location(ast.Name(id=f"{node.value.id}__{fld}", ctx=ast.Load()), node)
                    self.generic_visit(node)
                    return node

                def visit_Assign(self, node: ast.Assign):
                    self.generic_visit(node)
                    if len(node.targets) == 1 and isinstance(node.targets[0], ast.Name) and node.targets[0].id in cands \
                            and isinstance(node.value, ast.Call):
                        t = node.targets[0].id
                        node.targets = [ast.Tuple(elts=[ast.Name(id=f"{t}__{f_}", ctx=ast.Store()) for f_ in cands[t]], ctx=ast.Store())]
                        ast.fix_missing_locations(node)
                    return node

            R().visit(fn)
            ast.fix_missing_locations(fn)
            for t in cands:
                applied.append(f"{mod}:{fn.name}: named result `{t}` read through its fields is a tuple assignment")
    return applied


# ---------------------------------------------------------------------------------------------------- per-entry generator scopes
def expand_generator_scopes(trees: Dict[str, ast.Module]) -> List[str]:
    """A context class that keeps its per-entry snapshot in a suspended ``@contextmanager`` generator of its own::

        @contextlib.contextmanager
        def _scope(self):                      def __enter__(self):                 def __exit__(self, *args):
            prev = <capture>; <write>              scope = self._scope()                self._open.pop().__exit__(None, None, None)
            yield                                  self._open.append(scope)
            <restore from prev>                    scope.__enter__()

    is the explicit stack protocol written with generator frames: entering runs the part before the ``yield``, the frame holds
    the captured locals, ``__exit__(None, None, None)`` resumes it normally.  It is rewritten into that protocol - the part
    before the yield in place of ``scope.__enter__()`` followed by a push of the captured locals, the pop and the part after
    the yield in place of the resumption - which is what the typestate analysis models."""
    applied: List[str] = []
    for mod, tree in trees.items():
        for cls in [n for n in ast.walk(tree) if isinstance(n, ast.ClassDef)]:
            gens: Dict[str, Tuple[List[ast.stmt], List[ast.stmt]]] = {}
            for f in cls.body:
                if not (isinstance(f, ast.FunctionDef) and any((isinstance(d, ast.Attribute) and d.attr == "contextmanager") or (
                        isinstance(d, ast.Name) and d.id == "contextmanager") for d in f.decorator_list)):
                    continue
                body = [s for s in f.body if not (isinstance(s, ast.Expr) and isinstance(s.value, ast.Constant))]
                ys = [i for i, s in enumerate(body) if isinstance(s, ast.Expr) and isinstance(s.value, ast.Yield) and s.value.value is None]
                inner = [n for s in body for n in ast.walk(s) if isinstance(n, (ast.Yield, ast.YieldFrom, ast.Try, ast.Return, ast.FunctionDef))]
                if len(ys) != 1 or len([n for n in inner if isinstance(n, ast.Yield)]) != 1 or any(not isinstance(n, ast.Yield) for n in inner):
                    continue
                if len(f.args.args) != 1 or f.args.vararg or f.args.kwarg:
                    continue
                gens[f.name] = (body[:ys[0]], body[ys[0] + 1:])
            if not gens:
                continue

            def stores(stmts):
                return {x.id for s in stmts for x in ast.walk(s) if isinstance(x, ast.Name) and isinstance(x.ctx, ast.Store)}

            def live_of(pre, post):
                stored_first = set()
                live = []
                seen_load = set()
                for s in post:
                    for x in ast.walk(s.value if isinstance(s, ast.Assign) else s):
                        if isinstance(x, ast.Name) and isinstance(x.ctx, ast.Load):
                            seen_load.add(x.id)
                    if isinstance(s, ast.Assign):
                        for t in s.targets:
                            if isinstance(t, ast.Name) and t.id not in seen_load:
                                stored_first.add(t.id)
                pre_st = stores(pre)
                for s in post:
                    for x in ast.walk(s):
                        if isinstance(x, ast.Name) and isinstance(x.ctx, ast.Load) and x.id in pre_st and x.id not in stored_first \
                                and x.id not in live:
                            live.append(x.id)
                return live

            for f in cls.body:
                if not isinstance(f, ast.FunctionDef) or f.name in gens:
                    continue
                # scope locals: X = self.G()
                scope_vars: Dict[str, str] = {}
                stack_attr: Dict[str, str] = {}
                for s in f.body:
                    if isinstance(s, ast.Assign) and len(s.targets) == 1 and isinstance(s.targets[0], ast.Name) and isinstance(s.value, ast.Call) \
                            and isinstance(s.value.func, ast.Attribute) and isinstance(s.value.func.value, ast.Name) \
                            and s.value.func.value.id == "self" and s.value.func.attr in gens and not s.value.args:
                        scope_vars[s.targets[0].id] = s.value.func.attr
                new_body: List[ast.stmt] = []
                changed = False
                for s in f.body:
                    # X = self.G()
                    if isinstance(s, ast.Assign) and len(s.targets) == 1 and isinstance(s.targets[0], ast.Name) and s.targets[0].id in scope_vars \
                            and isinstance(s.value, ast.Call):
                        changed = True
                        continue
                    # self.L.append(X)
                    if isinstance(s, ast.Expr) and isinstance(s.value, ast.Call) and isinstance(s.value.func, ast.Attribute) \
                            and s.value.func.attr == "append" and len(s.value.args) == 1 and isinstance(s.value.args[0], ast.Name) \
                            and s.value.args[0].id in scope_vars and isinstance(s.value.func.value, ast.Attribute) \
                            and isinstance(s.value.func.value.value, ast.Name) and s.value.func.value.value.id == "self":
                        stack_attr[s.value.args[0].id] = s.value.func.value.attr
                        continue
                    # X.__enter__()
                    if isinstance(s, ast.Expr) and isinstance(s.value, ast.Call) and isinstance(s.value.func, ast.Attribute) \
                            and s.value.func.attr == "__enter__" and isinstance(s.value.func.value, ast.Name) \
                            and s.value.func.value.id in scope_vars and s.value.func.value.id in stack_attr:
                        x = s.value.func.value.id
                        pre, post = gens[scope_vars[x]]
                        live = live_of(pre, post)
                        pushed = ast.Name(id=live[0], ctx=ast.Load()) if len(live) == 1 else ast.Tuple(
                            elts=[ast.Name(id=v, ctx=ast.Load()) for v in live], ctx=ast.Load())
                        push = ast.Expr(value=ast.Call(func=ast.Attribute(value=ast.Attribute(value=ast.Name(id="self", ctx=ast.Load()),
                                                                                              attr=stack_attr[x], ctx=ast.Load()),
                                                                          attr="append", ctx=ast.Load()), args=[pushed], keywords=[]))
                        # the snapshot is pushed as soon as it is taken (before the writes of the entry part)
                        cap_end = 0
                        for i_, p_ in enumerate(pre):
                            if stores([p_]) & set(live):
                                cap_end = i_ + 1
                        new_body += copy.deepcopy(pre[:cap_end]) + [push] + copy.deepcopy(pre[cap_end:])
                        changed = True
                        continue
                    # self.L.pop().__exit__(None, None, None)
                    if isinstance(s, ast.Expr) and isinstance(s.value, ast.Call) and isinstance(s.value.func, ast.Attribute) \
                            and s.value.func.attr == "__exit__" and isinstance(s.value.func.value, ast.Call) \
                            and isinstance(s.value.func.value.func, ast.Attribute) and s.value.func.value.func.attr == "pop" \
                            and not s.value.func.value.args and len(gens) == 1 \
                            and all(isinstance(a, ast.Constant) and a.value is None for a in s.value.args):
                        gname = next(iter(gens))
                        pre, post = gens[gname]
                        live = live_of(pre, post)
                        tgt = ast.Name(id=live[0], ctx=ast.Store()) if len(live) == 1 else ast.Tuple(
                            elts=[ast.Name(id=v, ctx=ast.Store()) for v in live], ctx=ast.Store())
                        pop = ast.Assign(targets=[tgt], value=s.value.func.value)
                        new_body += [pop] + copy.deepcopy(post)
                        changed = True
                        continue
                    new_body.append(s)
                if changed:
                    for s in new_body:
                        for x in ast.walk(s):
                            if not hasattr(x, "lineno"):
                                ast.copy_location(x, f)
                        ast.fix_missing_locations(s)
                    f.body = new_body or [ast.copy_location(ast.Pass(), f)]
                    applied.append(f"{mod}:{cls.name}.{f.name}: per-entry generator scope rewritten as the explicit stack protocol")
            if any(cls.name in a for a in applied):
                cls.body = [f for f in cls.body if not (isinstance(f, ast.FunctionDef) and f.name in gens)]
    return applied


# ---------------------------------------------------------------------------------------------------- _driver(lambda t: t.clone())
def specialise_lambda_arguments(trees: Dict[str, ast.Module]) -> List[str]:
    """A private function / method (defined once in the package) that only CALLS one of its parameters - or hands it on to
    itself - and that receives a ``lambda`` for it at a call site is copied for that call site, the lambda applied where the
    parameter was called (beta reduction; single-expression lambdas with plain positional parameters, arguments that are
    names / attributes / constants)::

        def _apply(self, fn): ... fn(arg) ... arg._apply(fn) ...          def _apply__fn1(self, fn): ... arg.clone() ... arg._apply__fn1(fn)
        return self._apply(lambda tsr: tsr.clone())                 ->    return self._apply__fn1(lambda tsr: tsr.clone())

    so that a shared driver is analysed once per tensor function it is used with (clone's copy is not judged by detach's
    view).  Call sites that pass anything else keep the original."""
    applied: List[str] = []
    defs: Dict[str, List[Tuple[str, list, ast.FunctionDef]]] = {}
    for mod, tree in trees.items():
        for holder in [tree] + [n for n in ast.walk(tree) if isinstance(n, ast.ClassDef)]:
            for st in holder.body:
                if isinstance(st, ast.FunctionDef) and st.name.startswith("_") and not st.name.startswith("__"):
                    defs.setdefault(st.name, []).append((mod, holder.body, st))
    counter = 0
    for name, lst in sorted(defs.items()):
        if len(lst) != 1:
            continue
        mod, container, f = lst[0]
        a = f.args
        if a.vararg or a.kwarg or a.posonlyargs or a.kwonlyargs:
            continue
        params = [x.arg for x in a.args]
        is_method = container is not trees[mod].body and not any(
            isinstance(d, ast.Name) and d.id == "staticmethod" for d in f.decorator_list)
        for pi, p in enumerate(params):
            if is_method and pi == 0:
                continue
            uses = [n for n in ast.walk(f) if isinstance(n, ast.Name) and n.id == p and isinstance(n.ctx, ast.Load)]
            if not uses or any(isinstance(n, ast.Name) and n.id == p and isinstance(n.ctx, ast.Store) for n in ast.walk(f)):
                continue
            called = {id(n.func) for n in ast.walk(f) if isinstance(n, ast.Call) and isinstance(n.func, ast.Name) and n.func.id == p}
            apos = pi - (1 if is_method else 0)
            handed_on = set()
            for n in ast.walk(f):
                if isinstance(n, ast.Call) and (n.func.attr if isinstance(n.func, ast.Attribute) else getattr(n.func, "id", None)) == name \
                        and apos < len(n.args) and isinstance(n.args[apos], ast.Name) and n.args[apos].id == p:
                    handed_on.add(id(n.args[apos]))
            if not called or any(id(u) not in called and id(u) not in handed_on for u in uses):
                continue
            # call sites outside f that pass a lambda
            for mod2, tree2 in trees.items():
                for n in ast.walk(tree2):
                    if not isinstance(n, ast.Call) or any(n is x for x in ast.walk(f)):
                        continue
                    cname = n.func.attr if isinstance(n.func, ast.Attribute) else getattr(n.func, "id", None)
                    if cname != name or apos >= len(n.args) or not isinstance(n.args[apos], ast.Lambda):
                        continue
                    lam = n.args[apos]
                    la = lam.args
                    if la.vararg or la.kwarg or la.kwonlyargs or la.defaults or la.posonlyargs:
                        continue
                    lparams = [x.arg for x in la.args]
                    counter += 1
                    new_name = f"{name}__fn{counter}"
                    g = copy.deepcopy(f)
                    g.name = new_name
                    ok = True

                    class B(ast.NodeTransformer):
                        def visit_Call(self, c: ast.Call):
                            nonlocal ok
                            self.generic_visit(c)
                            if isinstance(c.func, ast.Name) and c.func.id == p:
                                if c.keywords or len(c.args) != len(lparams) or not all(
                                        isinstance(x, (ast.Name, ast.Attribute, ast.Constant)) for x in c.args):
                                    ok = False
                                    return c
                                body = _SubstNames({q: x for q, x in zip(lparams, c.args)}).visit(copy.deepcopy(lam.body))
                                return ast.copy_location(body, c)
                            fn_ = c.func
                            if (fn_.attr if isinstance(fn_, ast.Attribute) else getattr(fn_, "id", None)) == name:
                                if isinstance(fn_, ast.Attribute):
                                    fn_.attr = new_name
                                else:
                                    fn_.id = new_name
                            return c

                    g = B().visit(g)
                    if not ok:
                        continue
                    ast.fix_missing_locations(g)
                    container.insert(container.index(f) + 1, g)
                    if isinstance(n.func, ast.Attribute):
                        n.func.attr = new_name
                    else:
                        n.func.id = new_name
                    applied.append(f"{mod2}: call of {name} at line {n.lineno} with a lambda for `{p}` specialised as {new_name}")
    return applied
