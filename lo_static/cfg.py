"""E2 - statement-level control-flow graph with dominators, path enumeration and must-pass-through queries.

Nodes are simple statements, the *tests* of if / while and the headers of for loops; edges carry the branch
polarity.  Built with networkx (dominators); nothing is executed.
"""
from __future__ import annotations

import ast
from dataclasses import dataclass, field
from typing import Callable, Dict, Iterable, Iterator, List, Optional, Set, Tuple

import networkx as nx

from .index import FunctionInfo, norm


@dataclass
class Node:
    id: int
    kind: str  # entry | exit | raise | stmt | test | iter | with | except
    ast: Optional[ast.AST] = None
    label: str = ""

    @property
    def lineno(self) -> int:
        return getattr(self.ast, "lineno", 0)


class CFG:
    def __init__(self, fn: FunctionInfo):
        self.fn = fn
        self.g = nx.DiGraph()
        self.nodes: Dict[int, Node] = {}
        self._n = 0
        self.entry = self._add("entry")
        self.exit = self._add("exit")  # normal return
        self.raise_exit = self._add("raise")
        self._loop_stack: List[Tuple[int, List[Tuple[int, Optional[bool]]]]] = []  # (header, break sources)
        ends = self._block(fn.body(), [(self.entry, None)])
        for src, pol in ends:
            self._edge(src, self.exit, pol)
        self._dom: Optional[Dict[int, int]] = None
        self._pdom: Optional[Dict[int, int]] = None

    # ------------------------------------------------------------------ construction
    def _add(self, kind: str, node: Optional[ast.AST] = None, label: str = "") -> int:
        self._n += 1
        self.nodes[self._n] = Node(self._n, kind, node, label)
        self.g.add_node(self._n)
        return self._n

    def _edge(self, a: int, b: int, pol: Optional[bool]) -> None:
        if self.g.has_edge(a, b):
            old = self.g[a][b].get("pol")
            if old != pol:
                self.g[a][b]["pol"] = None
        else:
            self.g.add_edge(a, b, pol=pol)

    def _link(self, preds: List[Tuple[int, Optional[bool]]], n: int) -> None:
        for src, pol in preds:
            self._edge(src, n, pol)

    def _block(self, body: List[ast.stmt], preds: List[Tuple[int, Optional[bool]]]) -> List[Tuple[int, Optional[bool]]]:
        for st in body:
            if not preds:
                break  # unreachable code after return / raise
            preds = self._stmt(st, preds)
        return preds

    def _stmt(self, st: ast.stmt, preds):
        if isinstance(st, ast.If):
            t = self._add("test", st.test, norm(st.test))
            self.nodes[t].ast = st.test
            self.nodes[t].stmt = st  # type: ignore
            self._link(preds, t)
            a = self._block(st.body, [(t, True)])
            b = self._block(st.orelse, [(t, False)]) if st.orelse else [(t, False)]
            return a + b
        if isinstance(st, ast.While):
            t = self._add("test", st.test, norm(st.test))
            self.nodes[t].stmt = st  # type: ignore
            self._link(preds, t)
            self._loop_stack.append((t, []))
            body_end = self._block(st.body, [(t, True)])
            for src, pol in body_end:
                self._edge(src, t, pol)
            _, breaks = self._loop_stack.pop()
            const_true = isinstance(st.test, ast.Constant) and bool(st.test.value)
            out = ([] if const_true else [(t, False)])
            if st.orelse and not const_true:
                out = self._block(st.orelse, out)
            return out + breaks
        if isinstance(st, (ast.For, ast.AsyncFor)):
            t = self._add("iter", st, f"for {norm(st.target)} in {norm(st.iter)}")
            self._link(preds, t)
            self._loop_stack.append((t, []))
            body_end = self._block(st.body, [(t, True)])
            for src, pol in body_end:
                self._edge(src, t, pol)
            _, breaks = self._loop_stack.pop()
            out = [(t, False)]
            if st.orelse:
                out = self._block(st.orelse, out)
            return out + breaks
        if isinstance(st, ast.Try):
            start = self._add("stmt", None, "try")
            self.nodes[start].ast = None
            self._link(preds, start)
            before = set(self.nodes)
            body_end = self._block(st.body, [(start, None)])
            body_nodes = [n for n in self.nodes if n not in before]
            outs = list(body_end)
            if st.orelse:
                outs = self._block(st.orelse, outs)
            for h in st.handlers:
                hn = self._add("except", h, "except " + (norm(h.type) if h.type is not None else ""))
                # an exception may be raised by any statement of the body (or before its first statement completes)
                self._edge(start, hn, None)
                for bn in body_nodes:
                    self._edge(bn, hn, None)
                outs += self._block(h.body, [(hn, None)])
            if st.finalbody:
                outs = self._block(st.finalbody, outs)
            return outs
        if isinstance(st, (ast.With, ast.AsyncWith)):
            w = self._add("with", st, "with " + ", ".join(norm(i.context_expr) for i in st.items))
            self._link(preds, w)
            return self._block(st.body, [(w, None)])
        if isinstance(st, ast.Return):
            n = self._add("stmt", st, norm(st))
            self._link(preds, n)
            self._edge(n, self.exit, None)
            return []
        if isinstance(st, ast.Raise):
            n = self._add("stmt", st, norm(st))
            self._link(preds, n)
            self._edge(n, self.raise_exit, None)
            return []
        if isinstance(st, ast.Break):
            n = self._add("stmt", st, "break")
            self._link(preds, n)
            if self._loop_stack:
                self._loop_stack[-1][1].append((n, None))
            return []
        if isinstance(st, ast.Continue):
            n = self._add("stmt", st, "continue")
            self._link(preds, n)
            if self._loop_stack:
                self._edge(n, self._loop_stack[-1][0], None)
            return []
        if isinstance(st, (ast.FunctionDef, ast.AsyncFunctionDef, ast.ClassDef)):
            n = self._add("stmt", st, f"def {st.name}")
            self._link(preds, n)
            return [(n, None)]
        n = self._add("stmt", st, norm(st))
        self._link(preds, n)
        return [(n, None)]

    # ------------------------------------------------------------------ queries
    def stmt_nodes(self) -> List[Node]:
        return [n for n in self.nodes.values() if n.kind in ("stmt", "test", "iter", "with", "except") and n.ast is not None]

    def node_of(self, a: ast.AST) -> Optional[Node]:
        """The CFG node whose statement / test contains the ast node `a`."""
        for n in self.stmt_nodes():
            if n.kind == "iter":
                st = n.ast
                for part in (st.iter, st.target):
                    if any(x is a for x in ast.walk(part)):
                        return n
                continue
            if n.kind == "with":
                for it in n.ast.items:
                    if any(x is a for x in ast.walk(it.context_expr)):
                        return n
                continue
            if n.kind == "except":
                continue
            if any(x is a for x in ast.walk(n.ast)):
                return n
        return None

    def idom(self) -> Dict[int, int]:
        if self._dom is None:
            self._dom = dict(nx.immediate_dominators(self.g, self.entry))
        return self._dom

    def dominators(self, n: int) -> List[int]:
        """Strict dominators of n, nearest first (empty when n is unreachable)."""
        d = self.idom()
        out = []
        if n not in d:
            return out
        cur = n
        while d.get(cur) is not None and d[cur] != cur:
            cur = d[cur]
            out.append(cur)
        return out

    def dominates(self, a: int, b: int) -> bool:
        return a == b or a in self.dominators(b)

    def reachable(self, n: int) -> bool:
        return n in self.idom()

    def branch_taken(self, test: int, n: int) -> Optional[bool]:
        """If n is dominated by `test`, which branch of the test leads to n (None: both / not applicable)."""
        pols = set()
        for succ in self.g.successors(test):
            if succ == n or nx.has_path(self.g, succ, n):
                # is n reachable from succ without going back through test?
                h = self.g.copy()
                h.remove_node(test)
                if succ in h and n in h and (succ == n or nx.has_path(h, succ, n)):
                    pols.add(self.g[test][succ].get("pol"))
        if len(pols) == 1:
            return next(iter(pols))
        return None

    def acyclic_paths(self, target: Optional[int] = None, prune: Optional[Callable[[int, int, Optional[bool]], bool]] = None,
                      limit: int = 20000) -> Iterator[List[int]]:
        """Paths entry -> target (default: normal exit) that take every loop body at most once.
        prune(src, dst, polarity) -> True removes the edge (e.g. branches excluded by an assumption)."""
        target = self.exit if target is None else target
        count = 0
        stack: List[Tuple[int, List[int], Set[Tuple[int, int]]]] = [(self.entry, [self.entry], set())]
        while stack:
            n, path, used = stack.pop()
            if n == target:
                count += 1
                yield path
                if count >= limit:
                    return
                continue
            for s in self.g.successors(n):
                e = (n, s)
                if e in used:
                    continue
                if prune is not None and prune(n, s, self.g[n][s].get("pol")):
                    continue
                stack.append((s, path + [s], used | {e}))

    def must_pass(self, pred: Callable[[Node], bool], target: Optional[int] = None,
                  prune: Optional[Callable[[int, int, Optional[bool]], bool]] = None) -> Optional[List[int]]:
        """None if every path entry -> target passes a node satisfying pred, else a witness path that does not."""
        target = self.exit if target is None else target
        h = self.g.copy()
        if prune is not None:
            for a, b, d in list(h.edges(data=True)):
                if prune(a, b, d.get("pol")):
                    h.remove_edge(a, b)
        for n in list(h.nodes):
            if n not in (self.entry, target) and pred(self.nodes[n]):
                h.remove_node(n)
        if self.entry in h and target in h and nx.has_path(h, self.entry, target):
            return nx.shortest_path(h, self.entry, target)
        return None

    def describe(self, path: Iterable[int]) -> List[str]:
        out = []
        for n in path:
            nd = self.nodes[n]
            if nd.kind in ("entry", "exit", "raise"):
                out.append(nd.kind)
            else:
                out.append(f"L{nd.lineno}: {nd.label[:70]}")
        return out
