"""Branch conditions as disjunctions of conjunctions of literals.

``alternatives(test, polarity)`` decomposes "test evaluates to polarity" into a list of alternatives, each a list of
literals (expression, polarity): ``not (A and B)`` -> [[(A, False)], [(B, False)]]; ``A or not B`` false ->
[[(A, False), (B, True)]].  A path condition is justified by a property P of literals when SOME test on the path has
EVERY alternative containing a literal with P (whatever made the test take that branch, P held)."""
from __future__ import annotations

import ast
from typing import Callable, List, Optional, Tuple

Literal = Tuple[ast.AST, bool]


def alternatives(e: ast.AST, pol: bool, resolve: Optional[Callable[[str], Optional[ast.AST]]] = None, depth: int = 0) -> List[List[Literal]]:
    if isinstance(e, ast.UnaryOp) and isinstance(e.op, ast.Not):
        return alternatives(e.operand, not pol, resolve, depth)
    if isinstance(e, ast.Call) and isinstance(e.func, ast.Name) and e.func.id == "bool" and len(e.args) == 1 and not e.keywords:
        return alternatives(e.args[0], pol, resolve, depth)
    if isinstance(e, ast.BoolOp):
        conj = isinstance(e.op, ast.And) == pol
        parts = [alternatives(v, pol, resolve, depth) for v in e.values]
        if conj:
            out: List[List[Literal]] = [[]]
            for pa in parts:
                out = [x + y for x in out for y in pa][:64]
            return out
        return [alt for pa in parts for alt in pa]
    if isinstance(e, ast.Name) and resolve is not None and depth < 3:
        d = resolve(e.id)
        if d is not None:
            return alternatives(d, pol, resolve, depth + 1)
    return [[(e, pol)]]


def test_guarantees(e: ast.AST, pol: bool, holds: Callable[[Literal], bool],
                    resolve: Optional[Callable[[str], Optional[ast.AST]]] = None) -> bool:
    alts = alternatives(e, pol, resolve)
    return bool(alts) and all(any(holds(l) for l in alt) for alt in alts)


def atom(lit: Literal) -> Tuple[str, bool]:
    """A literal as (canonical text, polarity): ``x is not None`` / ``x != c`` are the negations of ``x is None`` / ``x == c``."""
    e, pol = lit
    if isinstance(e, ast.Compare) and len(e.ops) == 1:
        op = e.ops[0]
        flip = {ast.IsNot: ast.Is, ast.NotEq: ast.Eq, ast.NotIn: ast.In}.get(type(op))
        if flip is not None:
            e = ast.Compare(left=e.left, ops=[flip()], comparators=e.comparators)
            pol = not pol
    return ast.unparse(e), pol


def consistent(tests: List[Tuple[ast.AST, bool]], assume: Optional[dict] = None, limit: int = 4096) -> bool:
    """Can all the (test, polarity) pairs hold together?  Decided propositionally over the literals of the tests (same text =
    same value: sound for pure tests of unmodified names - the callers use it for flag / None tests of parameters), under the
    assumed truth values ``{text: bool}``.  Unknown / too large: True (feasible)."""
    partial: List[dict] = [dict(assume or {})]
    for t, pol in tests:
        alts = alternatives(t, pol)
        nxt: List[dict] = []
        for env in partial:
            for alt in alts:
                e2 = dict(env)
                ok = True
                for lit in alt:
                    a, p = atom(lit)
                    if e2.get(a, p) != p:
                        ok = False
                        break
                    e2[a] = p
                if ok:
                    nxt.append(e2)
        if len(nxt) > limit:
            return True
        if not nxt:
            return False
        partial = nxt
    return True
