"""Launcher: ``check <ID> [--tier quick|thorough] [--root /repo] [--replay file]``."""
from __future__ import annotations

import argparse
import importlib
import json
import os
import sys
import traceback

from .index import AnalysisError, ProgramIndex
from .report import Report

PROPS = {
    "C01": "c01", "C02": "c02", "C04": "c04", "C06": "c06", "C07": "c07", "C08": "c08", "C11": "c11",
    "C12": "c12", "C13": "c13", "C14": "c14", "C15": "c15", "C16": "c16", "C17": "c17", "C19": "c19",
}


def main(argv=None) -> int:
    ap = argparse.ArgumentParser(prog="check")
    ap.add_argument("prop")
    ap.add_argument("--tier", default=os.environ.get("VERIF_TIER", "quick"), choices=["quick", "thorough"])
    ap.add_argument("--root", default=os.environ.get("VERIF_REPO", "/repo"))
    ap.add_argument("--replay", default=None)
    ap.add_argument("--no-selftest", action="store_true", help="skip fixture / seeded-variant self validation")
    args = ap.parse_args(argv)
    prop = args.prop.upper()
    if prop not in PROPS:
        print(f"ANALYSIS-ERROR property={prop} no checker registered")
        return 2
    root = args.root
    if args.replay:
        try:
            with open(args.replay) as fh:
                rp = json.load(fh)
            print(f"replaying {rp.get('key')} (rule {rp.get('rule')}) against {root}")
        except Exception as e:
            print(f"ANALYSIS-ERROR property={prop} cannot read replay file: {e}")
            return 2
    rep = Report(prop, args.tier, root)
    try:
        idx = ProgramIndex(root)
        rep.analysed.update({"root": root, "tree_digest": idx.digest, "files": idx.file_list(), **idx.census(),
                             "source_normalisations_applied": list(getattr(idx, "normalised", []))})
        mod = importlib.import_module(f"lo_static.props.{PROPS[prop]}")
        mod.run(idx, rep, args.tier, selftest=not args.no_selftest)
        rc = rep.finish()
        if args.replay:
            keys = {f.key() for f in rep.findings}
            hit = rp.get("key") in keys
            print(f"replay: violation {'REPRODUCED' if hit else 'not reproduced'}: {rp.get('key')}")
            return 1 if hit else (0 if rc != 2 else 2)
        return rc
    except AnalysisError as e:
        print(f"ANALYSIS-ERROR property={prop} {e}")
        rep.error(str(e))
        try:
            rep.finish()
        except Exception:
            pass
        return 2
    except Exception as e:  # internal error: never a silent pass, never a VIOLATION
        traceback.print_exc()
        print(f"ANALYSIS-ERROR property={prop} internal error: {type(e).__name__}: {e}")
        return 2


if __name__ == "__main__":
    sys.exit(main())
