"""Constructor records: what ``LinearOperator.__init__`` ends up storing in ``_args`` / ``_kwargs`` for every
operator class, expressed in terms of that class's own constructor parameters.

Follows the chain  C.__init__ -> super().__init__(...) / super(X, self).__init__(...) / Base.__init__(self, ...)
through the statically computed MRO down to the base class, composing the argument mappings.
"""
from __future__ import annotations

import ast
from dataclasses import dataclass, field
from typing import Dict, List, Optional, Set, Tuple

from .index import AnalysisError, ClassInfo, FunctionInfo, ProgramIndex, dotted, norm, walk_body


@dataclass
class RecItem:
    """One recorded element.  deps = constructor parameters (of the class under analysis) it derives from."""
    kind: str  # "pos" | "star" | "kw" | "dstar"
    name: Optional[str]  # keyword name for kind == "kw"
    deps: Set[str]
    text: str
    is_literal: bool = False


@dataclass
class CtorRecord:
    cls: ClassInfo
    init: Optional[FunctionInfo]  # resolved __init__ (None => object.__init__)
    params: List[str] = field(default_factory=list)  # positional-or-keyword params (without self)
    vararg: Optional[str] = None
    kwonly: List[str] = field(default_factory=list)
    kwarg: Optional[str] = None
    defaults: Dict[str, ast.expr] = field(default_factory=dict)
    annotations: Dict[str, str] = field(default_factory=dict)
    items: List[RecItem] = field(default_factory=list)
    chain: List[str] = field(default_factory=list)  # qualified __init__s traversed
    attr_sources: Dict[str, Set[str]] = field(default_factory=dict)  # self.<attr> -> ctor params it derives from
    attr_exprs: Dict[str, str] = field(default_factory=dict)
    complete: bool = True  # chain reached the operator base

    def all_params(self) -> List[str]:
        out = list(self.params)
        if self.vararg:
            out.append(self.vararg)
        out += self.kwonly
        if self.kwarg:
            out.append(self.kwarg)
        return out

    def recorded_kw_names(self) -> Set[str]:
        return {i.name for i in self.items if i.kind == "kw"}

    def has_open_kwargs(self) -> bool:
        return any(i.kind == "dstar" for i in self.items)


def _local_deps(fn: FunctionInfo) -> Dict[str, Set[str]]:
    """Flow-insensitive: local name -> set of parameter names it may derive from."""
    params = set(fn.all_param_names())
    deps: Dict[str, Set[str]] = {p: {p} for p in params}
    assigns: List[Tuple[List[str], ast.AST]] = []

    def targets(t) -> List[str]:
        if isinstance(t, ast.Name):
            return [t.id]
        if isinstance(t, (ast.Tuple, ast.List)):
            out = []
            for e in t.elts:
                out += targets(e)
            return out
        if isinstance(t, ast.Starred):
            return targets(t.value)
        return []

    for n in walk_body(fn):
        if isinstance(n, ast.Assign):
            names = []
            for t in n.targets:
                names += targets(t)
            assigns.append((names, n.value))
        elif isinstance(n, (ast.AnnAssign, ast.AugAssign)) and getattr(n, "value", None) is not None:
            assigns.append((targets(n.target), n.value))
        elif isinstance(n, (ast.For, ast.comprehension)):
            assigns.append((targets(n.target), n.iter))
        elif isinstance(n, ast.NamedExpr):
            assigns.append((targets(n.target), n.value))
        elif isinstance(n, ast.withitem) and n.optional_vars is not None:
            assigns.append((targets(n.optional_vars), n.context_expr))
        if isinstance(n, ast.Assign):
            # container stores: X[k] = v makes X depend on v (and k)
            for t in n.targets:
                if isinstance(t, ast.Subscript) and isinstance(t.value, ast.Name):
                    assigns.append(([t.value.id], n.value))
                    assigns.append(([t.value.id], t.slice))
        if (isinstance(n, ast.Call) and isinstance(n.func, ast.Attribute) and isinstance(n.func.value, ast.Name)
                and n.func.attr in ("append", "extend", "update", "insert", "add", "setdefault")):
            for a in list(n.args) + [k.value for k in n.keywords]:
                assigns.append(([n.func.value.id], a))
    changed = True
    while changed:
        changed = False
        for names, val in assigns:
            d = expr_deps(val, deps)
            for nm in names:
                cur = deps.setdefault(nm, set())
                if not d <= cur:
                    cur |= d
                    changed = True
    return deps


def expr_deps(e: ast.AST, deps: Dict[str, Set[str]]) -> Set[str]:
    out: Set[str] = set()
    for n in ast.walk(e):
        if isinstance(n, ast.Name) and n.id in deps:
            out |= deps[n.id]
    return out


def _find_init_call(idx: ProgramIndex, fn: FunctionInfo, as_seen_from: ClassInfo):
    """The (single) call that forwards to the next __init__ in the chain. Returns (call, next FunctionInfo | None)."""
    found = []
    for n in walk_body(fn):
        if not (isinstance(n, ast.Call) and isinstance(n.func, ast.Attribute) and n.func.attr == "__init__"):
            continue
        recv = n.func.value
        # super().__init__(...) / super(X, self).__init__(...)
        if isinstance(recv, ast.Call) and isinstance(recv.func, ast.Name) and recv.func.id == "super":
            after = fn.cls
            if recv.args:
                c = idx.class_of_expr(fn.module, recv.args[0])
                if c is None:
                    raise AnalysisError(f"{fn.qualname}: cannot resolve super({norm(recv.args[0])}, ...)")
                after = c
            nxt = idx.resolve_method(as_seen_from, "__init__", after=after)
            found.append((n, nxt, False))
        else:
            c = idx.class_of_expr(fn.module, recv)
            if c is not None:
                nxt = idx.resolve_method(c, "__init__")
                found.append((n, nxt, True))
    return found


def ctor_record(idx: ProgramIndex, cls: ClassInfo) -> CtorRecord:
    base = idx.operator_base()
    init = idx.resolve_method(cls, "__init__")
    rec = CtorRecord(cls, init)
    if init is None:
        rec.complete = False
        return rec
    a = init.node.args
    rec.params = [x.arg for x in list(a.posonlyargs) + list(a.args)][1:]
    rec.vararg = a.vararg.arg if a.vararg else None
    rec.kwonly = [x.arg for x in a.kwonlyargs]
    rec.kwarg = a.kwarg.arg if a.kwarg else None
    rec.defaults = init.defaults()
    for x in list(a.posonlyargs) + list(a.args) + list(a.kwonlyargs) + ([a.vararg] if a.vararg else []) + (
            [a.kwarg] if a.kwarg else []):
        if x.annotation is not None:
            rec.annotations[x.arg] = norm(x.annotation)

    # current frame: items expressed over the *top* constructor's parameters
    top_params = set(init.all_param_names()) - {init.all_param_names()[0]}
    fn = init
    # env maps the current frame's parameter names -> list of RecItems describing what was passed
    env_pos: Dict[str, RecItem] = {p: RecItem("pos", None, {p}, p) for p in rec.params + rec.kwonly}
    if rec.vararg:
        env_pos[rec.vararg] = RecItem("star", None, {rec.vararg}, "*" + rec.vararg)
    if rec.kwarg:
        env_pos[rec.kwarg] = RecItem("dstar", None, {rec.kwarg}, "**" + rec.kwarg)

    def frame_deps(fn: FunctionInfo, env: Dict[str, RecItem]) -> Dict[str, Set[str]]:
        local = _local_deps(fn)
        # translate frame-parameter deps to top-constructor deps
        out: Dict[str, Set[str]] = {}
        for nm, ds in local.items():
            s: Set[str] = set()
            for d in ds:
                if d in env and not d.endswith("#items"):
                    s |= env[d].deps
            out[nm] = s
        return out

    seen = 0
    env = env_pos
    while True:
        seen += 1
        if seen > 12:
            raise AnalysisError(f"{cls.qualname}: __init__ chain too long")
        rec.chain.append(fn.qualname)
        deps = frame_deps(fn, env)
        # attribute definitions in this frame
        self_name = fn.all_param_names()[0]
        for n in walk_body(fn):
            if isinstance(n, ast.Assign):
                for t in n.targets:
                    if isinstance(t, ast.Attribute) and isinstance(t.value, ast.Name) and t.value.id == self_name:
                        rec.attr_sources.setdefault(t.attr, set()).update(expr_deps(n.value, deps))
                        rec.attr_exprs.setdefault(t.attr, norm(n.value))
                    elif isinstance(t, (ast.Tuple, ast.List)):
                        # self.a, self.b = helper(x, y) / = (x, y): every attribute derives from what the value derives from
                        for k_, el in enumerate(t.elts):
                            if isinstance(el, ast.Attribute) and isinstance(el.value, ast.Name) and el.value.id == self_name:
                                v_el = n.value.elts[k_] if isinstance(n.value, (ast.Tuple, ast.List)) and len(n.value.elts) == len(t.elts) else n.value
                                rec.attr_sources.setdefault(el.attr, set()).update(expr_deps(v_el, deps))
                                rec.attr_exprs.setdefault(el.attr, norm(v_el))
        if fn.cls is base:
            # reached LinearOperator.__init__(self, *args, **kwargs): env describes _args / _kwargs
            break
        calls = _find_init_call(idx, fn, cls)
        if not calls:
            rec.complete = False
            break
        if len(calls) > 1:
            # several alternative forwarding calls (none today): analyse the first, note it
            pass
        call, nxt, explicit = calls[0]
        args = list(call.args)
        if explicit:  # Base.__init__(self, ...)
            args = args[1:]
        items: List[RecItem] = []
        fa = fn.node.args
        for arg in args:
            if isinstance(arg, ast.Starred):
                if (isinstance(arg.value, ast.Name) and fa.vararg and arg.value.id == fa.vararg.arg
                        and (arg.value.id + "#items") in env):
                    items += list(env[arg.value.id + "#items"])  # type: ignore  # forwarded *args: splice
                    continue
                items.append(RecItem("star", None, expr_deps(arg.value, deps), norm(arg)))
            else:
                items.append(RecItem("pos", None, expr_deps(arg, deps), norm(arg), isinstance(arg, ast.Constant)))
        for kw in call.keywords:
            if kw.arg is None:
                if (isinstance(kw.value, ast.Name) and fa.kwarg and kw.value.id == fa.kwarg.arg
                        and (kw.value.id + "#items") in env):
                    items += list(env[kw.value.id + "#items"])  # type: ignore  # forwarded **kwargs: splice
                    continue
                items.append(RecItem("dstar", None, expr_deps(kw.value, deps), "**" + norm(kw.value)))
            else:
                items.append(RecItem("kw", kw.arg, expr_deps(kw.value, deps), norm(kw.value),
                                     isinstance(kw.value, ast.Constant)))
        if nxt is None:
            rec.complete = False
            break
        # bind items to nxt's signature -> new env
        na = nxt.node.args
        nparams = [x.arg for x in list(na.posonlyargs) + list(na.args)][1:]
        new_env: Dict[str, RecItem] = {}
        pos_items = [i for i in items if i.kind in ("pos", "star")]
        kw_items = [i for i in items if i.kind in ("kw", "dstar")]
        pi = 0
        extra_pos: List[RecItem] = []
        star_seen = False
        for it in pos_items:
            if it.kind == "star":
                star_seen = True
                # a starred actual may fill any remaining positional params and the vararg
                for p in nparams[pi:]:
                    new_env[p] = RecItem("pos", None, set(it.deps), it.text)
                pi = len(nparams)
                extra_pos.append(it)
            elif pi < len(nparams) and not star_seen:
                new_env[nparams[pi]] = it
                pi += 1
            else:
                extra_pos.append(it)
        if na.vararg:
            d: Set[str] = set()
            for it in extra_pos:
                d |= it.deps
            new_env[na.vararg.arg] = RecItem("star", None, d, ", ".join(i.text for i in extra_pos))
            new_env[na.vararg.arg + "#items"] = extra_pos  # type: ignore
        open_kw: List[RecItem] = []
        for it in kw_items:
            if it.kind == "kw" and (it.name in nparams or it.name in [x.arg for x in na.kwonlyargs]):
                new_env[it.name] = it
            else:
                open_kw.append(it)
        if na.kwarg:
            d = set()
            for it in open_kw:
                d |= it.deps
            new_env[na.kwarg.arg] = RecItem("dstar", None, d, ", ".join(i.text for i in open_kw))
            new_env[na.kwarg.arg + "#items"] = open_kw  # type: ignore
        # params of nxt not bound keep their defaults (no deps)
        for p in nparams + [x.arg for x in na.kwonlyargs]:
            new_env.setdefault(p, RecItem("pos", None, set(), "<default>", True))
        if nxt.cls is base:
            # final record: expand what binds to *args / **kwargs of the base __init__
            final: List[RecItem] = []
            va = na.vararg.arg if na.vararg else None
            ka = na.kwarg.arg if na.kwarg else None
            # positional params of base __init__ other than self: none today, but keep general
            for p in nparams:
                final.append(new_env[p])
            if va:
                final += list(new_env.get(va + "#items", []))  # type: ignore
            if ka:
                final += list(new_env.get(ka + "#items", []))  # type: ignore
            rec.items = final
            rec.chain.append(nxt.qualname)
            break
        env = new_env
        fn = nxt
    return rec


def simulate_rebuild(rec: CtorRecord) -> Dict[str, Optional[RecItem]]:
    """Bind ``cls(*_args, **_kwargs)`` onto the constructor signature: parameter -> recorded item (or None)."""
    out: Dict[str, Optional[RecItem]] = {p: None for p in rec.all_params()}
    pos = [i for i in rec.items if i.kind in ("pos", "star")]
    kws = [i for i in rec.items if i.kind in ("kw", "dstar")]
    pi = 0
    star_seen = False
    rest: List[RecItem] = []
    for it in pos:
        if it.kind == "star":
            star_seen = True
            for p in rec.params[pi:]:
                # a starred record may spill over positional parameters (only when it is what was passed as *args)
                pass
            rest.append(it)
        elif pi < len(rec.params) and not star_seen:
            out[rec.params[pi]] = it
            pi += 1
        else:
            rest.append(it)
    if rest:
        if rec.vararg:
            d: Set[str] = set()
            for it in rest:
                d |= it.deps
            out[rec.vararg] = RecItem("star", None, d, ", ".join(i.text for i in rest))
        else:
            out["<overflow>"] = RecItem("star", None, set(), ", ".join(i.text for i in rest))
    open_kw: List[RecItem] = []
    for it in kws:
        if it.kind == "kw" and it.name in rec.params + rec.kwonly:
            out[it.name] = it
        else:
            open_kw.append(it)
    if open_kw:
        if rec.kwarg:
            d = set()
            for it in open_kw:
                d |= it.deps
            out[rec.kwarg] = RecItem("dstar", None, d, ", ".join(i.text for i in open_kw))
        else:
            out["<unexpected-kw>"] = RecItem("dstar", None, set(), ", ".join(
                (i.name or "") + "=" + i.text for i in open_kw))
    return out
