"""E0 - program index: modules, classes (with statically computed C3 MRO), functions,
import resolution and method resolution.  Pure ``ast``; nothing is imported."""
from __future__ import annotations

import ast
import hashlib
import os
from dataclasses import dataclass, field
from typing import Dict, Iterable, Iterator, List, Optional, Tuple

PKG = "linear_operator"
EXCLUDE_DIRS = ("test",)  # linear_operator/test = shipped test helpers, not library behaviour


class AnalysisError(Exception):
    """The analysis cannot stand behind a verdict (anchor vanished, parse error, floor not met)."""


def norm(node: ast.AST) -> str:
    """Normalised text of a construct (position independent)."""
    try:
        return ast.unparse(node)
    except Exception:  # pragma: no cover
        return ast.dump(node)


def short(node: ast.AST, n: int = 140) -> str:
    s = " ".join(norm(node).split())
    return s if len(s) <= n else s[: n - 3] + "..."


@dataclass
class FunctionInfo:
    qualname: str  # module.Class.func  /  module.func  / module.Class.func.<locals>.inner
    name: str
    node: ast.AST  # FunctionDef / AsyncFunctionDef / Lambda
    module: "ModuleInfo"
    cls: Optional["ClassInfo"] = None
    parent: Optional["FunctionInfo"] = None
    decorators: List[ast.expr] = field(default_factory=list)

    @property
    def file(self) -> str:
        return self.module.relpath

    @property
    def lineno(self) -> int:
        return getattr(self.node, "lineno", 0)

    @property
    def short(self) -> str:
        if self.cls is not None and self.parent is None:
            return f"{self.cls.name}.{self.name}"
        return self.qualname.split(".", 2)[-1] if self.qualname.count(".") > 2 else self.qualname

    def loc(self, node: Optional[ast.AST] = None) -> str:
        ln = getattr(node, "lineno", None) if node is not None else None
        return f"{self.file}:{ln if ln is not None else self.lineno}"

    def decorator_names(self) -> List[str]:
        out = []
        for d in self.decorators:
            f = d.func if isinstance(d, ast.Call) else d
            out.append(dotted(f) or norm(f))
        return out

    def is_property(self) -> bool:
        return any(n in ("property", "cached_property") for n in self.decorator_names())

    def is_setter(self) -> bool:
        return any(n.endswith(".setter") for n in self.decorator_names())

    def is_staticmethod(self) -> bool:
        return "staticmethod" in self.decorator_names()

    def is_classmethod(self) -> bool:
        return "classmethod" in self.decorator_names()

    def params(self) -> List[str]:
        a = self.node.args
        return [x.arg for x in list(a.posonlyargs) + list(a.args)]

    def all_param_names(self) -> List[str]:
        a = self.node.args
        names = [x.arg for x in list(a.posonlyargs) + list(a.args)]
        if a.vararg:
            names.append(a.vararg.arg)
        names += [x.arg for x in a.kwonlyargs]
        if a.kwarg:
            names.append(a.kwarg.arg)
        return names

    def defaults(self) -> Dict[str, ast.expr]:
        a = self.node.args
        pos = list(a.posonlyargs) + list(a.args)
        out: Dict[str, ast.expr] = {}
        for p, d in zip(pos[len(pos) - len(a.defaults):], a.defaults):
            out[p.arg] = d
        for p, d in zip(a.kwonlyargs, a.kw_defaults):
            if d is not None:
                out[p.arg] = d
        return out

    def body(self) -> List[ast.stmt]:
        if isinstance(self.node, ast.Lambda):
            return [ast.Return(value=self.node.body)]
        return self.node.body


@dataclass
class ClassInfo:
    qualname: str
    name: str
    node: ast.ClassDef
    module: "ModuleInfo"
    base_exprs: List[ast.expr] = field(default_factory=list)
    bases: List["ClassInfo"] = field(default_factory=list)  # package bases only
    external_bases: List[str] = field(default_factory=list)
    methods: Dict[str, FunctionInfo] = field(default_factory=dict)  # last definition wins (like python)
    all_defs: Dict[str, List[FunctionInfo]] = field(default_factory=dict)  # incl. property getter+setter
    class_attrs: Dict[str, ast.expr] = field(default_factory=dict)
    mro: List["ClassInfo"] = field(default_factory=list)

    @property
    def file(self) -> str:
        return self.module.relpath

    def is_subclass_of(self, other: "ClassInfo") -> bool:
        return other in self.mro


@dataclass
class ModuleInfo:
    name: str
    path: str
    relpath: str
    tree: ast.Module
    source: str
    imports: Dict[str, str] = field(default_factory=dict)  # local name -> dotted target
    classes: Dict[str, ClassInfo] = field(default_factory=dict)
    functions: Dict[str, FunctionInfo] = field(default_factory=dict)  # module-level
    globals_: Dict[str, ast.expr] = field(default_factory=dict)  # module-level simple assignments


def dotted(node: ast.AST) -> Optional[str]:
    """'a.b.c' for Name/Attribute chains, else None."""
    parts: List[str] = []
    while isinstance(node, ast.Attribute):
        parts.append(node.attr)
        node = node.value
    if isinstance(node, ast.Name):
        parts.append(node.id)
        return ".".join(reversed(parts))
    return None


class ProgramIndex:
    def __init__(self, root: str, overlay: Optional[Dict[str, str]] = None):
        """overlay: {path relative to root: replacement source} - used by the self-test to analyse a
        variant of the tree without writing it anywhere."""
        self.overlay = dict(overlay or {})
        self.root = os.path.abspath(root)
        self.pkg_dir = os.path.join(self.root, PKG)
        if not os.path.isdir(self.pkg_dir):
            raise AnalysisError(f"package directory not found: {self.pkg_dir}")
        self.modules: Dict[str, ModuleInfo] = {}
        self.classes: Dict[str, ClassInfo] = {}  # by qualname
        self.classes_by_name: Dict[str, List[ClassInfo]] = {}
        self.functions: List[FunctionInfo] = []  # every def and lambda
        self.func_by_qual: Dict[str, FunctionInfo] = {}
        self._load()
        self._resolve_bases()
        self._compute_mros()
        self._subclasses: Dict[str, List[ClassInfo]] = {}
        for c in self.classes.values():
            for b in c.mro[1:]:
                self._subclasses.setdefault(b.qualname, []).append(c)

    # ------------------------------------------------------------------ loading
    def _iter_files(self) -> Iterator[str]:
        for dirpath, dirnames, filenames in os.walk(self.pkg_dir):
            rel = os.path.relpath(dirpath, self.pkg_dir)
            parts = [] if rel == "." else rel.split(os.sep)
            if parts and parts[0] in EXCLUDE_DIRS:
                dirnames[:] = []
                continue
            dirnames[:] = sorted(d for d in dirnames if not (not parts and d in EXCLUDE_DIRS) and d != "__pycache__")
            for fn in sorted(filenames):
                if fn.endswith(".py"):
                    yield os.path.join(dirpath, fn)

    def _load(self) -> None:
        digest = hashlib.sha256()
        for path in self._iter_files():
            rel = os.path.relpath(path, self.root)
            if rel in self.overlay:
                src = self.overlay[rel]
            else:
                with open(path, "r", encoding="utf-8") as fh:
                    src = fh.read()
            digest.update(rel.encode())
            digest.update(src.encode())
            try:
                tree = ast.parse(src, filename=path)
            except SyntaxError as e:
                raise AnalysisError(f"cannot parse {rel}: {e}")
            modname = rel[:-3].replace(os.sep, ".")
            if modname.endswith(".__init__"):
                modname = modname[: -len(".__init__")]
            m = ModuleInfo(modname, path, rel, tree, src)
            self.modules[modname] = m
        from .normalize import specialise_reflective_names

        trees_ = {k: m.tree for k, m in self.modules.items()}
        self.normalised = specialise_reflective_names(trees_)
        from .normalize import expand_getattr_dispatch

        self.normalised += expand_getattr_dispatch(trees_)
        from .normalize import expand_callable_tables

        self.normalised += expand_callable_tables(trees_)
        from .normalize import destructure_indexed_results

        self.normalised += destructure_indexed_results(trees_)
        from .normalize import destructure_named_results

        self.normalised += destructure_named_results(trees_)
        from .normalize import inline_simple_generators

        self.normalised += inline_simple_generators(trees_)
        from .normalize import expand_generator_scopes

        self.normalised += expand_generator_scopes(trees_)
        from .normalize import specialise_lambda_arguments

        self.normalised += specialise_lambda_arguments(trees_)
        for m in self.modules.values():
            self._index_module(m)
        self.digest = digest.hexdigest()
        if len(self.modules) < 40:
            raise AnalysisError(f"only {len(self.modules)} modules found under {self.pkg_dir}")

    def _index_module(self, m: ModuleInfo) -> None:
        # imports: anywhere in the module (function-local imports are the norm in this code base)
        for node in ast.walk(m.tree):
            if isinstance(node, ast.Import):
                for a in node.names:
                    local = a.asname or a.name.split(".")[0]
                    target = a.name if a.asname else a.name.split(".")[0]
                    m.imports.setdefault(local, target)
            elif isinstance(node, ast.ImportFrom):
                base = node.module or ""
                if node.level:  # relative import (unused by the package today)
                    pkg_parts = m.name.split(".")
                    up = node.level - (1 if m.path.endswith("__init__.py") else 0)
                    anchor = pkg_parts[: len(pkg_parts) - up] if up else pkg_parts
                    base = ".".join(anchor + ([node.module] if node.module else []))
                for a in node.names:
                    if a.name == "*":
                        continue
                    m.imports.setdefault(a.asname or a.name, f"{base}.{a.name}")
        for stmt in m.tree.body:
            self._index_stmt(m, stmt, None, None)

    def _index_stmt(self, m: ModuleInfo, stmt: ast.stmt, cls: Optional[ClassInfo], parent: Optional[FunctionInfo]):
        if isinstance(stmt, (ast.FunctionDef, ast.AsyncFunctionDef)):
            self._add_function(m, stmt, cls, parent)
        elif isinstance(stmt, ast.ClassDef):
            if parent is None and cls is None:
                ci = ClassInfo(f"{m.name}.{stmt.name}", stmt.name, stmt, m, base_exprs=list(stmt.bases))
                m.classes[stmt.name] = ci
                self.classes[ci.qualname] = ci
                self.classes_by_name.setdefault(stmt.name, []).append(ci)
                for s in stmt.body:
                    self._index_stmt(m, s, ci, None)
        elif isinstance(stmt, (ast.Assign, ast.AnnAssign)) and parent is None:
            targets = stmt.targets if isinstance(stmt, ast.Assign) else [stmt.target]
            val = stmt.value
            for t in targets:
                if isinstance(t, ast.Name) and val is not None:
                    if cls is not None:
                        cls.class_attrs[t.id] = val
                    else:
                        m.globals_[t.id] = val
            if val is not None:
                self._index_lambdas(m, val, cls, parent)
        elif isinstance(stmt, (ast.If, ast.Try, ast.With, ast.For, ast.While)) and parent is None:
            for s in ast.iter_child_nodes(stmt):
                if isinstance(s, ast.stmt):
                    self._index_stmt(m, s, cls, parent)
                elif isinstance(s, ast.ExceptHandler):
                    for b in s.body:
                        self._index_stmt(m, b, cls, parent)

    def _add_function(self, m: ModuleInfo, node, cls: Optional[ClassInfo], parent: Optional[FunctionInfo]):
        if parent is not None:
            q = f"{parent.qualname}.<locals>.{node.name}"
        elif cls is not None:
            q = f"{cls.qualname}.{node.name}"
        else:
            q = f"{m.name}.{node.name}"
        fi = FunctionInfo(q, node.name, node, m, cls, parent, list(node.decorator_list))
        self.functions.append(fi)
        # several defs may share a qualname (property getter/setter); keep the first under the bare
        # qualname and a suffixed key for later ones
        key = q
        k = 2
        while key in self.func_by_qual:
            key = f"{q}#{k}"
            k += 1
        fi.qualname = key
        self.func_by_qual[key] = fi
        if parent is None:
            if cls is not None:
                cls.all_defs.setdefault(node.name, []).append(fi)
                # python semantics: a later plain def replaces; a .setter decorates the same property
                if not fi.is_setter():
                    cls.methods[node.name] = fi
            else:
                m.functions[node.name] = fi
        for d in node.args.defaults + [d for d in node.args.kw_defaults if d is not None]:
            self._index_lambdas(m, d, cls, fi)
        self._index_body(m, node.body, cls, fi)

    def _index_body(self, m, body: Iterable[ast.stmt], cls, parent: FunctionInfo):
        for stmt in body:
            self._index_nested(m, stmt, cls, parent)

    def _index_nested(self, m, node: ast.AST, cls, parent: FunctionInfo):
        if isinstance(node, (ast.FunctionDef, ast.AsyncFunctionDef)):
            self._add_function(m, node, cls, parent)
            return
        if isinstance(node, ast.Lambda):
            self._add_lambda(m, node, cls, parent)
            return
        if isinstance(node, ast.ClassDef):
            return
        for ch in ast.iter_child_nodes(node):
            self._index_nested(m, ch, cls, parent)

    def _index_lambdas(self, m, expr: ast.AST, cls, parent):
        for n in ast.walk(expr):
            if isinstance(n, ast.Lambda):
                self._add_lambda(m, n, cls, parent)

    def _add_lambda(self, m, node: ast.Lambda, cls, parent):
        base = parent.qualname if parent is not None else (cls.qualname if cls is not None else m.name)
        q = f"{base}.<lambda@{node.lineno}:{node.col_offset}>"
        if q in self.func_by_qual:
            return
        fi = FunctionInfo(q, "<lambda>", node, m, cls, parent, [])
        self.functions.append(fi)
        self.func_by_qual[q] = fi
        self._index_nested(m, node.body, cls, fi)

    # ------------------------------------------------------------------ names
    def resolve_name(self, m: ModuleInfo, name: str) -> Optional[str]:
        """Dotted target of a (possibly dotted) name used in module m: follows imports and re-exports."""
        head, _, rest = name.partition(".")
        if head in m.classes:
            tgt = m.classes[head].qualname
        elif head in m.functions:
            tgt = m.functions[head].qualname
        elif head in m.imports:
            tgt = m.imports[head]
        elif head in m.globals_:
            tgt = f"{m.name}.{head}"
        else:
            return None
        full = tgt + ("." + rest if rest else "")
        return self.canonical(full)

    def canonical(self, dotted_name: str, depth: int = 0) -> str:
        """Follow package re-exports: linear_operator.operators.DiagLinearOperator -> defining module."""
        if depth > 8 or not dotted_name.startswith(PKG):
            return dotted_name
        if dotted_name in self.classes or dotted_name in self.func_by_qual:
            return dotted_name
        parts = dotted_name.split(".")
        if dotted_name in self.modules:
            # `pkg.sub.name` may be a submodule that the package __init__ shadows with an imported object
            parent = self.modules.get(".".join(parts[:-1]))
            if parent is not None and parent.imports.get(parts[-1], dotted_name) != dotted_name:
                return self.canonical(parent.imports[parts[-1]], depth + 1)
            return dotted_name
        for i in range(len(parts) - 1, 0, -1):
            modname = ".".join(parts[:i])
            if modname in self.modules:
                m = self.modules[modname]
                head = parts[i]
                rest = parts[i + 1:]
                if head in m.classes:
                    return ".".join([m.classes[head].qualname] + rest)
                if head in m.functions:
                    return ".".join([m.functions[head].qualname] + rest)
                if head in m.imports:
                    return self.canonical(".".join([m.imports[head]] + rest), depth + 1)
                return dotted_name
        return dotted_name

    def resolve_expr(self, m: ModuleInfo, expr: ast.AST) -> Optional[str]:
        d = dotted(expr)
        if d is None:
            return None
        return self.resolve_name(m, d)

    def class_of_expr(self, m: ModuleInfo, expr: ast.AST) -> Optional[ClassInfo]:
        q = self.resolve_expr(m, expr)
        if q and q in self.classes:
            return self.classes[q]
        return None

    def function_of_expr(self, m: ModuleInfo, expr: ast.AST) -> Optional[FunctionInfo]:
        q = self.resolve_expr(m, expr)
        if q and q in self.func_by_qual:
            return self.func_by_qual[q]
        return None

    # ------------------------------------------------------------------ classes
    def _resolve_bases(self) -> None:
        for c in self.classes.values():
            for b in c.base_exprs:
                ci = self.class_of_expr(c.module, b)
                if ci is not None:
                    c.bases.append(ci)
                else:
                    c.external_bases.append(dotted(b) or norm(b))

    def _compute_mros(self) -> None:
        state: Dict[str, int] = {}

        def mro(c: ClassInfo) -> List[ClassInfo]:
            if c.mro:
                return c.mro
            if state.get(c.qualname) == 1:
                raise AnalysisError(f"cyclic inheritance at {c.qualname}")
            state[c.qualname] = 1
            seqs = [list(mro(b)) for b in c.bases] + [list(c.bases)]
            res = [c]
            while True:
                seqs = [s for s in seqs if s]
                if not seqs:
                    break
                for s in seqs:
                    cand = s[0]
                    if not any(cand in t[1:] for t in seqs):
                        break
                else:
                    raise AnalysisError(f"inconsistent MRO for {c.qualname}")
                res.append(cand)
                for s in seqs:
                    if s and s[0] is cand:
                        del s[0]
            c.mro = res
            state[c.qualname] = 2
            return res

        for c in self.classes.values():
            mro(c)

    def get_class(self, name: str) -> ClassInfo:
        cands = self.classes_by_name.get(name, [])
        if len(cands) != 1:
            raise AnalysisError(f"class {name!r}: expected exactly one definition, found {len(cands)}")
        return cands[0]

    def find_class(self, name: str) -> Optional[ClassInfo]:
        cands = self.classes_by_name.get(name, [])
        return cands[0] if len(cands) == 1 else None

    def subclasses(self, c: ClassInfo, include_self: bool = False) -> List[ClassInfo]:
        out = list(self._subclasses.get(c.qualname, []))
        if include_self:
            out = [c] + out
        return sorted(out, key=lambda x: x.qualname)

    def resolve_method(self, c: ClassInfo, name: str, after: Optional[ClassInfo] = None) -> Optional[FunctionInfo]:
        """Method `name` as seen from class c (MRO); with `after`, as super(after, c) sees it."""
        mro = c.mro
        if after is not None:
            if after not in mro:
                return None
            mro = mro[mro.index(after) + 1:]
        for k in mro:
            if name in k.methods:
                return k.methods[name]
        return None

    def resolve_class_attr(self, c: ClassInfo, name: str) -> Optional[Tuple[ClassInfo, ast.expr]]:
        for k in c.mro:
            if name in k.class_attrs:
                return k, k.class_attrs[name]
        return None

    def implementations(self, name: str) -> List[FunctionInfo]:
        """Every package class method called `name` (class hierarchy analysis on unknown receivers)."""
        out = []
        for c in self.classes.values():
            if name in c.methods:
                out.append(c.methods[name])
        return sorted(out, key=lambda f: f.qualname)

    def operator_base(self) -> ClassInfo:
        return self.get_class("LinearOperator")

    def operator_classes(self) -> List[ClassInfo]:
        return self.subclasses(self.operator_base(), include_self=True)

    # ------------------------------------------------------------------ census
    def census(self) -> Dict[str, int]:
        return {
            "modules": len(self.modules),
            "classes": len(self.classes),
            "functions_and_lambdas": len(self.functions),
            "operator_classes": len(self.operator_classes()),
        }

    def file_list(self) -> List[str]:
        return sorted(m.relpath for m in self.modules.values())


def walk_no_nested(node: ast.AST, include_root: bool = True) -> Iterator[ast.AST]:
    """ast.walk that does not descend into nested function / lambda / class scopes."""
    stack = [node]
    first = True
    while stack:
        n = stack.pop()
        if not first and isinstance(n, (ast.FunctionDef, ast.AsyncFunctionDef, ast.Lambda, ast.ClassDef)):
            continue
        if include_root or not first:
            yield n
        first = False
        stack.extend(reversed(list(ast.iter_child_nodes(n))))


def walk_body(fn: FunctionInfo) -> Iterator[ast.AST]:
    """All nodes of a function body, without nested scopes (but including comprehensions)."""
    for stmt in fn.body():
        yield from _walk_stmt(stmt)


def _walk_stmt(node: ast.AST) -> Iterator[ast.AST]:
    if isinstance(node, (ast.FunctionDef, ast.AsyncFunctionDef, ast.ClassDef)):
        # a nested definition is its own scope: only its decorators and defaults belong to the enclosing body
        for d in list(getattr(node, "decorator_list", [])):
            yield from _walk_stmt(d)
        if not isinstance(node, ast.ClassDef):
            for d in list(node.args.defaults) + [x for x in node.args.kw_defaults if x is not None]:
                yield from _walk_stmt(d)
        return
    stack = [node]
    while stack:
        n = stack.pop()
        yield n
        for ch in reversed(list(ast.iter_child_nodes(n))):
            if isinstance(ch, (ast.FunctionDef, ast.AsyncFunctionDef, ast.Lambda, ast.ClassDef)):
                continue
            stack.append(ch)
