"""C01 - every operator acts exactly as the dense matrix it represents (structural clauses).

    I  interface completeness: for every operator class exported by ``operators/__init__.__all__`` the three hooks a
       subclass must supply (``_matmul``, ``_size``, ``_transpose_nonbatch``) do not resolve to the raising stubs of
       ``LinearOperator``, and hooks that an intermediate base class declares by raising NotImplementedError are defined
       by every exported subclass
    F  mode-flag agreement (contradiction rule): a constructor flag with a bool / int default (``upper``, ``dim`` ...)
       that does not enter ``_size`` selects WHICH matrix the arguments denote.  The two primary denotations of a class,
       ``to_dense`` and ``_matmul`` - resolved through the MRO and followed transitively through calls on ``self`` -
       must consult the same mode flags; ``_t_matmul``, ``_diagonal``, ``_get_indices`` and ``_getitem`` at least those.
       If ``to_dense`` branches on a flag and ``_matmul`` does not, one of them is wrong.
"""
from __future__ import annotations

import ast
import re
from typing import Dict, List, Optional, Set, Tuple

from ..ctor import ctor_record
from ..index import AnalysisError, ClassInfo, FunctionInfo, ProgramIndex, dotted, norm, short, walk_body
from ..report import Finding, Report

PROP = "C01"
REQUIRED_HOOKS = ["_matmul", "_size", "_transpose_nonbatch"]
PRIMARY = ("to_dense", "_matmul")
SECONDARY = ("_t_matmul", "_diagonal", "_get_indices", "_getitem")
# (class, flag, method) -> reason the method may ignore the flag
FLAG_EXCEPTIONS: Dict[Tuple[str, str, str], str] = {}


def exported_classes(idx: ProgramIndex) -> List[ClassInfo]:
    m = idx.modules.get("linear_operator.operators")
    if m is None:
        raise AnalysisError("linear_operator/operators/__init__.py not found")
    names: List[str] = []
    allv = m.globals_.get("__all__")
    if isinstance(allv, (ast.List, ast.Tuple)):
        names = [e.value for e in allv.elts if isinstance(e, ast.Constant)]
    out = []
    for n in names:
        q = idx.resolve_name(m, n)
        if q and q in idx.classes:
            out.append(idx.classes[q])
    return out


def only_raises(fn: FunctionInfo) -> bool:
    body = [s for s in fn.body() if not (isinstance(s, ast.Expr) and isinstance(s.value, ast.Constant))]
    return bool(body) and all(isinstance(s, ast.Raise) for s in body)


class Consult:
    """Attributes of self read by a method, transitively through self.method() / property reads / super()."""

    def __init__(self, idx: ProgramIndex, cls: ClassInfo):
        self.idx = idx
        self.cls = cls
        self.base = idx.operator_base()
        self.memo: Dict[Tuple[str, Optional[str]], Set[str]] = {}

    def of(self, m: str, after: Optional[ClassInfo] = None, depth: int = 0, stack: Optional[Set[str]] = None) -> Set[str]:
        stack = stack if stack is not None else set()
        fn = self.idx.resolve_method(self.cls, m, after=after)
        if fn is None or fn.qualname in stack or depth > 6:
            return set()
        stack = stack | {fn.qualname}
        out: Set[str] = set()
        sn = fn.params()[0] if fn.params() else "self"
        for n in ast.walk(fn.node):
            if isinstance(n, ast.Attribute) and isinstance(n.value, ast.Name) and n.value.id == sn:
                if self.idx.resolve_method(self.cls, n.attr) is not None:
                    out |= self.of(n.attr, None, depth + 1, stack)
                else:
                    out.add(n.attr)
            if (isinstance(n, ast.Call) and isinstance(n.func, ast.Attribute) and isinstance(n.func.value, ast.Call)
                    and isinstance(n.func.value.func, ast.Name) and n.func.value.func.id == "super"):
                out |= self.of(n.func.attr, fn.cls, depth + 1, stack)
        # a module-level helper that receives self: helper(self, ...) reads, through its parameter, what self.<m>() would
        for n in ast.walk(fn.node):
            if isinstance(n, ast.Call) and isinstance(n.func, ast.Name) and depth < 5:
                pos = [i for i, a_ in enumerate(n.args) if isinstance(a_, ast.Name) and a_.id == sn]
                h = self.idx.function_of_expr(fn.module, n.func) if pos else None
                if h is not None and h.cls is None and h.qualname not in stack:
                    hp = h.params()
                    for i in pos:
                        if i < len(hp):
                            pn = hp[i]
                            for x in ast.walk(h.node):
                                if isinstance(x, ast.Attribute) and isinstance(x.value, ast.Name) and x.value.id == pn:
                                    if self.idx.resolve_method(self.cls, x.attr) is not None:
                                        out |= self.of(x.attr, None, depth + 1, stack | {h.qualname})
                                    else:
                                        out.add(x.attr)
        # modelled indirections of the base class
        if fn.cls is self.base and m == "matmul":
            out |= self.of("_matmul", None, depth + 1, stack)  # Matmul.apply(self.representation_tree(), ...) -> _matmul
        if fn.cls is self.base and m in ("mT", "transpose", "t", "T"):
            out |= self.of("_transpose_nonbatch", None, depth + 1, stack)
        if fn.cls is self.base and m == "__getitem__":
            out |= self.of("_getitem", None, depth + 1, stack) | self.of("_get_indices", None, depth + 1, stack)
        return out


def _squeeze_holder(fn: FunctionInfo, call: ast.Call):
    """(local name, self attribute) that receives the squeezed value."""
    for st in walk_body(fn):
        if isinstance(st, ast.Assign) and any(y is call for y in ast.walk(st.value)):
            t = st.targets[0]
            if isinstance(t, ast.Name):
                return t.id, None
            if isinstance(t, ast.Attribute) and isinstance(t.value, ast.Name) and t.value.id == "self":
                return None, t.attr
        if isinstance(st, ast.Expr) and st.value is call and call.func.attr.endswith("_"):
            v = call.func.value
            if isinstance(v, ast.Name):
                return v.id, None
            if isinstance(v, ast.Attribute) and isinstance(v.value, ast.Name) and v.value.id == "self":
                return None, v.attr
    return None, None


def _enclosing_tests(fn_node: ast.AST, target: ast.AST) -> List[ast.expr]:
    path: List[ast.AST] = []

    def find(n, acc):
        if n is target:
            path.extend(acc)
            return True
        for ch in ast.iter_child_nodes(n):
            if find(ch, acc + [n]):
                return True
        return False

    find(fn_node, [])
    return [p.test for p in path if isinstance(p, (ast.If, ast.IfExp, ast.While))]


def transpose_product_rule(idx: ProgramIndex, rep: Report, prop: str, rule: str) -> None:
    """(A B)^T x = B^T A^T x - see the comment at the call site in run(); re-used by C07 (the rhs gradient of Matmul and the
    second factor's _bilinear_derivative are computed through _t_matmul)."""
    rep.rule(rule, "transpose products of composites go through the transpose products of their components", floor=8)
    for c in idx.operator_classes():
        fn = c.methods.get("_t_matmul")
        if fn is None:
            continue
        init = idx.resolve_method(c, "__init__")
        diag_attrs = set()
        if init is not None:
            for st in walk_body(init):
                if isinstance(st, ast.If) and "isinstance(" in norm(st.test) and "Diag" in norm(st.test):
                    for x in st.body:
                        for y in ast.walk(x):
                            if isinstance(y, ast.Assign) and re.search(r"isinstance\(" + re.escape(norm(y.value)) + r", [\w\.]*Diag", norm(st.test)):
                                # the very value that is bound is the one tested to be diagonal
                                for t in y.targets:
                                    if isinstance(t, ast.Attribute) and isinstance(t.value, ast.Name) and t.value.id == "self":
                                        diag_attrs.add(t.attr)
        sn = fn.params()[0] if fn.params() else "self"
        bad_calls = []
        n_comp = 0
        for n in walk_body(fn):
            if not (isinstance(n, ast.Call) and isinstance(n.func, ast.Attribute) and n.func.attr in ("_matmul", "matmul", "_t_matmul")):
                continue
            recv = n.func.value
            if (dotted(recv) or "").split(".")[0] == "torch" or (isinstance(recv, ast.Name) and recv.id == sn):
                continue
            n_comp += 1
            if n.func.attr == "_t_matmul":
                continue
            txt = norm(recv)
            if any(k in txt for k in (".mT", ".T", "_transpose_nonbatch", ".transpose(", ".mH")):
                continue
            if isinstance(recv, ast.Attribute) and isinstance(recv.value, ast.Name) and recv.value.id == sn and recv.attr in diag_attrs:
                continue
            bad_calls.append(n)
        sample = {"class": c.name, "component_products_in__t_matmul": n_comp, "through_plain_matmul": len(bad_calls)}
        if bad_calls:
            rep.bad(rule, Finding(prop, rule, f"{c.name}._t_matmul", norm(bad_calls[0])[:90],
                                     f"{c.name}._t_matmul multiplies by a component with `{short(bad_calls[0], 60)}` - the component's plain "
                                     "product, not its transpose product: A^T x is computed as A x for that component, which agrees only for "
                                     "symmetric components (rhs gradients of matmul and the second factor's _bilinear_derivative go through "
                                     "_t_matmul)", fn.loc(bad_calls[0])), sample)
        else:
            rep.ok(rule, sample)



def run(idx: ProgramIndex, rep: Report, tier: str, selftest: bool = True):
    rep.extra["explanation"] = (
        "Two structural necessary conditions of 'the operator acts as the dense matrix its arguments denote'. (I) The "
        "hooks every subclass must supply resolve, through the statically computed MRO, to real implementations for "
        "every exported class. (F) A contradiction rule over sibling implementations: constructor flags with a bool/int "
        "default that do not enter _size (upper, dim) select which matrix the arguments denote, so every way of "
        "computing that matrix must consult them; the set of mode flags reached from to_dense (transitively through "
        "calls on self, super() and the modelled base-class indirections to_dense -> matmul -> _matmul, mT -> "
        "_transpose_nonbatch) must equal the set reached from _matmul, and the secondary denotations must reach at "
        "least those. Decided for all values, shapes and nestings at once. NOT decided: numerical agreement of the "
        "products (FFT, Kronecker reshapes, sparse interpolation)."
    )
    rep.assumptions += [
        "a flag that selects the denoted matrix must be consulted by every method that computes (part of) that matrix",
        "mode flags are constructor parameters with a bool / int literal default whose derived attributes _size does not read",
    ]
    base = idx.operator_base()
    rep.rule("C01.I", "exported operator classes implement the required hooks", floor=100)
    rep.rule("C01.F", "to_dense, _matmul and the other denotation methods consult the same mode flags", floor=10)

    exported = [c for c in exported_classes(idx) if c is not base]
    if len(exported) < 30:
        raise AnalysisError(f"only {len(exported)} exported operator classes found (expected >= 30)")
    # classes that are themselves abstract: they declare hooks by raising and are never instantiated by the package
    for c in exported:
        abstract_here = [m for m, f in c.methods.items() if only_raises(f) and any(
            m in sc.methods and not only_raises(sc.methods[m]) for sc in idx.subclasses(c))]
        is_abstract = bool(abstract_here) and c.name.startswith(("Block", "Abstract")) and bool(idx.subclasses(c))
        for h in REQUIRED_HOOKS:
            fn = idx.resolve_method(c, h)
            sample = {"class": c.name, "hook": h, "resolved_in": fn.cls.name if fn and fn.cls else None}
            if fn is None or (fn.cls is base and only_raises(fn)):
                if is_abstract:
                    rep.ok("C01.I", {**sample, "abstract_base": True})
                else:
                    rep.bad("C01.I", Finding(PROP, "C01.I", f"{c.name}.{h}", f"{c.name} resolves {h} to the LinearOperator stub",
                                             f"{c.name} is exported but `{h}` resolves to LinearOperator's raising stub: "
                                             "multiplying / sizing / transposing it raises NotImplementedError", f"{c.file}:{c.node.lineno}"))
            else:
                rep.ok("C01.I", sample)
        # hooks declared (by raising) in an intermediate base must be defined
        for k in c.mro[1:]:
            if k is base:
                continue
            for m, f in k.methods.items():
                if only_raises(f) and "NotImplementedError" in norm(f.node) and not m.startswith("__"):
                    r = idx.resolve_method(c, m)
                    concrete_users = [sc for sc in [c] if not (sc.name.startswith(("Block", "Abstract")) and idx.subclasses(sc))]
                    if r is f and concrete_users and k.name.startswith(("Block", "Abstract")):
                        rep.bad("C01.I", Finding(PROP, "C01.I", f"{c.name}.{m}", f"{c.name} inherits the abstract {k.name}.{m}",
                                                 f"{c.name} does not define `{m}`, which {k.name} declares by raising "
                                                 "NotImplementedError", f"{c.file}:{c.node.lineno}"))
                    elif k.name.startswith(("Block", "Abstract")):
                        rep.ok("C01.I", {"class": c.name, "abstract_hook": f"{k.name}.{m}", "defined_in": r.cls.name if r and r.cls else None})

    # ---------------------------------------------------------------- F
    n_flag_classes = 0
    for c in idx.operator_classes():
        rec = ctor_record(idx, c)
        if rec.init is None or c is base:
            continue
        flags: Dict[str, Set[str]] = {}
        for p in rec.params + rec.kwonly:
            d = rec.defaults.get(p)
            if isinstance(d, ast.Constant) and isinstance(d.value, (bool, int)) and d.value is not None:
                attrs = {a for a, src in rec.attr_sources.items() if p in src}
                if attrs:
                    flags[p] = attrs
        if not flags:
            continue
        cons = Consult(idx, c)
        size_reads = cons.of("_size")
        mode: Dict[str, Set[str]] = {}
        for p, attrs in flags.items():
            a2 = {a for a in attrs if a not in size_reads}
            if a2:
                mode[p] = a2
        if not mode:
            continue
        n_flag_classes += 1

        def flags_of(m: str) -> Set[str]:
            reads = cons.of(m)
            return {p for p, attrs in mode.items() if attrs & reads}

        prim = {m: flags_of(m) for m in PRIMARY}
        sec = {m: flags_of(m) for m in SECONDARY}
        sample = {"class": c.name, "mode_flags": {p: sorted(a) for p, a in mode.items()},
                  "consulted": {m: sorted(v) for m, v in {**prim, **sec}.items()}}
        if prim["to_dense"] == prim["_matmul"]:
            rep.ok("C01.F", sample)
        else:
            for p in sorted(prim["to_dense"] ^ prim["_matmul"]):
                reader = "to_dense" if p in prim["to_dense"] else "_matmul"
                other = "_matmul" if reader == "to_dense" else "to_dense"
                r_fn = idx.resolve_method(c, reader)
                o_fn = idx.resolve_method(c, other)
                exc = FLAG_EXCEPTIONS.get((c.name, p, other))
                if exc:
                    rep.ok("C01.F", {**sample, "exception": exc})
                    continue
                rep.bad("C01.F", Finding(
                    PROP, "C01.F", f"{c.name}.{other}", f"flag {p}: consulted by {reader}, ignored by {other}",
                    f"{c.name}: `{reader}` (resolved to {r_fn.cls.name}.{r_fn.name}) consults the constructor flag `{p}` but "
                    f"`{other}` (resolved to {o_fn.cls.name}.{o_fn.name}) never does: for one value of `{p}` the operator "
                    "multiplies as a different matrix than it densifies to", o_fn.loc() if o_fn else ""), sample)
        common = prim["to_dense"] & prim["_matmul"] if prim["to_dense"] == prim["_matmul"] else prim["to_dense"] | prim["_matmul"]
        for m, got in sec.items():
            fn = idx.resolve_method(c, m)
            if fn is None:
                continue
            for p in sorted(common - got):
                exc = FLAG_EXCEPTIONS.get((c.name, p, m))
                if exc:
                    rep.ok("C01.F", {"class": c.name, "method": m, "flag": p, "exception": exc})
                    continue
                rep.bad("C01.F", Finding(
                    PROP, "C01.F", f"{c.name}.{m}", f"flag {p}: ignored by {m}",
                    f"{c.name}: the constructor flag `{p}` selects the denoted matrix (consulted by "
                    f"{'/'.join(x for x in PRIMARY if p in prim[x])}) but `{m}` (resolved to {fn.cls.name}.{fn.name}) never "
                    "consults it", fn.loc()))
            if not (common - got):
                rep.ok("C01.F", {"class": c.name, "method": m, "consults": sorted(got)})
    rep.analysed["classes_with_mode_flags"] = n_flag_classes
    if n_flag_classes < 3:
        rep.error(f"only {n_flag_classes} classes with mode flags found (expected Cat, Chol, Triangular, ...)")

    # ---------------------------------------------------------------- D
    # the product / densification kernels compute in the OPERAND's dtype: a buffer allocated with torch's default dtype
    # silently rounds a float64 product to float32 accuracy (C14.F re-used, restricted to the kernels)
    from .c14 import factory_rule_for

    rep.rule("C01.D", "buffers of the product / densification kernels carry the operand's dtype", floor=40)
    kern_methods = ("_matmul", "_t_matmul", "matmul", "rmatmul", "to_dense", "_diagonal", "_get_indices", "_getitem", "_mul_matrix")

    def in_kernel(fn_name: str, loc: str) -> bool:
        return "/utils/" in loc or fn_name.split(".")[-1] in kern_methods or fn_name.startswith("utils.")

    factory_rule_for(idx, rep, PROP, "C01.D", in_kernel)

    # ---------------------------------------------------------------- W
    # a product kernel that writes into its operand (or into a tensor the operator holds) returns the right product once:
    # a sum of products, a second product, or to_dense afterwards no longer agree with the dense matrix
    from .c13 import write_findings_for

    rep.rule("C01.W", "product / densification kernels write owned storage only", floor=100)
    write_findings_for(idx, rep, PROP, "C01.W", lambda f: f.function.split(".")[-1] in kern_methods or f.function.startswith("utils."),
                       prefix="the product no longer agrees with the dense matrix when the operand is used again: ")

    # ---------------------------------------------------------------- O
    from .side import check_sides

    rep.rule("C01.O", "inside the matmul family the factor built from self stands on the operator's side of the product", floor=15)
    check_sides(idx, rep, PROP, "C01.O")

    # ---------------------------------------------------------------- T
    # (A B)^T x = B^T A^T x: the transpose product of a composite goes through the TRANSPOSE products of its components.  A
    # `_t_matmul` that multiplies by a component with `_matmul` / `matmul` (no transpose anywhere on that receiver) computes
    # the plain product of that component - right only if the component is symmetric, which the tests' symmetric fixtures
    # hide.  Exempt: the receiver is self (own symmetric classes), or an attribute that __init__ only binds under an
    # isinstance(..., Diag...) test (a diagonal component is its own transpose).
    transpose_product_rule(idx, rep, PROP, "C01.T")

    # ---------------------------------------------------------------- Q
    # argument-less squeeze() removes EVERY size-1 dimension: on a tensor whose extent is data dependent (kept rows of a
    # mask, one right-hand side, a batch of one) the operator changes shape exactly in the size-1 case
    rep.rule("C01.Q", "argument-less squeeze() only where the code has established that one element is left", floor=2)
    n_q = 0
    for fn in idx.functions:
        for x in walk_body(fn):
            if not (isinstance(x, ast.Call) and isinstance(x.func, ast.Attribute) and x.func.attr in ("squeeze", "squeeze_")
                    and not x.args and not x.keywords):
                continue
            n_q += 1
            tests = _enclosing_tests(fn.node, x)
            ok = [norm(t) for t in tests if any(k in norm(t) for k in ("numel()", "len(", ".dim()", ".ndim", "ndimension()"))]
            sample = {"function": fn.qualname.replace("linear_operator.", "")[:70], "call": short(x, 50),
                      "under": ok[0][:60] if ok else None}
            if not ok:
                # where does the squeezed value go?  Only a use as a SUBSCRIPT index drops the dimension of the indexed
                # tensor (x[..., idx, :] with a 0-d idx); index_select / index_copy_ accept a 0-d index and keep it
                holder_name, holder_attr = _squeeze_holder(fn, x)
                scope = []
                if holder_attr is not None and fn.cls is not None:
                    scope = [m.node for m in fn.cls.methods.values()]
                elif holder_name is not None:
                    scope = [fn.node]
                used_as_subscript = False
                for sc in scope:
                    for y in ast.walk(sc):
                        if isinstance(y, ast.Subscript):
                            for z in ast.walk(y.slice):
                                if (holder_name and isinstance(z, ast.Name) and z.id == holder_name) or (
                                        holder_attr and isinstance(z, ast.Attribute) and z.attr == holder_attr):
                                    used_as_subscript = True
                if scope and not used_as_subscript:
                    ok = ["not used as a subscript index"]
                    sample["under"] = "value never used as a subscript index (index_select-style consumers keep the dimension)"
            if ok:
                rep.ok("C01.Q", sample)
            else:
                rep.bad("C01.Q", Finding(PROP, "C01.Q", fn.qualname.replace("linear_operator.", "", 1), norm(x),
                                         f"`{short(x, 60)}` drops every dimension of size 1; nothing on the path establishes how many "
                                         "elements are left, so when the data-dependent extent happens to be 1 (one kept row, one "
                                         "column, a batch of one) the result loses a dimension and the operator no longer has the shape "
                                         "of the matrix it denotes", fn.loc(x)), sample)
    if n_q < 2:
        rep.error(f"only {n_q} argument-less squeeze() calls found (expected >= 2)")

    if selftest:
        from ..selftest import run_fixtures

        run_fixtures(rep, PROP)
