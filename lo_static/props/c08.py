"""C08 - conjugate gradients (structural skeleton; convergence and Lanczos identities are numerical).

All rules run on ``linear_cg`` with its same-module helpers INLINED (lo_static/inline.py), so extracting or re-inlining
the update kernels does not change a verdict, and every variable is identified by its ROLE, found from the code, never by
its spelling (only the public parameter names are taken as given):

    rhs_norm       the norm of the parameter ``rhs``             rhs_is_zero    a comparison of rhs_norm with a threshold
    residual       ``rhs - matmul_closure(...)``                   residual_norm  what is compared with ``stop_updating_after``
    has_converged  the result of that comparison                  result         what is returned
    reached        the flag set to True next to the ``break``

Each rule is a necessary condition of one clause of the property:

    Z  frozen columns, on EVERY path through the update part of the iteration (the preconditioned and the
       un-preconditioned sibling): the in-place updates of the residual and of the iterate depend on has_converged
    S  zero columns and scaling: the residual norm that decides convergence is masked by rhs_is_zero; the returned iterate
       is multiplied back by rhs_norm after the loop; rhs is normalised by it before
    E  error paths: ``max_tridiag_iter > max_iter`` and a NaN first residual raise before the iteration starts
    X  early exit: the ``break`` (and the reached flag) are controlled by the tolerance and the residual norm
    W  the NumericalWarning test (not reached and iterations were run) lies on every path from the loop to a return
    D  safe division: every in-loop division by an iteration quantity is preceded by a clamp of the denominator away from 0
    M  what is measured: the convergence norm is a function of the residual itself; the zero-column threshold does not
       depend on the right-hand side; the tridiagonal recording stops only when EVERY column has broken down
"""
from __future__ import annotations

import ast
from typing import Dict, List, Optional, Set, Tuple

import networkx as nx

from ..cfg import CFG, Node
from ..deps import ReachingDefs, dependence, forward_dependence, reads, root_name, statement_defs, subtree_nodes, value_reads
from ..index import AnalysisError, FunctionInfo, ProgramIndex, dotted, norm, short, walk_body
from ..inline import inline_helpers
from ..report import Finding, Report

PROP = "C08"
MOD = "linear_operator.utils.linear_cg"


def fname(fn: FunctionInfo) -> str:
    return fn.qualname.replace("linear_operator.", "", 1)


def _inside(outer: ast.AST, inner: ast.AST) -> bool:
    return any(x is inner for x in ast.walk(outer))


def _defs_of(st: ast.AST):
    out = []
    for x in ast.walk(st):
        out += statement_defs(x)
    return out


def controlling_tests(cfg: CFG, nid: int) -> List[Node]:
    """Tests that CONTROL the node: they dominate it and it is reachable through one of their branches only (a test whose
    two branches re-join before the node dominates it without deciding whether it runs)."""
    return [cfg.nodes[d] for d in cfg.dominators(nid) if cfg.nodes[d].kind == "test" and cfg.branch_taken(d, nid) is not None]


def _cmp_parts(e: ast.AST) -> Optional[Tuple[ast.AST, ast.AST, Optional[ast.AST], str]]:
    """(left, right, out, op) of a less-than style comparison in any spelling: a.lt(b), torch.lt(a, b, out=o), a < b."""
    if isinstance(e, ast.Call):
        d = dotted(e.func) or ""
        leaf = d.split(".")[-1]
        out = next((k.value for k in e.keywords if k.arg == "out"), None)
        if d.startswith("torch.") and leaf in ("lt", "le", "less", "less_equal") and len(e.args) >= 2:
            return e.args[0], e.args[1], out, leaf
        if isinstance(e.func, ast.Attribute) and e.func.attr in ("lt", "le", "less", "less_equal", "lt_", "le_") and e.args \
                and not d.startswith("torch."):
            return e.func.value, e.args[0], out, e.func.attr
    if isinstance(e, ast.Compare) and len(e.ops) == 1 and isinstance(e.ops[0], (ast.Lt, ast.LtE)):
        return e.left, e.comparators[0], None, "<"
    return None


def _quantifier(test: ast.AST) -> Optional[str]:
    """Is a threshold test on a tensor of per-column values universally or existentially quantified?
    X.max() < c, (X < c).all(), torch.all(X < c) -> 'all';  X.min() < c, (X < c).any(), torch.any(X < c) -> 'any'."""
    t = test
    if isinstance(t, ast.Call) and dotted(t.func) == "bool" and t.args:
        t = t.args[0]
    if isinstance(t, ast.Compare) and len(t.ops) == 1 and isinstance(t.ops[0], (ast.Lt, ast.LtE, ast.Gt, ast.GtE)):
        less = isinstance(t.ops[0], (ast.Lt, ast.LtE))
        l = t.left
        if isinstance(l, ast.Call):
            leaf = l.func.attr if isinstance(l.func, ast.Attribute) else (dotted(l.func) or "").split(".")[-1]
            if leaf in ("max", "amax"):
                return "all" if less else "any"
            if leaf in ("min", "amin"):
                return "any" if less else "all"
        return None
    if isinstance(t, ast.Call) and dotted(t.func) in ("torch.all", "torch.any"):
        return dotted(t.func).split(".")[-1]
    if isinstance(t, ast.Call) and isinstance(t.func, ast.Attribute) and t.func.attr in ("all", "any"):
        return t.func.attr
    return None


class Roles:
    """Structural identification of the solver's variables (see the module docstring)."""

    def __init__(self, fn: FunctionInfo):
        self.fn = fn
        body = fn.body()
        params = set(fn.params())
        for need in ("matmul_closure", "rhs", "tolerance", "stop_updating_after"):
            if need not in params:
                raise AnalysisError(f"linear_cg no longer has the public parameter `{need}`")
        # the CG loop: the last top-level `for` whose body calls matmul_closure
        loops = [s for s in body if isinstance(s, ast.For) and any(
            isinstance(x, ast.Call) and isinstance(x.func, ast.Name) and x.func.id == "matmul_closure" for x in ast.walk(s))]
        if not loops:
            raise AnalysisError("iteration loop (a top-level for that calls matmul_closure) not found in linear_cg")
        self.loop: ast.For = loops[-1]
        self.li = body.index(self.loop)
        self.pre, self.post = body[:self.li], body[self.li + 1:]
        pre_nodes = [x for s in self.pre for x in ast.walk(s)]

        def assigned(pred) -> Optional[str]:
            for x in pre_nodes:
                if isinstance(x, ast.Assign) and len(x.targets) == 1 and isinstance(x.targets[0], ast.Name) and pred(x.value):
                    return x.targets[0].id
            return None

        def is_norm_of(v: ast.AST, name: str) -> bool:
            for c in ast.walk(v):
                if isinstance(c, ast.Call):
                    d = dotted(c.func) or ""
                    if isinstance(c.func, ast.Attribute) and c.func.attr == "norm" and root_name(c.func.value) == name and not d.startswith("torch."):
                        return True
                    if d in ("torch.norm", "torch.linalg.norm", "torch.linalg.vector_norm") and c.args and root_name(c.args[0]) == name:
                        return True
            return False

        self.rhs_norm = assigned(lambda v: is_norm_of(v, "rhs"))
        if self.rhs_norm is None:
            raise AnalysisError("role rhs_norm (the norm of `rhs`) not found before the loop")

        def is_cmp_of(v: ast.AST, name: str) -> bool:
            p = _cmp_parts(v)
            return p is not None and root_name(p[0]) == name

        self.rhs_is_zero = assigned(lambda v: is_cmp_of(v, self.rhs_norm))
        if self.rhs_is_zero is None:
            raise AnalysisError("role rhs_is_zero (a comparison of rhs_norm with a threshold) not found before the loop")
        self.residual = assigned(lambda v: isinstance(v, ast.BinOp) and isinstance(v.op, ast.Sub) and root_name(v.left) == "rhs" and any(
            isinstance(c, ast.Call) and isinstance(c.func, ast.Name) and c.func.id == "matmul_closure" for c in ast.walk(v.right)))
        if self.residual is None:
            raise AnalysisError("role residual (`rhs - matmul_closure(...)`) not found before the loop")
        # has_converged / residual_norm: the comparison with stop_updating_after inside the loop
        self.has_converged = self.residual_norm = None
        self.conv_stmt = None
        for st in self.loop.body:
            for x in ast.walk(st):
                p = _cmp_parts(x)
                if p is not None and "stop_updating_after" in reads(p[1]):
                    tgt = root_name(p[2]) if p[2] is not None else None
                    if tgt is None and isinstance(st, ast.Assign) and isinstance(st.targets[0], ast.Name):
                        tgt = st.targets[0].id
                    if tgt is not None and root_name(p[0]) is not None:
                        self.has_converged, self.residual_norm, self.conv_stmt = tgt, root_name(p[0]), st
        if self.has_converged is None:
            raise AnalysisError("role has_converged (residual norm < stop_updating_after inside the loop) not found")
        # result: root of the first element of the returned value
        rets = [n for n in walk_body(fn) if isinstance(n, ast.Return) and n.value is not None]
        names = set()
        for r in rets:
            first = r.value.elts[0] if isinstance(r.value, ast.Tuple) else r.value
            rn = root_name(first)
            if rn:
                names.add(rn)
        if len(names) != 1:
            raise AnalysisError(f"linear_cg returns {sorted(names)}: expected one iterate variable")
        self.result = next(iter(names))
        self.returns = rets
        # reached flag: `flag = True` in the block of a break
        self.reached = None
        for x in ast.walk(self.loop):
            for fld in ("body", "orelse"):
                blk = getattr(x, fld, None)
                if isinstance(blk, list) and any(isinstance(s, ast.Break) for s in blk):
                    for s in blk:
                        if isinstance(s, ast.Assign) and isinstance(s.targets[0], ast.Name) and isinstance(s.value, ast.Constant) and s.value.value is True:
                            self.reached = s.targets[0].id
        if self.reached is None:
            # the flag computed as an expression in every iteration and used as the break condition:
            #   reached = <stopping rule>;  if reached: break
            assigned_in_loop = {t.id for x in ast.walk(self.loop) if isinstance(x, ast.Assign) for t in x.targets if isinstance(t, ast.Name)}
            for x in ast.walk(self.loop):
                if isinstance(x, ast.If) and isinstance(x.test, ast.Name) and x.test.id in assigned_in_loop \
                        and any(isinstance(s, ast.Break) for s in x.body):
                    self.reached = x.test.id

    def table(self) -> Dict[str, Optional[str]]:
        return {k: getattr(self, k) for k in ("rhs_norm", "rhs_is_zero", "residual", "residual_norm", "has_converged", "result", "reached")}


def _paths(stmts: List[ast.stmt], limit: int = 16) -> List[List[ast.stmt]]:
    """Alternative straight-line statement lists through if/else (loops and other compound statements kept whole)."""
    paths: List[List[ast.stmt]] = [[]]
    for st in stmts:
        if isinstance(st, ast.If) and len(paths) * 2 <= limit:
            a, b = _paths(st.body, limit), _paths(st.orelse, limit)
            pos = ast.copy_location(ast.Expr(value=st.test), st)
            neg = ast.copy_location(ast.Expr(value=ast.UnaryOp(op=ast.Not(), operand=st.test)), st)
            paths = [p + [pos] + q for p in paths for q in a] + [p + [neg] + q for p in paths for q in b]
        else:
            paths = [p + [st] for p in paths]
    return paths


def stopping_rules_for(idx: ProgramIndex, rep: Report, prop: str, rule: str) -> None:
    """Re-emit, under another property's rule id, the C08 rules that decide WHEN the solver stops and says so (M: the
    convergence measure is the residual; X: the early exit is controlled by tolerance and residual norm; W: the warning
    test lies on every path): they are the structural part of `a CG solve meets the configured tolerance or warns`."""
    sub = Report("C08", "quick", rep.root)
    sub.quiet = True
    run(idx, sub, "quick", selftest=False)
    for rname in ("C08.M", "C08.X", "C08.W"):
        st = sub.rules.get(rname)
        if st is None:
            continue
        bad = [f for f in sub.findings if f.rule == rname]
        rep.count(rule, max(st.instances - len(bad), 0))
        for f in bad:
            rep.bad(rule, Finding(prop, rule, f.function, f.construct, f"[{rname}] {f.message}", f.loc))
    for e in sub.errors:
        rep.error(f"linear_cg stopping rules: {e}")


def run(idx: ProgramIndex, rep: Report, tier: str, selftest: bool = True):
    rep.extra["explanation"] = (
        "Dependence, dominance and reaching-definition rules over linear_cg with its same-module helpers inlined (so an "
        "extracted or re-inlined kernel does not matter) and with every variable identified by its structural role, not "
        "by its name. They decide, for all inputs, the control / data skeleton that the property's clauses presuppose: "
        "converged columns are frozen on every path through the update part of the iteration; zero right-hand sides are "
        "masked and the answer is un-normalised by the right-hand-side norm; inconsistent iteration limits and a NaN "
        "first residual raise before iterating; the early exit is controlled by tolerance and residual norm; the "
        "NumericalWarning test lies on every path to a return; every in-loop division by an iteration quantity is "
        "guarded; the convergence norm is a function of the residual itself, the zero-column threshold is independent "
        "of the right-hand side, the tridiagonal recording stops only when every column has broken down. NOT decided "
        "(numerical): monotone A-norm error, the Chebyshev bound, that t_mat is the Lanczos matrix, preconditioner "
        "independence of the limit."
    )
    rep.assumptions += ["in-place tensor methods and out= keywords define their target (dependence model)",
                        "input immutability of linear_cg is decided by C13",
                        "the public parameter names of linear_cg (rhs, matmul_closure, tolerance, eps, stop_updating_after, "
                        "max_iter, max_tridiag_iter, n_tridiag) are its API and are taken as given"]
    m = idx.modules.get(MOD)
    if m is None:
        raise AnalysisError(f"{MOD} not found")
    cg0 = m.functions.get("linear_cg")
    if cg0 is None:
        raise AnalysisError("linear_cg not found")
    cg, inlined = inline_helpers(idx, cg0)
    # `for ...: ... break ... else: warn` is the reached-flag idiom written with syntax: analysed in its flag form (on the copy)
    from ..normalize import expand_loop_else

    rep.analysed["loop_else_rewritten"] = expand_loop_else({cg0.module.name: ast.Module(body=[cg.node], type_ignores=[])})
    from ..normalize import split_conditional_returns

    rep.analysed["conditional_returns_split"] = split_conditional_returns({cg0.module.name: ast.Module(body=[cg.node], type_ignores=[])})
    R = Roles(cg)
    rep.analysed["inlined_helpers"] = inlined
    rep.analysed["roles"] = R.table()
    loop_ast = R.loop
    cfg = CFG(cg)
    loop = next((n for n in cfg.nodes.values() if n.kind == "iter" and n.ast is loop_ast), None)
    if loop is None:
        raise AnalysisError("CFG node of the CG loop not found")
    F = fname(cg0)

    # ---------------------------------------------------------------- Z
    rep.rule("C08.Z", "converged columns are frozen on every path through the update part of the iteration", floor=2)
    ci = next((i for i, s in enumerate(loop_ast.body) if s is R.conv_stmt or _inside(s, R.conv_stmt)), len(loop_ast.body))
    region = loop_ast.body[:ci]
    n_paths = 0
    for pth in _paths(region):
        nodes = subtree_nodes(pth)
        d = forward_dependence(pth)
        updated = {nm for x in nodes for nm, _ in statement_defs(x)}
        label = " / ".join(short(s.value, 30) for s in pth if isinstance(s, ast.Expr) and not isinstance(s.value, ast.Call))[:60] or "straight"
        for role, var in (("residual", R.residual), ("result", R.result)):
            if var not in updated:
                continue
            n_paths += 1
            if R.has_converged in d.get(var, set()):
                rep.ok("C08.Z", {"path": label, "role": role, "variable": var, "depends_on": R.has_converged})
            else:
                rep.bad("C08.Z", Finding(PROP, "C08.Z", F + f" [{label}]", f"{role} independent of has_converged",
                                         f"linear_cg, update path [{label}]: the update of the {role} (`{var}`) does not depend on the "
                                         f"convergence mask `{R.has_converged}`: columns that have converged keep changing on this path "
                                         "(the sibling path masks the step length)", cg0.loc(pth[0] if pth else loop_ast)))
    if n_paths == 0:
        rep.error("no update of the residual / iterate found in the CG loop before the convergence test")
    dd = dependence(cg)
    if R.residual_norm in dd.get(R.has_converged, set()):
        rep.ok("C08.Z", {"variable": R.has_converged, "recomputed_from": R.residual_norm})

    # ---------------------------------------------------------------- S
    rep.rule("C08.S", "zero columns are masked and the answer scales with the right-hand side", floor=3)
    n_s1 = 0
    for node in cfg.stmt_nodes():
        if node.kind != "stmt" or not _inside(loop_ast, node.ast):
            continue
        if not any(nm == R.has_converged and R.residual_norm in rd_ for nm, rd_ in _defs_of(node.ast)):
            continue
        n_s1 += 1
        closest = None
        for dn_id in cfg.dominators(node.id):
            dn = cfg.nodes[dn_id]
            if dn.kind != "stmt":
                continue
            ds = [r for nm, r in _defs_of(dn.ast) if nm == R.residual_norm]
            if ds:
                closest = (dn, ds)
                break
        sel = closest is not None and any(R.rhs_is_zero in r for r in closest[1]) and any(
            k in norm(closest[0].ast) for k in ("masked_fill", "where", "index_fill"))
        if sel:
            rep.ok("C08.S", {"convergence_test": short(node.ast, 70), "residual_norm_last_defined_by": short(closest[0].ast, 60)})
        else:
            rep.bad("C08.S", Finding(PROP, "C08.S", F, "residual norm not masked by rhs_is_zero before the convergence test",
                                     "inside the iteration the residual norm that decides convergence is not masked by the zero-column "
                                     f"mask `{R.rhs_is_zero}`: the (0/0) residual of a zero right-hand-side column keeps the solver "
                                     "iterating / pollutes the mean residual", cg0.loc(node.ast)))
    if n_s1 == 0:
        rep.error("has_converged is never recomputed from the residual norm inside the loop")
    post = dependence(cg, subtree_nodes(R.post))
    for r in R.returns:
        first = r.value.elts[0] if isinstance(r.value, ast.Tuple) else r.value
        names = reads(first)
        dset = set().union(*[post.get(nm, set()) | {nm} for nm in names]) if names else set()
        if R.rhs_norm in dset:
            rep.ok("C08.S", {"return": short(r, 60), "un-normalised_by": R.rhs_norm})
        else:
            rep.bad("C08.S", Finding(PROP, "C08.S", F, "returned iterate not multiplied back by rhs_norm",
                                     "after the iteration the returned iterate is not multiplied back by the right-hand-side norm: the "
                                     "answer of the normalised system is returned, i.e. the result does not scale with the right-hand side",
                                     cg0.loc(r)))
    pre = dependence(cg, subtree_nodes(R.pre))
    if R.rhs_norm in pre.get("rhs", set()):
        rep.ok("C08.S", {"rhs_normalised_by": R.rhs_norm})
    else:
        rep.bad("C08.S", Finding(PROP, "C08.S", F, "rhs not normalised", "rhs is not divided by its norm before the iteration", cg0.loc()))

    # ---------------------------------------------------------------- E
    rep.rule("C08.E", "inconsistent limits and a NaN first residual raise before iterating", floor=2)
    found_limits = found_nan = False
    for rz in [n for n in cfg.stmt_nodes() if n.kind == "stmt" and isinstance(n.ast, ast.Raise)]:
        for t in controlling_tests(cfg, rz.id):
            if t.id not in cfg.dominators(loop.id):
                continue
            names = reads(t.ast)
            if {"max_tridiag_iter", "max_iter"} <= names:
                found_limits = True
            if R.residual in names and any(k in norm(t.ast) for k in ("equal", "isnan", "isfinite", "!=")):
                found_nan = True
    for ok, what, msg in ((found_limits, "max_tridiag_iter > max_iter", "a tridiagonalisation larger than the iteration budget is "
                           "not rejected before iterating"),
                          (found_nan, "NaN first residual", "a NaN in the first residual is not rejected before iterating: the "
                           "solver returns NaN instead of raising")):
        if ok:
            rep.ok("C08.E", {"raises_before_loop_on": what})
        else:
            rep.bad("C08.E", Finding(PROP, "C08.E", F, f"no raise on {what}", f"linear_cg: {msg}", cg0.loc()))

    # ---------------------------------------------------------------- N
    # The Lanczos matrix of an n x n system has at most n rows: the dimension of the tridiagonal buffer allocated before the loop
    # must be bounded by the row count of the right-hand side on every path (a necessary condition of "true Lanczos matrices":
    # row n+1 of a larger buffer is filled from a breakdown step and adds a spurious Ritz value).  Three-valued: the rule
    # reports only a definite derivation from quantities that are not bounded by n (parameters, settings, constants); a shape
    # it does not recognise is recorded as undecided, never reported.
    rep.rule("C08.N", "the dimension of the tridiagonal buffer is bounded by the number of rows on every path", floor=0)
    pre_walk = [x for s in R.pre for x in ast.walk(s)]
    fn_params = set(cg.params())

    def _rowcount(e: ast.AST) -> bool:
        if isinstance(e, ast.Call) and isinstance(e.func, ast.Attribute) and e.func.attr == "size" and len(e.args) == 1:
            a = e.args[0]
            return isinstance(a, ast.UnaryOp) and isinstance(a.op, ast.USub) and isinstance(a.operand, ast.Constant) \
                and a.operand.value in (1, 2) or (isinstance(a, ast.Constant) and a.value in (-1, -2))
        if isinstance(e, ast.Subscript) and isinstance(e.value, ast.Attribute) and e.value.attr == "shape":
            return norm(e.slice) in ("-2", "-1")
        return False

    def _bnd(e: ast.AST, seen: Tuple[str, ...] = ()) -> str:
        if _rowcount(e):
            return "yes"
        if isinstance(e, ast.Constant):
            return "yes" if e.value == 0 else "no" if isinstance(e.value, int) else "unknown"
        if isinstance(e, ast.IfExp):
            parts = [_bnd(e.body, seen), _bnd(e.orelse, seen)]
            return "no" if "no" in parts else "yes" if parts == ["yes", "yes"] else "unknown"
        if isinstance(e, ast.Call) and isinstance(e.func, ast.Name) and e.func.id in ("min", "max") and e.args and not e.keywords \
                and not any(isinstance(a, ast.Starred) for a in e.args):
            parts = [_bnd(a, seen) for a in e.args]
            if e.func.id == "min" and len(e.args) >= 2:
                return "yes" if "yes" in parts else "no" if set(parts) == {"no"} else "unknown"
            if e.func.id == "max" and len(e.args) >= 2:
                return "no" if "no" in parts else "yes" if set(parts) == {"yes"} else "unknown"
            return "unknown"
        if isinstance(e, ast.Call) and (dotted(e.func) or "").startswith("settings.") and (dotted(e.func) or "").endswith(".value"):
            return "no"
        if isinstance(e, ast.Name):
            if e.id in seen:
                return "unknown"
            defs = [x.value for x in pre_walk if isinstance(x, ast.Assign) and len(x.targets) == 1
                    and isinstance(x.targets[0], ast.Name) and x.targets[0].id == e.id]
            other = [x for x in pre_walk if isinstance(x, (ast.AugAssign, ast.AnnAssign, ast.NamedExpr, ast.For, ast.With))
                     and any(isinstance(t, ast.Name) and t.id == e.id and isinstance(t.ctx, ast.Store) for t in ast.walk(x))]
            tuple_defs = [x for x in pre_walk if isinstance(x, ast.Assign) and not (len(x.targets) == 1 and isinstance(x.targets[0], ast.Name))
                          and any(isinstance(t, ast.Name) and t.id == e.id and isinstance(t.ctx, ast.Store)
                                  for tg in x.targets for t in ast.walk(tg))]
            if other or tuple_defs:
                return "unknown"
            if not defs:
                return "no" if e.id in fn_params else "unknown"
            if e.id in fn_params:
                defs = defs + [None]  # the value passed by the caller may survive
            parts = ["no" if d is None else _bnd(d, seen + (e.id,)) for d in defs]
            return "no" if "no" in parts else "yes" if set(parts) == {"yes"} else "unknown"
        return "unknown"

    bufs = [x for x in pre_walk if isinstance(x, ast.Call) and (dotted(x.func) or "").split(".")[-1] in ("zeros", "empty", "new_zeros", "new_empty")
            and len(x.args) >= 3 and norm(x.args[0]) == norm(x.args[1]) and not isinstance(x.args[0], (ast.Constant, ast.Starred))]
    for b in bufs:
        verdict = _bnd(b.args[0])
        if verdict == "yes":
            rep.ok("C08.N", {"buffer": short(b, 60), "dimension": norm(b.args[0]), "bounded_by_row_count": True})
        elif verdict == "no":
            rep.bad("C08.N", Finding(PROP, "C08.N", F, "tridiagonal dimension not bounded by the row count",
                                     f"linear_cg: the dimension `{norm(b.args[0])}` of the tridiagonal buffer `{short(b, 50)}` is, on some "
                                     "path, derived only from parameters / settings / constants and not capped by the number of rows of "
                                     "the system: for a system smaller than that limit the returned Lanczos matrix has more rows than "
                                     "the operator (a spurious Ritz value)", cg0.loc()))
        else:
            rep.analysed.setdefault("C08.N_undecided", []).append(short(b, 80))
    if not bufs:
        rep.analysed.setdefault("C08.N_undecided", []).append("no square buffer allocated before the loop was recognised")

    # ---------------------------------------------------------------- X
    rep.rule("C08.X", "the early exit is controlled by tolerance and residual norm", floor=2)
    breaks = [n for n in cfg.stmt_nodes() if n.kind == "stmt" and isinstance(n.ast, ast.Break) and _inside(loop_ast, n.ast)]
    if not breaks:
        rep.bad("C08.X", Finding(PROP, "C08.X", F, "no break", "the CG loop has no early exit", cg0.loc()))

    _rd_x: List[Optional[ReachingDefs]] = [None]

    def loop_controls(nid: int) -> Tuple[Set[str], List[str]]:
        names: Set[str] = set()
        labels = []
        for t in controlling_tests(cfg, nid):
            if _inside(loop_ast, t.ast):
                names |= reads(t.ast)
                labels.append(t.label[:50])
        # flags computed earlier in the iteration (converged = bool(norm < tolerance)) count through their definitions
        try:
            if _rd_x[0] is None:
                _rd_x[0] = ReachingDefs(cg, reads=value_reads)
            names = names | _rd_x[0].closure(nid, names)
        except Exception:
            pass
        return names, labels

    def tolerance_holds_at(nid: int, expr: Optional[ast.AST] = None) -> bool:
        """Some test that controls the node guarantees - on the branch that leads to the node, whichever disjunct made it take
        that branch - that a value computed from the residual norm is below the tolerance (names computed earlier in the
        iteration count through their single definition).  Being on the OTHER branch of the tolerance test does not count."""
        from ..conds import test_guarantees

        def resolve(name: str) -> Optional[ast.AST]:
            defs_ = [n.ast.value for n in cfg.stmt_nodes() if n.kind == "stmt" and isinstance(n.ast, ast.Assign) and len(n.ast.targets) == 1
                     and isinstance(n.ast.targets[0], ast.Name) and n.ast.targets[0].id == name and _inside(loop_ast, n.ast)]
            if len(defs_) == 1 and isinstance(defs_[0], (ast.BoolOp, ast.UnaryOp, ast.Compare, ast.Call)) and (
                    not isinstance(defs_[0], ast.Call) or dotted(defs_[0].func) == "bool"):
                return defs_[0]
            return None

        def below_tolerance(lit) -> bool:
            e, pol = lit
            if isinstance(e, ast.Compare) and len(e.ops) == 1:
                l_, r_, op = e.left, e.comparators[0], e.ops[0]
                lt = isinstance(op, (ast.Lt, ast.LtE))
                gt = isinstance(op, (ast.Gt, ast.GtE))
                if not (lt or gt):
                    return False
                small, big = (l_, r_) if lt == pol else (r_, l_)  # (a < b) true / (a >= b) false: a is the smaller side
                return R.residual_norm in through_defs(small) and "tolerance" in through_defs(big)
            parts = _cmp_parts(e)
            if parts is not None and pol:
                return R.residual_norm in through_defs(parts[0]) and "tolerance" in through_defs(parts[1])
            return False

        def through_defs(e: ast.AST) -> Set[str]:
            """names the value depends on, through the definitions that reach the controlled node (mean_norm = norm.mean())"""
            names = set(reads(e))
            try:
                if _rd_x[0] is None:
                    _rd_x[0] = ReachingDefs(cg, reads=value_reads)
                names |= _rd_x[0].closure(nid, names)
            except Exception:
                pass
            return names

        if expr is not None:
            return test_guarantees(expr, True, below_tolerance, resolve)
        for t in controlling_tests(cfg, nid):
            if not _inside(loop_ast, t.ast):
                continue
            pol = cfg.branch_taken(t.id, nid)
            if pol is not None and test_guarantees(t.ast, pol, below_tolerance, resolve):
                return True
        return False

    has_tridiag = "n_tridiag" in cg0.params()
    for b in breaks:
        names, labels = loop_controls(b.id)
        if "tolerance" in names and R.residual_norm in names and not tolerance_holds_at(b.id):
            rep.bad("C08.X", Finding(PROP, "C08.X", F, "break on a branch that does not establish the tolerance",
                                     "an early exit of the CG loop lies on a branch on which `residual norm < tolerance` is not "
                                     f"guaranteed (controlled by: {'; '.join(labels)}): the iteration can stop early without having "
                                     "converged", cg0.loc(b.ast)))
            continue
        if has_tridiag and "tolerance" in names and "n_tridiag" not in names:
            # flags computed earlier in the iteration (keep_going = n_tridiag and k < ...) count through their definitions
            try:
                rd_x = ReachingDefs(cg, reads=value_reads)
                names = names | rd_x.closure(b.id, names)
            except Exception:
                pass
            if "n_tridiag" not in names:
                rep.bad("C08.X", Finding(PROP, "C08.X", F, "break ignores n_tridiag",
                                         "the early exit on reaching the tolerance does not depend on n_tridiag: when Lanczos coefficients "
                                         "are requested the iteration stops before max_tridiag_iter steps and the tridiagonal matrices are "
                                         "smaller than requested (log-determinant quadrature loses accuracy)", cg0.loc(b.ast)))
                continue
        if "tolerance" in names and R.residual_norm in names:
            rep.ok("C08.X", {"break_controlled_by": labels})
        else:
            rep.bad("C08.X", Finding(PROP, "C08.X", F, "break: " + (" and ".join(labels) or "unconditional"),
                                     "the early exit of the CG loop is not controlled by both the tolerance and the residual norm",
                                     cg0.loc(b.ast)))
    if R.reached is None:
        rep.bad("C08.X", Finding(PROP, "C08.X", F, "no tolerance-reached flag", "no flag records that the tolerance was reached when the "
                                 "loop is left early: the warning cannot tell a converged from an exhausted solve", cg0.loc(loop_ast)))
    else:
        for s_ in [n for n in cfg.stmt_nodes() if n.kind == "stmt" and isinstance(n.ast, ast.Assign) and any(
                isinstance(t, ast.Name) and t.id == R.reached for t in n.ast.targets)
                and isinstance(n.ast.value, ast.Constant) and n.ast.value.value is True]:
            names, labels = loop_controls(s_.id)
            if "tolerance" in names and R.residual_norm in names and tolerance_holds_at(s_.id):
                rep.ok("C08.X", {"reached_flag": R.reached, "set_under": labels})
            else:
                rep.bad("C08.X", Finding(PROP, "C08.X", F, "tolerance-reached flag = True",
                                         f"`{R.reached}` is set outside the tolerance test: the NumericalWarning is suppressed "
                                         "although the tolerance was not reached", cg0.loc(s_.ast)))

        # the flag assigned from an expression inside the loop (reached = k >= ... and norm < tolerance and ...): whenever the
        # expression is true the tolerance must have been reached
        for s_ in [n for n in cfg.stmt_nodes() if n.kind == "stmt" and isinstance(n.ast, ast.Assign) and _inside(loop_ast, n.ast) and any(
                isinstance(t, ast.Name) and t.id == R.reached for t in n.ast.targets)
                and not isinstance(n.ast.value, ast.Constant)]:
            if tolerance_holds_at(s_.id, s_.ast.value):
                rep.ok("C08.X", {"reached_flag": R.reached, "computed_as": short(s_.ast.value, 70)})
            else:
                rep.bad("C08.X", Finding(PROP, "C08.X", F, "tolerance-reached flag computed without the tolerance test",
                                         f"`{R.reached}` is assigned an expression that can be true although `residual norm < tolerance` does "
                                         "not hold: the NumericalWarning is suppressed for an unconverged solve", cg0.loc(s_.ast)))

    def alternatives(e: ast.AST, pol: bool, depth: int = 0) -> List[List[Tuple[ast.AST, bool]]]:
        """The condition `e == pol` as a disjunction of conjunctions of literals (expr, polarity)."""
        if isinstance(e, ast.UnaryOp) and isinstance(e.op, ast.Not):
            return alternatives(e.operand, not pol, depth)
        if isinstance(e, ast.BoolOp):
            conj = isinstance(e.op, ast.And) == pol  # (A and B) true / (A or B) false: all parts constrained
            parts = [alternatives(v, pol, depth) for v in e.values]
            if conj:
                out = [[]]
                for pa in parts:
                    out = [x + y for x in out for y in pa][:64]
                return out
            return [alt for pa in parts for alt in pa]
        if isinstance(e, ast.Name) and depth < 3:
            # a flag computed after the loop (silent = reached or n_iter == 0): look through its single definition
            defs_ = [n.ast for n in cfg.stmt_nodes() if n.kind == "stmt" and isinstance(n.ast, ast.Assign) and len(n.ast.targets) == 1
                     and isinstance(n.ast.targets[0], ast.Name) and n.ast.targets[0].id == e.id]
            if len(defs_) == 1 and not _inside(loop_ast, defs_[0]) and isinstance(defs_[0].value, (ast.BoolOp, ast.UnaryOp, ast.Compare)) \
                    and e.id != R.reached:
                return alternatives(defs_[0].value, pol, depth + 1)
        return [[(e, pol)]]

    # ---------------------------------------------------------------- W
    rep.rule("C08.W", "the NumericalWarning test lies on every path from the loop to a return", floor=1)
    warn_tests = []
    for n in cfg.stmt_nodes():
        if n.kind == "stmt" and any(isinstance(x, ast.Call) and (dotted(x.func) or "").endswith("warn") and "NumericalWarning" in norm(x)
                                    for x in ast.walk(n.ast)):
            for t in controlling_tests(cfg, n.id):
                # the test may read the flag directly or through a flag computed from it after the loop
                lits = [l for alt in alternatives(t.ast, True) for l in alt]
                if R.reached is not None and any(R.reached in reads(l[0]) for l in lits):
                    warn_tests.append(t)
                    break
    if not warn_tests:
        rep.bad("C08.W", Finding(PROP, "C08.W", F, "no NumericalWarning", "linear_cg never emits a NumericalWarning "
                                 "controlled by the tolerance-reached flag", cg0.loc()))
    else:
        wt = warn_tests[0]
        after_loop = [s for s in cfg.g.successors(loop.id) if cfg.g[loop.id][s].get("pol") is False] + [b.id for b in breaks]
        h = cfg.g.copy()
        h.remove_node(wt.id)
        skipping = [s for s in after_loop if s in h and nx.has_path(h, s, cfg.exit)]
        if skipping:
            rep.bad("C08.W", Finding(PROP, "C08.W", F, "warning test bypassed",
                                     "there is a path from the end of the iteration to a return that does not pass the "
                                     "`not reached` test: an unconverged solve can return silently", cg0.loc(wt.ast)))
        else:
            rep.ok("C08.W", {"warning_test": wt.label[:80], "on_every_path_to_return": True})

    # ---- W2: every path from the end of the iteration to a return that emits NO warning is justified by the
    # tolerance-reached flag being set or by a zero iteration budget - no other condition may silence the warning
    bound = None
    if isinstance(loop_ast, ast.For) and isinstance(loop_ast.iter, ast.Call) and norm(loop_ast.iter.func) == "range" and loop_ast.iter.args \
            and isinstance(loop_ast.iter.args[-1], ast.Name):
        bound = loop_ast.iter.args[-1].id

    def justifies(lit: Tuple[ast.AST, bool]) -> bool:
        e, pol = lit
        if R.reached is not None and isinstance(e, ast.Name) and e.id == R.reached:
            return pol is True
        if bound is not None:
            if isinstance(e, ast.Name) and e.id == bound:
                return pol is False  # `if n_iter:` false = no iteration was allowed
            if isinstance(e, ast.Compare) and len(e.ops) == 1:
                l_, r_, op = e.left, e.comparators[0], e.ops[0]
                if isinstance(r_, ast.Name) and r_.id == bound and isinstance(l_, ast.Constant):
                    l_, r_ = r_, l_
                    op = {ast.Gt: ast.Lt(), ast.Lt: ast.Gt(), ast.GtE: ast.LtE(), ast.LtE: ast.GtE()}.get(type(op), op)
                if isinstance(l_, ast.Name) and l_.id == bound and isinstance(r_, ast.Constant) and r_.value in (0, 1):
                    z = r_.value
                    zero_when_true = (isinstance(op, ast.Eq) and z == 0) or (isinstance(op, ast.LtE) and z == 0) or (isinstance(op, ast.Lt) and z == 1)
                    zero_when_false = (isinstance(op, ast.Gt) and z == 0) or (isinstance(op, ast.NotEq) and z == 0) or (isinstance(op, ast.GtE) and z == 1)
                    return (zero_when_true and pol is True) or (zero_when_false and pol is False)
        return False

    if warn_tests and R.reached is not None:
        warn_nodes = {n.id for n in cfg.stmt_nodes() if n.kind == "stmt" and any(
            isinstance(x, ast.Call) and (dotted(x.func) or "").endswith("warn") and "NumericalWarning" in norm(x) for x in ast.walk(n.ast))}
        starts = [s for s in cfg.g.successors(loop.id) if cfg.g[loop.id][s].get("pol") is False] + [b.id for b in breaks]
        h2 = cfg.g.copy()
        h2.remove_nodes_from([w for w in warn_nodes])
        silent_paths = 0
        unjustified = None
        for s0 in starts:
            if s0 not in h2 or cfg.exit not in h2:
                continue
            for path in list(nx.all_simple_paths(h2, s0, cfg.exit, cutoff=60))[:400] if s0 != cfg.exit else [[s0]]:
                if any(_inside(loop_ast, cfg.nodes[x].ast) for x in path[1:] if cfg.nodes[x].ast is not None):
                    continue  # went back into the loop: judged from the exit it finally takes
                silent_paths += 1
                ok_ = False
                conds_txt = []
                for a_, b_ in zip(path, path[1:]):
                    nd = cfg.nodes[a_]
                    pol = cfg.g[a_][b_].get("pol")
                    if nd.kind != "test" or pol is None:
                        continue
                    alts_ = alternatives(nd.ast, pol)
                    conds_txt.append(("" if pol else "not ") + nd.label[:60])
                    if alts_ and all(any(justifies(l) for l in alt) for alt in alts_):
                        ok_ = True
                if not ok_ and unjustified is None:
                    unjustified = conds_txt
        sample = {"silent_paths_from_the_loop_to_a_return": silent_paths, "justified_by": f"{R.reached} set, or {bound} == 0"}
        if unjustified is None and silent_paths:
            rep.ok("C08.W", sample)
        elif unjustified is not None:
            rep.bad("C08.W", Finding(PROP, "C08.W", F, "silent return not justified by the tolerance-reached flag",
                                     "linear_cg can return without a NumericalWarning on a path where neither the tolerance was reached "
                                     f"nor the iteration budget was zero (conditions on the path: {'; '.join(unjustified) or 'none'}): an "
                                     "unconverged solve is returned silently", cg0.loc(warn_tests[0].ast)), sample)

    # ---------------------------------------------------------------- L
    # the tridiagonal matrix that is returned is the buffer the recurrence filled: between the end of the iteration and the
    # return it is only sliced / permuted / copied, never re-computed (added to, scaled, jittered) and never written in place
    rep.rule("C08.L", "the returned tridiagonal matrix is the recorded buffer, only re-laid-out after the iteration", floor=1)
    LAYOUT = {"permute", "contiguous", "transpose", "clone", "view", "reshape", "narrow", "squeeze", "unsqueeze", "movedim", "to",
              "detach", "expand", "flatten", "unflatten", "select", "type", "double", "float"}
    rd_l = ReachingDefs(cg, reads=value_reads)

    def layout_sources(e: ast.AST, nid: int, depth: int = 0) -> Set[str]:
        if depth > 12:
            return {"?"}
        if isinstance(e, ast.Subscript):
            return layout_sources(e.value, nid, depth + 1)
        if isinstance(e, ast.Attribute) and e.attr in ("mT", "T", "mH"):
            return layout_sources(e.value, nid, depth + 1)
        if isinstance(e, ast.Call) and isinstance(e.func, ast.Attribute) and e.func.attr in LAYOUT and not (dotted(e.func) or "").startswith("torch."):
            return layout_sources(e.func.value, nid, depth + 1)
        if isinstance(e, ast.Call) and dotted(e.func) in ("torch.zeros", "torch.empty", "torch.zeros_like", "torch.empty_like"):
            return {"buffer"}
        if isinstance(e, ast.Call) and dotted(e.func) in ("torch.permute", "torch.transpose", "torch.squeeze", "torch.unsqueeze", "torch.narrow",
                                                            "torch.clone", "torch.movedim", "torch.reshape") and e.args:
            return layout_sources(e.args[0], nid, depth + 1)
        if isinstance(e, ast.Constant) and e.value is None:
            return {"none"}  # a placeholder on the path where no tridiagonal matrix was requested
        if isinstance(e, ast.IfExp):
            return layout_sources(e.body, nid, depth + 1) | layout_sources(e.orelse, nid, depth + 1)
        if isinstance(e, ast.Call) and isinstance(e.func, ast.Name) and e.func.id in cg0.module.functions and depth < 6 \
                and not any(isinstance(a_, ast.Starred) for a_ in e.args):
            # a same-module helper in expression position (return result, _finalize_tridiag(t_mat, ...)): what it returns, its
            # parameters standing for the arguments
            h = cg0.module.functions[e.func.id]
            hp = h.params()
            binding = {p_: a_ for p_, a_ in zip(hp, e.args)}
            binding.update({k.arg: k.value for k in e.keywords if k.arg in hp})
            rd_h = ReachingDefs(h, reads=value_reads)
            out_h: Set[str] = set()
            for r_ in [n for n in walk_body(h) if isinstance(n, ast.Return) and n.value is not None]:
                nid_h = rd_h.node_of(r_)
                out_h |= helper_sources(r_.value, nid_h, rd_h, binding, nid, depth + 1) if nid_h is not None else {"?"}
            return out_h or {"?"}
        if isinstance(e, ast.Name):
            out: Set[str] = set()
            for d, i_ in rd_l.IN.get(nid, {}).get(e.id, ()):
                st = rd_l.cfg.nodes[d].ast
                name_, _r, strong = rd_l.defs[d][i_]
                if strong and isinstance(st, ast.Assign) and len(st.targets) == 1 and isinstance(st.targets[0], ast.Name):
                    out |= layout_sources(st.value, d, depth + 1)
                elif not strong:
                    # an in-place write / out= / subscript store: the recurrence inside the loop, anything else after it
                    out.add("buffer" if _inside(loop_ast, st) or not any(_inside(s_, st) for s_ in R.post) else "written-after:" + short(st, 50))
                else:
                    out.add("?")
            return out or {"?"}
        return {"computed:" + short(e, 50)}

    def helper_sources(e: ast.AST, nid_h: int, rd_h, binding, nid_caller: int, depth: int) -> Set[str]:
        """layout_sources inside a helper: its own definitions first, parameters resolved at the call site"""
        if depth > 12:
            return {"?"}
        if isinstance(e, ast.Subscript):
            return helper_sources(e.value, nid_h, rd_h, binding, nid_caller, depth + 1)
        if isinstance(e, ast.Attribute) and e.attr in ("mT", "T", "mH"):
            return helper_sources(e.value, nid_h, rd_h, binding, nid_caller, depth + 1)
        if isinstance(e, ast.Call) and isinstance(e.func, ast.Attribute) and e.func.attr in LAYOUT and not (dotted(e.func) or "").startswith("torch."):
            return helper_sources(e.func.value, nid_h, rd_h, binding, nid_caller, depth + 1)
        if isinstance(e, ast.Call) and dotted(e.func) in ("torch.permute", "torch.transpose", "torch.squeeze", "torch.unsqueeze", "torch.narrow",
                                                            "torch.clone", "torch.movedim", "torch.reshape") and e.args:
            return helper_sources(e.args[0], nid_h, rd_h, binding, nid_caller, depth + 1)
        if isinstance(e, ast.Name):
            defs_ = rd_h.IN.get(nid_h, {}).get(e.id, ())
            out: Set[str] = set()
            for d, i_ in defs_:
                st = rd_h.cfg.nodes[d].ast
                _n, _r, strong = rd_h.defs[d][i_]
                if strong and isinstance(st, ast.Assign) and len(st.targets) == 1 and isinstance(st.targets[0], ast.Name):
                    out |= helper_sources(st.value, d, rd_h, binding, nid_caller, depth + 1)
                else:
                    out.add("written-after:" + short(st, 50) if not strong else "?")
            if not defs_ or e.id in binding and not any(rd_h.defs[d][i_][2] for d, i_ in defs_):
                if e.id in binding:
                    out |= layout_sources(binding[e.id], nid_caller, depth + 1)
                elif not defs_:
                    out.add("?")
            return out or {"?"}
        return {"computed:" + short(e, 50)}

    n_l = 0
    for r in R.returns:
        if not (isinstance(r.value, ast.Tuple) and len(r.value.elts) >= 2):
            continue
        nid_r = rd_l.node_of(r)
        if nid_r is None:
            continue
        n_l += 1
        src = layout_sources(r.value.elts[1], nid_r)
        bad_src = sorted(x for x in src if x.startswith(("computed:", "written-after:")))
        sample = {"returned": short(r.value.elts[1], 60), "sources": sorted(src)}
        if bad_src:
            rep.bad("C08.L", Finding(PROP, "C08.L", F, "returned tridiagonal matrix re-computed after the iteration",
                                     f"the tridiagonal matrix returned by linear_cg is not the recorded buffer re-laid-out: {bad_src[0]}. "
                                     "The Lanczos coefficients are perturbed after the recurrence: the eigenvalues of T are no longer the Ritz "
                                     "values of the operator and the log-determinant quadrature is biased", cg0.loc(r)), sample)
        else:
            rep.ok("C08.L", sample)
    if "n_tridiag" in cg0.params() and n_l == 0:
        rep.error("linear_cg takes n_tridiag but no return hands back a (solution, tridiagonal matrices) tuple")

    # ---------------------------------------------------------------- D
    rep.rule("C08.D", "in-loop divisions by iteration quantities are guarded by a clamp of the denominator", floor=3)
    n_div = 0
    for node in cfg.stmt_nodes():
        if node.kind != "stmt" or not _inside(loop_ast, node.ast):
            continue
        for x in ast.walk(node.ast):
            den = None
            if isinstance(x, ast.Call) and dotted(x.func) in ("torch.div", "torch.true_divide") and len(x.args) >= 2:
                den = root_name(x.args[1])
            elif isinstance(x, ast.Call) and isinstance(x.func, ast.Attribute) and x.func.attr in ("div", "div_") and x.args \
                    and not (dotted(x.func) or "").startswith("torch."):
                den = root_name(x.args[0])
            elif isinstance(x, ast.BinOp) and isinstance(x.op, ast.Div):
                den = root_name(x.right)
            if den is None or den in cg.params():
                continue
            n_div += 1
            ok = None
            for d_id in cfg.dominators(node.id):
                dn = cfg.nodes[d_id]
                if dn.kind != "stmt" or not _inside(loop_ast, dn.ast):
                    continue
                ds = [(nm, rd_) for nm, rd_ in _defs_of(dn.ast) if nm == den]
                if not ds:
                    continue
                txt = norm(dn.ast)
                if any(k in txt for k in ("clamp_min", "clamp(")):
                    ok = short(dn.ast, 60)
                elif any(k in txt for k in ("masked_fill", "where(")):
                    # the mask must come from a comparison of the denominator itself
                    masks = {y.id for y in ast.walk(dn.ast) if isinstance(y, ast.Name)} - {den, "torch"}
                    for d2_id in cfg.dominators(dn.id):
                        d2 = cfg.nodes[d2_id]
                        if d2.kind != "stmt":
                            continue
                        for z in ast.walk(d2.ast):
                            p = _cmp_parts(z)
                            if p is not None and root_name(p[0]) == den:
                                tgt = root_name(p[2]) if p[2] is not None else (
                                    d2.ast.targets[0].id if isinstance(d2.ast, ast.Assign) and isinstance(d2.ast.targets[0], ast.Name) else None)
                                if tgt in masks:
                                    ok = f"{short(z, 40)} ; {short(dn.ast, 40)}"
                break
            sample = {"division": short(x, 70), "denominator": den, "guard": ok}
            if ok:
                rep.ok("C08.D", sample)
            else:
                rep.bad("C08.D", Finding(PROP, "C08.D", F, "unguarded division by " + den + ": " + norm(x),
                                         f"`{short(x, 70)}` divides by `{den}`, whose closest definition in the iteration is not a clamp "
                                         "away from zero (lt(den, eps) -> masked_fill(mask, 1), clamp_min): a zero curvature / residual "
                                         "yields inf or NaN in the iterate", cg0.loc(x)), sample)
    if n_div < 2:
        rep.error(f"only {n_div} in-loop divisions found in linear_cg (expected >= 2)")

    # ---------------------------------------------------------------- M
    rep.rule("C08.M", "the convergence measure is a function of the residual; zero-column threshold and the tridiagonal "
                      "stop are column-wise correct", floor=3)
    rd = ReachingDefs(cg, reads=value_reads)
    state_vars: Set[str] = set()
    for nid_, dl in rd.defs.items():
        for (dn_, r_, strong) in dl:
            if not strong or dn_ in r_:
                state_vars.add(dn_)
    STOP = {R.residual, R.rhs_is_zero}

    def leaves(nid: int, name: str) -> Set[str]:
        out: Set[str] = set()
        seen: Set[tuple] = set()

        def resolve(x: str, at: int, depth: int) -> None:
            if "." in x:
                base = x.split(".")[0]
                if base in ("self", "settings", "torch"):
                    if base != "torch":
                        out.add(x)
                    return
                x = base
            if x == "torch":
                return
            if x in STOP:
                out.add(x)
                return
            ds = rd.IN.get(at, {}).get(x, frozenset())
            if not ds or depth > 6:
                out.add(x)
                return
            if x not in state_vars and all(rd.defs[m_][i][2] for (m_, i) in ds) and len(ds) == 1:
                (m_, i), = ds
                if (m_, i) in seen:
                    return
                seen.add((m_, i))
                for y in rd.defs[m_][i][1]:
                    if y != x:
                        resolve(y, m_, depth + 1)
            else:
                out.add(x)

        for (m_, i) in rd.IN.get(nid, {}).get(name, frozenset()):
            for y in rd.defs[m_][i][1]:
                if y != name and not y.startswith(name + "."):
                    resolve(y, m_, 0)
        return out

    n_m1 = 0
    for node in rd.cfg.stmt_nodes():
        if node.kind != "stmt" or not _inside(loop_ast, node.ast):
            continue
        if any(nm == R.has_converged and R.residual_norm in rdset for nm, rdset in _defs_of(node.ast)):
            n_m1 += 1
            lv = {x for x in leaves(node.id, R.residual_norm) if x not in ("torch", R.residual_norm)}
            allowed = STOP | {"eps", "stop_updating_after", "tolerance"}
            state = lv - allowed
            sample = {"convergence_test": short(node.ast, 70), "residual_norm_computed_from": sorted(lv)}
            if R.residual in lv and not state:
                rep.ok("C08.M", sample)
            else:
                rep.bad("C08.M", Finding(PROP, "C08.M", F, "convergence norm computed from " + ", ".join(sorted(state or lv)),
                                         f"inside the iteration the norm that decides convergence is computed from {sorted(state) or sorted(lv)}, "
                                         "not from the residual itself: with a preconditioner r^T M^-1 r is not ||r||^2, so the solver stops "
                                         "(silently) although the residual is above the tolerance, and the answer depends on the preconditioner",
                                         cg0.loc(node.ast)), sample)
    if n_m1 == 0:
        rep.error("no in-loop convergence update found for rule M")
    # M2: threshold of the zero-column test
    for node in rd.cfg.stmt_nodes():
        if node.kind != "stmt" or not isinstance(node.ast, ast.Assign) or _inside(loop_ast, node.ast):
            continue
        if any(isinstance(t, ast.Name) and t.id == R.rhs_is_zero for t in node.ast.targets):
            p = _cmp_parts(node.ast.value)
            if p is None:
                rep.note(f"{R.rhs_is_zero} defined by `{short(node.ast.value)}`: not a recognised comparison")
                continue
            dep = rd.closure(node.id, value_reads(p[1]))
            sample = {"zero_column_test": short(node.ast, 70), "threshold_depends_on": sorted(x for x in dep if x != "torch")}
            if {"rhs", R.rhs_norm} & dep:
                rep.bad("C08.M", Finding(PROP, "C08.M", F, "zero-column threshold depends on the right-hand side",
                                         f"`{short(node.ast, 70)}`: the threshold below which a column counts as zero depends on the "
                                         "right-hand side itself (other columns): an all-zero rhs is no longer masked (0/0 -> NaN) and a small "
                                         "column next to a large one is frozen - columns are no longer independent, the answer no longer "
                                         "scales linearly", cg0.loc(node.ast)), sample)
            else:
                rep.ok("C08.M", sample)
    # M3: a recording flag switched off inside the loop: only when EVERY column satisfies the stop condition
    for node in cfg.stmt_nodes():
        if node.kind == "stmt" and isinstance(node.ast, ast.Assign) and _inside(loop_ast, node.ast) and len(node.ast.targets) == 1 \
                and isinstance(node.ast.targets[0], ast.Name) and isinstance(node.ast.value, ast.Constant) and node.ast.value.value is False:
            flag = node.ast.targets[0].id
            if flag == R.reached:
                continue
            tests = [t for t in controlling_tests(cfg, node.id) if _inside(loop_ast, t.ast)]
            known = [(t, _quantifier(t.ast)) for t in tests if _quantifier(t.ast) is not None]
            if not known:
                continue
            t, q = known[0]
            sample = {"flag": flag, "stop_recording_when": t.label[:70], "quantifier_over_columns": q}
            if q == "all":
                rep.ok("C08.M", sample)
            else:
                rep.bad("C08.M", Finding(PROP, "C08.M", F, f"{flag} = False under an existential test",
                                         f"the tridiagonal matrices stop being recorded as soon as ANY column's off-diagonal entry "
                                         f"vanishes (`{t.label[:60]}`): the Lanczos matrices of all other columns are truncated", cg0.loc(node.ast)), sample)

        # the same decision written as an expression: flag = not (X.max() < c)  (flag goes False exactly when the test holds)
        if node.kind == "stmt" and isinstance(node.ast, ast.Assign) and _inside(loop_ast, node.ast) and len(node.ast.targets) == 1 \
                and isinstance(node.ast.targets[0], ast.Name) and isinstance(node.ast.value, ast.UnaryOp) and isinstance(node.ast.value.op, ast.Not):
            q = _quantifier(node.ast.value.operand)
            if q is None:
                continue
            sample = {"flag": node.ast.targets[0].id, "stop_recording_when": short(node.ast.value.operand, 70), "quantifier_over_columns": q}
            if q == "all":
                rep.ok("C08.M", sample)
            else:
                rep.bad("C08.M", Finding(PROP, "C08.M", F, "recording flag cleared under an existential test",
                                         f"the tridiagonal matrices stop being recorded as soon as ANY column's off-diagonal entry "
                                         f"vanishes (`{short(node.ast.value.operand, 60)}`): the Lanczos matrices of all other columns are "
                                         "truncated", cg0.loc(node.ast)), sample)

    if selftest:
        from ..selftest import run_fixtures

        run_fixtures(rep, PROP)
