"""C08 - conjugate gradients (structural skeleton; convergence and Lanczos identities are numerical).

Each rule is a necessary condition of one clause of the property, decided by dependence / dominance on the CFG of
``linear_cg`` and its two jit helpers:

    Z  frozen columns, in BOTH the preconditioned branch and the un-preconditioned helper (sibling agreement): the step
       length is masked by ``has_converged`` before the residual and the iterate are updated with it
    S  zero columns and scaling: the convergence mask depends on ``rhs_is_zero``; the returned iterate depends on
       ``rhs_norm`` (un-normalisation) and the right-hand side is normalised by it
    E  error paths: ``max_tridiag_iter > max_iter`` and a NaN first residual raise before the iteration starts
    X  early exit: the ``break`` is controlled by the tolerance and the residual norm, and ``tolerance_reached`` is set
       only there
    W  the NumericalWarning test (not tolerance_reached and iterations were run) lies on every path from the loop to a
       return
    D  safe division: every division by an iteration quantity is preceded by ``lt(den, eps) -> masked_fill_(mask, 1)``
"""
from __future__ import annotations

import ast
from typing import Dict, List, Optional, Set

import networkx as nx

from ..cfg import CFG, Node
from ..deps import dependence, reads, root_name, statement_defs, subtree_nodes
from ..index import AnalysisError, FunctionInfo, ProgramIndex, dotted, norm, short, walk_body
from ..report import Finding, Report

PROP = "C08"
MOD = "linear_operator.utils.linear_cg"


def fname(fn: FunctionInfo) -> str:
    return fn.qualname.replace("linear_operator.", "", 1)


def controlling_tests(cfg: CFG, nid: int) -> List[Node]:
    return [cfg.nodes[d] for d in cfg.dominators(nid) if cfg.nodes[d].kind == "test"]


def _inside(outer: ast.AST, inner: ast.AST) -> bool:
    return any(x is inner for x in ast.walk(outer))


def _defs_of(st: ast.AST):
    out = []
    for x in ast.walk(st):
        out += statement_defs(x)
    return out


def _quantifier(test: ast.AST) -> Optional[str]:
    """Is a threshold test on a tensor of per-column values universally or existentially quantified?
    X.max() < c, (X < c).all(), torch.all(X < c) -> 'all';  X.min() < c, (X < c).any(), torch.any(X < c) -> 'any'."""
    t = test
    if isinstance(t, ast.Call) and dotted(t.func) == "bool" and t.args:
        t = t.args[0]
    if isinstance(t, ast.Compare) and len(t.ops) == 1 and isinstance(t.ops[0], (ast.Lt, ast.LtE, ast.Gt, ast.GtE)):
        less = isinstance(t.ops[0], (ast.Lt, ast.LtE))
        l = t.left
        if isinstance(l, ast.Call) and isinstance(l.func, ast.Attribute) and l.func.attr in ("max", "amax"):
            return "all" if less else "any"
        if isinstance(l, ast.Call) and isinstance(l.func, ast.Attribute) and l.func.attr in ("min", "amin"):
            return "any" if less else "all"
        return None
    if isinstance(t, ast.Call) and isinstance(t.func, ast.Attribute) and t.func.attr in ("all", "any") and not t.args:
        return t.func.attr
    if isinstance(t, ast.Call) and dotted(t.func) in ("torch.all", "torch.any"):
        return dotted(t.func).split(".")[-1]
    return None


def safe_division_sites(fn: FunctionInfo, rep: Report, rule: str):
    """torch.div(num, den, out=...) / den-based divisions: den must have been clamped away from zero first."""
    cfg = CFG(fn)
    n_sites = 0
    for node in cfg.stmt_nodes():
        if node.kind != "stmt":
            continue
        for x in ast.walk(node.ast):
            den = None
            if isinstance(x, ast.Call) and dotted(x.func) == "torch.div" and len(x.args) >= 2 and isinstance(x.args[1], ast.Name):
                den = x.args[1].id
            if den is None:
                continue
            n_sites += 1
            # a dominating `den.masked_fill_(mask, 1)` whose mask was produced by torch.lt(den, eps, out=mask) / den.lt(eps)
            ok = None
            doms = [cfg.nodes[d] for d in cfg.dominators(node.id)]
            for d in doms:
                if d.kind != "stmt":
                    continue
                for y in ast.walk(d.ast):
                    if (isinstance(y, ast.Call) and isinstance(y.func, ast.Attribute) and y.func.attr in ("masked_fill_", "clamp_min_")
                            and root_name(y.func.value) == den):
                        if y.func.attr == "clamp_min_":
                            ok = short(y)
                            continue
                        mask = y.args[0].id if y.args and isinstance(y.args[0], ast.Name) else None
                        fill = y.args[1] if len(y.args) > 1 else None
                        if mask is None or not (isinstance(fill, ast.Constant) and fill.value == 1):
                            continue
                        # mask defined from a comparison of den with eps, earlier
                        for d2 in doms:
                            if d2.kind != "stmt":
                                continue
                            for z in ast.walk(d2.ast):
                                if isinstance(z, ast.Call) and dotted(z.func) in ("torch.lt", "torch.le") and z.args \
                                        and root_name(z.args[0]) == den and any(
                                            k.arg == "out" and root_name(k.value) == mask for k in z.keywords):
                                    ok = f"{short(z, 50)} ; {short(y, 50)}"
            sample = {"function": fname(fn), "division": short(x, 70), "guard": ok}
            if ok:
                rep.ok(rule, sample)
            else:
                rep.bad(rule, Finding(PROP, rule, fname(fn), norm(x),
                                      f"{fname(fn)}: `{short(x, 70)}` divides by `{den}` without the preceding safe-division "
                                      "idiom (lt(den, eps) -> masked_fill_(mask, 1)): a zero curvature / residual yields inf or NaN "
                                      "in the iterate", fn.loc(x)))
    return n_sites


def stopping_rules_for(idx: ProgramIndex, rep: Report, prop: str, rule: str) -> None:
    """Re-emit, under another property's rule id, the C08 rules that decide WHEN the solver stops and says so (M: the
    convergence measure is the residual; X: the early exit is controlled by tolerance and residual norm; W: the warning
    test lies on every path): they are the structural part of `a CG solve meets the configured tolerance or warns`."""
    sub = Report("C08", "quick", rep.root)
    sub.quiet = True
    run(idx, sub, "quick", selftest=False)
    n = 0
    for rname in ("C08.M", "C08.X", "C08.W"):
        st = sub.rules.get(rname)
        if st is None:
            continue
        bad = [f for f in sub.findings if f.rule == rname]
        for _ in range(max(st.instances - len(bad), 0)):
            rep.count(rule)
            n += 1
        for f in bad:
            n += 1
            rep.bad(rule, Finding(prop, rule, f.function, f.construct, f"[{rname}] {f.message}", f.loc))
    for e in sub.errors:
        rep.error(f"linear_cg stopping rules: {e}")


def run(idx: ProgramIndex, rep: Report, tier: str, selftest: bool = True):
    rep.extra["explanation"] = (
        "Dependence and dominance rules over the CFGs of linear_cg and its two jit helpers. They decide, for all inputs, "
        "the control / data skeleton that the property's clauses presuppose: converged columns are frozen by masking the "
        "step length in both sibling code paths; zero right-hand sides are masked and the answer is un-normalised by the "
        "right-hand-side norm; inconsistent iteration limits and a NaN first residual raise before iterating; the early "
        "exit is controlled by tolerance and residual norm; the NumericalWarning test lies on every path to a return; "
        "every division by an iteration quantity is guarded. Backward dependence treats in-place methods and out= "
        "keywords as definitions. NOT decided (numerical): monotone A-norm error, the Chebyshev bound, that t_mat is the "
        "Lanczos matrix, preconditioner independence."
    )
    rep.assumptions += ["in-place tensor methods and out= keywords define their target (dependence model)",
                        "input immutability of linear_cg is decided by C13"]
    m = idx.modules.get(MOD)
    if m is None:
        raise AnalysisError(f"{MOD} not found")
    cg = m.functions.get("linear_cg")
    if cg is None:
        raise AnalysisError("linear_cg not found")
    helpers = [f for f in m.functions.values() if f is not cg and any(
        isinstance(n, ast.Call) and dotted(n.func) in ("torch.addcmul", "torch.div") for n in walk_body(f))]
    if len(helpers) < 2:
        raise AnalysisError(f"expected the two jit update helpers in {MOD}, found {[h.name for h in helpers]}")
    cfg = CFG(cg)
    loops = [n for n in cfg.nodes.values() if n.kind == "iter"]
    if not loops:
        raise AnalysisError("iteration loop not found in linear_cg")
    loop = loops[0]
    deps = dependence(cg)

    # ---------------------------------------------------------------- Z
    rep.rule("C08.Z", "converged columns are frozen in both update paths", floor=4)
    noprec = next((h for h in helpers if "has_converged" in h.params()), None)
    upd = next((h for h in helpers if h is not noprec), None)
    if noprec is None or upd is None:
        raise AnalysisError("cannot tell the preconditioned / un-preconditioned update helpers apart")
    # (i) un-preconditioned helper
    d1 = dependence(noprec)
    for var in ("alpha", "residual"):
        ok = "has_converged" in d1.get(var, set())
        if ok:
            rep.ok("C08.Z", {"path": fname(noprec), "variable": var, "depends_on": "has_converged"})
        else:
            rep.bad("C08.Z", Finding(PROP, "C08.Z", fname(noprec), f"{var} independent of has_converged",
                                     f"{fname(noprec)}: the update of `{var}` does not depend on `has_converged`: columns that "
                                     "have converged keep changing (un-preconditioned path)", noprec.loc()))
    # (ii) the preconditioned branch inside linear_cg's loop
    branch = None
    for n in ast.walk(loop.ast):
        if isinstance(n, ast.If) and norm(n.test) in ("precond", "not precond"):
            branch = n.body if norm(n.test) == "precond" else n.orelse
    if branch is None:
        raise AnalysisError("`if precond:` branch not found in the CG loop")
    d2 = dependence(cg, subtree_nodes(branch))
    for var in ("alpha", "residual"):
        ok = "has_converged" in d2.get(var, set())
        if ok:
            rep.ok("C08.Z", {"path": "linear_cg [preconditioned branch]", "variable": var, "depends_on": "has_converged"})
        else:
            rep.bad("C08.Z", Finding(PROP, "C08.Z", fname(cg) + " [preconditioned branch]", f"{var} independent of has_converged",
                                     f"linear_cg, preconditioned branch: the update of `{var}` does not depend on "
                                     "`has_converged` although the un-preconditioned sibling masks it: converged columns keep "
                                     "changing when a preconditioner is given", cg.loc(branch[0])))
    d3 = dependence(upd)
    if "alpha" in d3.get("result", set()) and "curr_conjugate_vec" in d3.get("result", set()):
        rep.ok("C08.Z", {"path": fname(upd), "variable": "result", "depends_on": "alpha (masked step length)"})
    else:
        rep.bad("C08.Z", Finding(PROP, "C08.Z", fname(upd), "result independent of alpha",
                                 f"{fname(upd)}: the iterate update does not use the masked step length `alpha`", upd.loc()))
    # has_converged itself is recomputed from the residual norm each iteration
    if "residual_norm" in deps.get("has_converged", set()) and "stop_updating_after" in deps.get("has_converged", set()):
        rep.ok("C08.Z", {"variable": "has_converged", "depends_on": ["residual_norm", "stop_updating_after"]})
    else:
        rep.bad("C08.Z", Finding(PROP, "C08.Z", fname(cg), "has_converged not derived from residual_norm",
                                 "has_converged is not recomputed from the residual norm and the freeze threshold", cg.loc()))

    # ---------------------------------------------------------------- S
    rep.rule("C08.S", "zero columns are masked and the answer scales with the right-hand side", floor=3)
    # S1: every in-loop recomputation of has_converged from residual_norm sees a residual norm whose closest dominating
    #     definition is the zero-column mask
    n_s1 = 0
    for node in cfg.stmt_nodes():
        if node.kind != "stmt" or not _inside(loop.ast, node.ast):
            continue
        for name, rd in _defs_of(node.ast):
            if name != "has_converged" or "residual_norm" not in rd:
                continue
            n_s1 += 1
            closest = None
            for d in cfg.dominators(node.id):
                dn = cfg.nodes[d]
                if d == node.id or dn.kind != "stmt":
                    continue
                dd = [r for nm, r in _defs_of(dn.ast) if nm == "residual_norm"]
                if dd:
                    closest = (dn, dd)
                    break
            if closest and any("rhs_is_zero" in r for r in closest[1]) and "masked_fill" in norm(closest[0].ast):
                rep.ok("C08.S", {"has_converged_from": short(node.ast, 70), "residual_norm_last_defined_by": short(closest[0].ast, 60)})
            else:
                rep.bad("C08.S", Finding(PROP, "C08.S", fname(cg), "residual_norm not masked by rhs_is_zero before " + norm(node.ast),
                                         "inside the iteration the residual norm that decides convergence is not masked by "
                                         "rhs_is_zero: the (0/0) residual of a zero right-hand-side column keeps the solver iterating "
                                         "/ pollutes the mean residual", cg.loc(node.ast)))
    if n_s1 == 0:
        rep.bad("C08.S", Finding(PROP, "C08.S", fname(cg), "has_converged never recomputed in the loop",
                                 "has_converged is not recomputed from residual_norm inside the iteration", cg.loc(loop.ast)))
    # S2: the statements AFTER the loop make the returned iterate depend on rhs_norm (un-normalisation)
    body = cg.body()
    li = next((i for i, s_ in enumerate(body) if s_ is loop.ast or any(x is loop.ast for x in ast.walk(s_))), None)
    if li is None:
        raise AnalysisError("cannot locate the CG loop among linear_cg's top-level statements")
    post = dependence(cg, subtree_nodes(body[li + 1:]))
    rets = [n for n in walk_body(cg) if isinstance(n, ast.Return) and n.value is not None]
    for r in rets:
        first = r.value.elts[0] if isinstance(r.value, ast.Tuple) else r.value
        names = reads(first)
        dd = set().union(*[post.get(nm, set()) | {nm} for nm in names]) if names else set()
        if "rhs_norm" in dd:
            rep.ok("C08.S", {"return": short(r, 60), "depends_on": "rhs_norm (un-normalised after the loop)"})
        else:
            rep.bad("C08.S", Finding(PROP, "C08.S", fname(cg), norm(r) + " [rhs_norm]",
                                     "after the iteration the returned iterate is not multiplied back by rhs_norm: the answer of "
                                     "the normalised system is returned, i.e. the result does not scale with the right-hand side",
                                     cg.loc(r)))
    if "rhs_norm" in deps.get("rhs", set()):
        rep.ok("C08.S", {"rhs_normalised_by": "rhs_norm"})
    else:
        rep.bad("C08.S", Finding(PROP, "C08.S", fname(cg), "rhs not normalised", "rhs is not divided by its norm", cg.loc()))

    # ---------------------------------------------------------------- E
    rep.rule("C08.E", "inconsistent limits and a NaN first residual raise before iterating", floor=2)
    raises = [n for n in cfg.stmt_nodes() if n.kind == "stmt" and isinstance(n.ast, ast.Raise)]
    found_limits = found_nan = False
    for r in raises:
        tests = controlling_tests(cfg, r.id)
        if not tests:
            continue
        t = tests[0]
        dominates_loop = t.id in cfg.dominators(loop.id)
        names = reads(t.ast)
        if {"max_tridiag_iter", "max_iter"} <= names and dominates_loop:
            found_limits = True
        if "residual" in names and ("equal" in norm(t.ast) or "isnan" in norm(t.ast)) and dominates_loop:
            found_nan = True
    for ok, what, msg in ((found_limits, "max_tridiag_iter > max_iter", "a tridiagonalisation larger than the iteration budget is "
                           "not rejected before iterating"),
                          (found_nan, "NaN first residual", "a NaN in the first residual is not rejected before iterating: the "
                           "solver returns NaN instead of raising")):
        if ok:
            rep.ok("C08.E", {"raises_before_loop_on": what})
        else:
            rep.bad("C08.E", Finding(PROP, "C08.E", fname(cg), f"no raise on {what}", f"linear_cg: {msg}", cg.loc()))

    # ---------------------------------------------------------------- X
    rep.rule("C08.X", "the early exit is controlled by tolerance and residual norm", floor=2)
    breaks = [n for n in cfg.stmt_nodes() if n.kind == "stmt" and isinstance(n.ast, ast.Break)]
    if not breaks:
        rep.bad("C08.X", Finding(PROP, "C08.X", fname(cg), "no break", "the CG loop has no early exit", cg.loc()))
    for b in breaks:
        tests = controlling_tests(cfg, b.id)
        t = tests[0] if tests else None
        names = reads(t.ast) if t is not None else set()
        if t is not None and "tolerance" in names and "residual_norm" in names:
            rep.ok("C08.X", {"break_controlled_by": t.label[:90]})
        else:
            rep.bad("C08.X", Finding(PROP, "C08.X", fname(cg), "break: " + (t.label if t is not None else "unconditional"),
                                     "the early exit of the CG loop is not controlled by both the tolerance and the residual norm",
                                     cg.loc(b.ast)))
    sets = [n for n in cfg.stmt_nodes() if n.kind == "stmt" and isinstance(n.ast, ast.Assign) and any(
        isinstance(t, ast.Name) and t.id == "tolerance_reached" for t in n.ast.targets)
        and isinstance(n.ast.value, ast.Constant) and n.ast.value.value is True]
    for s_ in sets:
        tests = controlling_tests(cfg, s_.id)
        names = reads(tests[0].ast) if tests else set()
        if tests and "tolerance" in names and "residual_norm" in names:
            rep.ok("C08.X", {"tolerance_reached_set_under": tests[0].label[:90]})
        else:
            rep.bad("C08.X", Finding(PROP, "C08.X", fname(cg), "tolerance_reached = True",
                                     "tolerance_reached is set outside the tolerance test: the NumericalWarning is suppressed "
                                     "although the tolerance was not reached", cg.loc(s_.ast)))

    # ---------------------------------------------------------------- W
    rep.rule("C08.W", "the NumericalWarning test lies on every path from the loop to a return", floor=1)
    warn_tests = []
    for n in cfg.stmt_nodes():
        if n.kind == "stmt" and any(isinstance(x, ast.Call) and (dotted(x.func) or "").endswith("warn") and "NumericalWarning" in norm(x)
                                    for x in ast.walk(n.ast)):
            tests = controlling_tests(cfg, n.id)
            if tests and "tolerance_reached" in reads(tests[0].ast):
                warn_tests.append(tests[0])
    if not warn_tests:
        rep.bad("C08.W", Finding(PROP, "C08.W", fname(cg), "no NumericalWarning", "linear_cg never emits a NumericalWarning "
                                 "controlled by tolerance_reached", cg.loc()))
    else:
        wt = warn_tests[0]
        after_loop = [s for s in cfg.g.successors(loop.id) if cfg.g[loop.id][s].get("pol") is False] + [b.id for b in breaks]
        h = cfg.g.copy()
        h.remove_node(wt.id)
        skipping = [s for s in after_loop if s in h and nx.has_path(h, s, cfg.exit)]
        # breaks lead to the statement after the loop: follow their successor
        if skipping:
            rep.bad("C08.W", Finding(PROP, "C08.W", fname(cg), "warning test bypassed",
                                     "there is a path from the end of the iteration to a return that does not pass the "
                                     "`not tolerance_reached` test: an unconverged solve can return silently", cg.loc(wt.ast)))
        else:
            names = reads(wt.ast)
            if "n_iter" in names or "k" in names:
                rep.ok("C08.W", {"warning_test": wt.label[:80], "on_every_path_to_return": True})
            else:
                rep.bad("C08.W", Finding(PROP, "C08.W", fname(cg), wt.label, "the warning test does not consider whether any "
                                         "iteration was run", cg.loc(wt.ast)))

    # ---------------------------------------------------------------- D
    rep.rule("C08.D", "divisions by iteration quantities are guarded by the safe-division idiom", floor=3)
    total = 0
    for f in [cg] + helpers:
        total += safe_division_sites(f, rep, "C08.D")
    if total < 3:
        rep.error(f"only {total} torch.div sites found in linear_cg.py (expected >= 3)")

    # ---------------------------------------------------------------- M  (what is measured, quantifiers, thresholds)
    from ..deps import ReachingDefs, value_reads

    rep.rule("C08.M", "the convergence measure is a function of the residual; zero-column threshold and the tridiagonal "
                      "stop are column-wise correct", floor=3)
    rd = ReachingDefs(cg, reads=value_reads)

    # iteration state: anything updated in place / through out= anywhere, or re-bound from itself
    state_vars: Set[str] = set()
    for nid_, dl in rd.defs.items():
        nd_ = rd.cfg.nodes[nid_]
        for (dn, _r, strong) in dl:
            if not strong or dn in _r:
                state_vars.add(dn)

    def leaves(nid: int, name: str) -> Set[str]:
        """Direct inputs of the value of `name` at node nid, with temporaries (names ALL of whose reaching definitions
        are plain rebinding assignments) expanded down to iteration-state variables (written through out= / in place, or
        re-bound inside the loop from themselves), parameters and attributes of self."""
        out: Set[str] = set()
        seen: Set[tuple] = set()

        def resolve(x: str, at: int, depth: int) -> None:
            if "." in x:
                base = x.split(".")[0]
                if base in ("self", "settings", "torch"):
                    if base != "torch":
                        out.add(x)
                    return
                x = base
            if x == "torch":
                return
            if x in ("residual", "rhs_is_zero"):
                out.add(x)
                return
            ds = rd.IN.get(at, {}).get(x, frozenset())
            if not ds or depth > 6:
                out.add(x)
                return
            if x not in state_vars and all(rd.defs[m][i][2] for (m, i) in ds) and len(ds) == 1:
                (m, i), = ds
                if (m, i) in seen:
                    return
                seen.add((m, i))
                for y in rd.defs[m][i][1]:
                    if y != x:
                        resolve(y, m, depth + 1)
            else:
                out.add(x)

        for (m, i) in rd.IN.get(nid, {}).get(name, frozenset()):
            for y in rd.defs[m][i][1]:
                if y != name and not y.startswith(name + "."):
                    resolve(y, m, 0)
        return out

    # M1: every in-loop use of residual_norm for convergence reads a value computed from `residual`
    n_m1 = 0
    for node in cfg.stmt_nodes():
        if node.kind != "stmt" or not _inside(loop.ast, node.ast):
            continue
        if any(nm == "has_converged" and "residual_norm" in rdset for nm, rdset in _defs_of(node.ast)):
            n_m1 += 1
            lv = {x for x in leaves(node.id, "residual_norm") if x not in ("torch", "residual_norm")}
            state = {x for x in lv if x not in ("residual", "rhs_is_zero", "eps", "stop_updating_after", "tolerance")}
            sample = {"convergence_test": short(node.ast, 70), "residual_norm_computed_from": sorted(lv)}
            if "residual" in lv and not state:
                rep.ok("C08.M", sample)
            else:
                rep.bad("C08.M", Finding(PROP, "C08.M", fname(cg), "residual_norm computed from " + ", ".join(sorted(lv)),
                                         f"inside the iteration the norm that decides convergence is computed from {sorted(state) or sorted(lv)}, "
                                         "not from the residual itself: with a preconditioner r^T M^-1 r is not ||r||^2, so the solver stops "
                                         "(silently) although the residual is above the tolerance, and the answer depends on the preconditioner",
                                         cg.loc(node.ast)), sample)
    if n_m1 == 0:
        rep.error("no in-loop convergence update of has_converged from residual_norm found")
    # M2: the zero-column threshold does not depend on the right-hand side (columns are independent systems)
    for node in cfg.stmt_nodes():
        if node.kind != "stmt" or not isinstance(node.ast, ast.Assign):
            continue
        if any(isinstance(t, ast.Name) and t.id == "rhs_is_zero" for t in node.ast.targets):
            v = node.ast.value
            thr = None
            if isinstance(v, ast.Call) and isinstance(v.func, ast.Attribute) and v.func.attr in ("lt", "le") and v.args:
                thr = v.args[0]
            elif isinstance(v, ast.Call) and dotted(v.func) in ("torch.lt", "torch.le") and len(v.args) >= 2:
                thr = v.args[1]
            elif isinstance(v, ast.Compare) and len(v.comparators) == 1:
                thr = v.comparators[0]
            if thr is None:
                rep.note(f"rhs_is_zero defined by `{short(v)}`: threshold not recognised")
                continue
            dep = rd.closure(node.id, value_reads(thr))
            sample = {"zero_column_test": short(node.ast, 70), "threshold_depends_on": sorted(x for x in dep if x != "torch")}
            if {"rhs", "rhs_norm"} & dep:
                rep.bad("C08.M", Finding(PROP, "C08.M", fname(cg), "zero-column threshold depends on the right-hand side: " + norm(thr),
                                         f"`{short(node.ast, 70)}`: the threshold below which a column counts as zero depends on the "
                                         "right-hand side itself (other columns): an all-zero rhs is no longer masked (0/0 -> NaN) and a small "
                                         "column next to a large one is frozen - columns are no longer independent, the answer no longer "
                                         "scales linearly", cg.loc(node.ast)), sample)
            else:
                rep.ok("C08.M", sample)
    # M3: the tridiagonal recording stops only when EVERY column has broken down
    for node in cfg.stmt_nodes():
        if node.kind == "stmt" and isinstance(node.ast, ast.Assign) and any(
                isinstance(t, ast.Name) and t.id == "update_tridiag" for t in node.ast.targets) \
                and isinstance(node.ast.value, ast.Constant) and node.ast.value.value is False:
            tests = controlling_tests(cfg, node.id)
            if not tests:
                continue
            q = _quantifier(tests[0].ast)
            sample = {"stop_recording_when": tests[0].label[:70], "quantifier_over_columns": q}
            if q == "all":
                rep.ok("C08.M", sample)
            elif q == "any":
                rep.bad("C08.M", Finding(PROP, "C08.M", fname(cg), "update_tridiag = False under " + tests[0].label,
                                         f"the tridiagonal matrices stop being recorded as soon as ANY column's off-diagonal entry "
                                         f"vanishes (`{tests[0].label[:60]}`): the Lanczos matrices of all other columns are truncated", cg.loc(node.ast)), sample)
            else:
                rep.note(f"update_tridiag stop condition `{tests[0].label}`: quantifier not recognised")

    if selftest:
        from ..selftest import run_fixtures

        run_fixtures(rep, PROP)
