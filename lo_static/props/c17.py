"""C17 - settings contexts are properly scoped and never leak.

Typestate / effect analysis of the context-manager protocol of every class in
``linear_operator/settings.py`` and ``linear_operator/beta_features.py``.

The three tiny methods ``__init__`` / ``__enter__`` / ``__exit__`` (plus the classmethod getters and
setters they call, inlined through the statically computed MRO) are abstracted to a sequence of
*effects* over abstract values:

    Slot(s)        the content of class slot ``s`` at the time of the read
    Inst(a)        the instance attribute ``self.a``
    Pop(a)         the value popped from the per-instance list ``self.a``
    Param(p)       a constructor parameter
    effects:       Push(a, v) | SetAttr(a, v) | SlotWrite(s, v, conditional-on)

Rules (DESIGN.md section 3, C17):
    S0  entry takes effect: ``__enter__`` writes the value given at construction into the slot
    S1  the value restored on exit was read from the slot in ``__enter__`` before the write, not in ``__init__``
    S2  the capture is per entry (push in enter / pop in exit) so a re-entered object nests
    S3  the restoring write is unconditional (a previous ``None`` is written back)
    S4  ``__exit__`` accepts the three exception arguments, cannot skip the restore, returns a falsy constant
    S5  slot isolation: writes go through ``cls`` (never a named class); ``_set_state`` overrides chain to
        super() unconditionally with their own parameter; per-dtype getter / setter / constructor keywords agree
    S6  composites enter and exit the same sub-contexts, each exactly once
    S7  no settings value is read in a default argument or at module / class level anywhere in the package
"""
from __future__ import annotations

import ast
from typing import Any, Dict, List, Optional, Tuple

from ..index import AnalysisError, ClassInfo, FunctionInfo, ProgramIndex, dotted, norm, short, walk_no_nested
from ..report import Finding, Report

PROP = "C17"
SETTINGS_MODULES = ("linear_operator.settings", "linear_operator.beta_features")
SETTINGS_READERS = ("on", "off", "value", "is_default")


# ------------------------------------------------------------------------------------------------
# abstract evaluator for the tiny context-protocol methods
# ------------------------------------------------------------------------------------------------
class Unsupported(Exception):
    pass


class Ev:
    """Abstract evaluation of one protocol method of one concrete receiver class."""

    def __init__(self, idx: ProgramIndex, cls: ClassInfo, slots: set, report_unsupported=True):
        self.idx = idx
        self.cls = cls
        self.slots = slots
        self.effects: List[Tuple] = []  # ("push"|"setattr"|"slotwrite"|"call", ...)
        self.returns: List[Tuple[Any, List[str]]] = []
        self.depth = 0
        self.attr_values: Dict[str, Any] = {}  # instance attributes bound to a tuple / list display in __init__
        self.visited: set = set()  # qualified names of the functions inlined while evaluating
        self.stacks: List[List[str]] = []  # contextlib.ExitStack objects: the sub-contexts each currently holds

    # -- expressions -----------------------------------------------------------------------------
    def ev(self, e: ast.AST, env: Dict[str, Any], fn: FunctionInfo, conds: List[str]):
        if isinstance(e, ast.Constant):
            return ("const", e.value)
        if isinstance(e, ast.Name):
            if e.id in env:
                return env[e.id]
            if e.id in ("True", "False", "None"):
                return ("const", eval(e.id))
            q = self.idx.resolve_name(fn.module, e.id)
            if q and q in self.idx.classes:
                return ("namedclass", q)
            gv = fn.module.globals_.get(e.id) if hasattr(fn.module, "globals_") else None
            if isinstance(gv, (ast.Dict, ast.Tuple, ast.List)):
                try:  # a module-level table of constants (slot names per dtype ...)
                    return self.ev(gv, {}, fn, conds)
                except Unsupported:
                    pass
            return ("opaque", e.id)
        if isinstance(e, ast.Tuple):
            return ("tuple", [self.ev(x, env, fn, conds) for x in e.elts])
        if isinstance(e, ast.List):
            return ("list", [self.ev(x, env, fn, conds) for x in e.elts])
        if isinstance(e, ast.Attribute):
            d = dotted(e)
            if d and d.startswith("torch."):
                return ("const", d)
            base = self.ev(e.value, env, fn, conds)
            if base[0] == "self":
                if e.attr == "__class__":
                    return ("clsref",)
                if e.attr in self.slots:
                    return ("slot", e.attr)
                if e.attr in self.attr_values:
                    return self.attr_values[e.attr]
                return self._self_attr(e.attr, env, fn, conds)
            if base[0] == "clsref":
                if e.attr in self.slots:
                    return ("slot", e.attr)
                tbl = self._class_table(e.attr, env, fn, conds)
                if tbl is not None:
                    return tbl
                return ("clsattr", e.attr)
            if base[0] == "namedclass":
                return ("namedattr", base[1], e.attr)
            if base[0] == "opaque" and e.attr == "dtype":
                return base  # dtype.dtype of a dtype argument: keep
            return ("opaque", norm(e))
        if isinstance(e, ast.Subscript):
            base = self.ev(e.value, env, fn, conds)
            idxv = self.ev(e.slice, env, fn, conds)
            if base[0] == "tuple" and idxv[0] == "const" and isinstance(idxv[1], int):
                return base[1][idxv[1]]
            if base[0] == "dict" and idxv[0] == "const":
                for k_, v_ in base[1]:
                    if k_ == idxv:
                        return v_
                raise Unsupported(f"key {idxv[1]!r} not in the table {short(e.value, 40)}")
            if base[0] == "inst" and idxv == ("const", -1):
                # immutable-stack idiom: the top of self.S is read here, the stack is shrunk by self.S = self.S[:-1]
                self.effects.append(("peeked", base[1], list(conds), norm(e)))
                return ("pop", base[1])
            if base[0] == "inst" and idxv == ("slice", None, ("const", -1), None):
                return ("shrunk", base[1])
            if base[0] in ("pop", "inst") and idxv[0] == "const":
                return ("component", base, idxv[1])
            return ("opaque", norm(e))
        if isinstance(e, ast.Slice):
            return ("slice",) + tuple(self.ev(x, env, fn, conds) if x is not None else None for x in (e.lower, e.upper, e.step))
        if isinstance(e, ast.UnaryOp) and isinstance(e.op, ast.USub):
            v = self.ev(e.operand, env, fn, conds)
            if v[0] == "const" and isinstance(v[1], (int, float)) and not isinstance(v[1], bool):
                return ("const", -v[1])
            return ("opaque", norm(e))
        if isinstance(e, ast.BinOp) and isinstance(e.op, ast.Add):
            l_ = self.ev(e.left, env, fn, conds)
            r_ = self.ev(e.right, env, fn, conds)
            if l_[0] == "inst" and r_[0] in ("tuple", "list") and len(r_[1]) == 1:
                return ("pushed", l_[1], r_[1][0])  # self.S + (x,): becomes a push when assigned back to self.S
            return ("opaque", norm(e))
        if isinstance(e, ast.Call):
            return self.call(e, env, fn, conds)
        if isinstance(e, ast.Compare) and len(e.ops) == 1:
            l = self.ev(e.left, env, fn, conds)
            r = self.ev(e.comparators[0], env, fn, conds)
            op = e.ops[0]
            if l[0] == "const" and r[0] == "const":
                if isinstance(op, (ast.Eq, ast.Is)):
                    return ("const", l[1] == r[1])
                if isinstance(op, (ast.NotEq, ast.IsNot)):
                    return ("const", l[1] != r[1])
            if r == ("const", None) and l[0] in ("tuple", "list", "dict", "instance", "namedclass") and isinstance(op, (ast.Is, ast.IsNot, ast.Eq, ast.NotEq)):
                return ("const", isinstance(op, (ast.IsNot, ast.NotEq)))
            return ("opaque", norm(e))
        if isinstance(e, ast.UnaryOp) and isinstance(e.op, ast.Not):
            v = self.ev(e.operand, env, fn, conds)
            if v[0] == "const":
                return ("const", not v[1])
            return ("opaque", norm(e))
        if isinstance(e, ast.IfExp):
            t = self.ev(e.test, env, fn, conds)
            if t[0] == "const":
                return self.ev(e.body if t[1] else e.orelse, env, fn, conds)
            return ("ifexp", norm(e.test), self.ev(e.body, env, fn, conds), self.ev(e.orelse, env, fn, conds))
        if isinstance(e, ast.BoolOp):
            # operands after the first are evaluated only if the previous ones did not short-circuit
            for k, v in enumerate(e.values):
                self.ev(v, env, fn, conds if k == 0 else conds + [f"short-circuit of `{short(e, 40)}`"])
            return ("opaque", norm(e))
        if isinstance(e, (ast.GeneratorExp, ast.ListComp)) and len(e.generators) == 1:
            it = self.ev(e.generators[0].iter, env, fn, conds)
            if it[0] == "dict":
                it = ("list", [k_ for k_, _v in it[1]])
            if it[0] in ("tuple", "list"):
                lazy = env.get("#lazy")
                filt = [norm(c_) for c_ in e.generators[0].ifs]
                out_items = []
                for k, item in enumerate(it[1]):
                    env2 = dict(env)
                    self.assign(e.generators[0].target, item, env2, fn, conds, norm(e))
                    c2 = conds + [f"short-circuit of {lazy}()"] if (lazy and k > 0) else conds
                    v_ = self.ev(e.elt, env2, fn, c2 + filt)
                    out_items.append(("cond", filt, v_) if filt else v_)
                return ("list", out_items) if (isinstance(e, ast.ListComp) or env.get("#materialise")) else ("opaque", norm(e))
            raise Unsupported(f"comprehension over {short(e.generators[0].iter)}")
        if isinstance(e, ast.Dict) and e.keys and all(k is not None for k in e.keys):
            return ("dict", [(self.ev(k, env, fn, conds), self.ev(v, env, fn, conds)) for k, v in zip(e.keys, e.values)])
        if isinstance(e, (ast.JoinedStr, ast.BinOp, ast.Dict, ast.Starred)):
            return ("opaque", norm(e))
        raise Unsupported(f"expression {short(e)}")

    def _self_attr(self, attr: str, env, fn, conds):
        """self.<attr> that is neither a slot nor a tuple-valued attribute bound in __init__."""
        prop_ = self.idx.resolve_method(self.cls, attr)
        if prop_ is not None and prop_.is_property():
            return self.inline(prop_, [], {}, conds, via="self")
        tbl = self._class_table(attr, env, fn, conds)  # class-level table read through the instance (self._part_names)
        if tbl is not None and tbl[1] and all((x[0] == "const") if tbl[0] == "tuple" else (x[0][0] == "const") for x in tbl[1]):
            return tbl  # a non-empty table of constants; an (empty) class-level list is mutable state, not a table
        return ("inst", attr)

    def _class_table(self, attr: str, env, fn, conds):
        """A class attribute bound to a dict / tuple display of constants: ("dict", [(k, v)...]) / ("tuple", [...])."""
        for k in self.cls.mro:
            v = k.class_attrs.get(attr)
            if v is None:
                continue
            try:
                if isinstance(v, ast.Dict) and all(x is not None for x in v.keys):
                    return ("dict", [(self.ev(a, {}, fn, conds), self.ev(b, {}, fn, conds)) for a, b in zip(v.keys, v.values)])
                if isinstance(v, (ast.Tuple, ast.List)):
                    return ("tuple", [self.ev(a, {}, fn, conds) for a in v.elts])
            except Unsupported:
                return None
            return None
        return None

    def call(self, e: ast.Call, env, fn: FunctionInfo, conds):
        f = e.func
        # ---- table-driven slot access
        if isinstance(f, ast.Name) and f.id in ("getattr", "setattr") and len(e.args) >= 2:
            tgt = self.ev(e.args[0], env, fn, conds)
            nm = self.ev(e.args[1], env, fn, conds)
            if tgt[0] == "self" and nm[0] == "const" and isinstance(nm[1], str) and f.id == "getattr" and len(e.args) == 2:
                if nm[1] in self.slots:
                    return ("slot", nm[1])
                if nm[1] in self.attr_values:
                    return self.attr_values[nm[1]]
                return self._self_attr(nm[1], env, fn, conds)
            if tgt[0] == "clsref" and nm[0] == "const" and isinstance(nm[1], str):
                if f.id == "getattr":
                    return ("slot", nm[1]) if nm[1] in self.slots else ("clsattr", nm[1])
                if len(e.args) == 3:
                    v = self.ev(e.args[2], env, fn, conds)
                    self.effects.append(("slotwrite", nm[1], v, list(conds), norm(e), "cls"))
                    return ("const", None)
            if tgt[0] == "self" and nm[0] == "const" and isinstance(nm[1], str) and f.id == "setattr" and len(e.args) == 3:
                self.effects.append(("setattr", nm[1], self.ev(e.args[2], env, fn, conds), list(conds), norm(e)))
                return ("const", None)
            if tgt[0] == "namedclass" and nm[0] == "const" and f.id == "setattr" and len(e.args) == 3:
                self.effects.append(("slotwrite", nm[1], self.ev(e.args[2], env, fn, conds), list(conds), norm(e), "named:" + tgt[1]))
                return ("const", None)
            raise Unsupported(f"{f.id} on {short(e.args[0])} with a name that is not a constant of a class-level table")
        if isinstance(f, ast.Name) and f.id == "isinstance" and len(e.args) == 2:
            v0 = self.ev(e.args[0], env, fn, conds)
            ty = norm(e.args[1])
            if v0[0] == "const" and isinstance(v0[1], str) and v0[1].startswith("torch."):
                # the dtype constants the getter is evaluated with: torch.float is a torch.dtype, not a Tensor
                return ("const", "dtype" in ty and "Tensor" not in ty)
            if v0[0] == "const" and ("Tensor" in ty):
                return ("const", False)
            return ("opaque", norm(e))
        if isinstance(f, ast.Attribute) and f.attr == "get" and 1 <= len(e.args) <= 2:
            b0 = self.ev(f.value, env, fn, conds)
            if b0[0] == "dict":
                k0 = self.ev(e.args[0], env, fn, conds)
                if k0[0] == "const":
                    for k_, v_ in b0[1]:
                        if k_ == k0:
                            return v_
                    return self.ev(e.args[1], env, fn, conds) if len(e.args) == 2 else ("const", None)
        if isinstance(f, ast.Name) and f.id in env and env[f.id][0] == "namedclass":
            return ("instance", env[f.id][1], [self.ev(a, env, fn, conds) for a in e.args],
                    {k.arg: self.ev(k.value, env, fn, conds) for k in e.keywords if k.arg})
        if isinstance(f, ast.Name) and f.id == "zip" and e.args:
            seqs = [self.ev(a, env, fn, conds) for a in e.args]
            if all(sq[0] in ("tuple", "list") for sq in seqs):
                n_ = min(len(sq[1]) for sq in seqs)
                return ("list", [("tuple", [sq[1][i] for sq in seqs]) for i in range(n_)])
            if any(sq[0] in ("pop", "inst", "component") for sq in seqs) and any(sq[0] in ("tuple", "list") for sq in seqs):
                # zip(<names>, <captured tuple>): pair position-wise with the components of the captured value
                n_ = min(len(sq[1]) for sq in seqs if sq[0] in ("tuple", "list"))
                return ("list", [("tuple", [(sq[1][i] if sq[0] in ("tuple", "list") else ("component", sq, i)) for sq in seqs])
                                 for i in range(n_)])
            raise Unsupported(f"zip over {short(e)}")
        if isinstance(f, ast.Name) and f.id in ("tuple", "list") and len(e.args) == 1 and isinstance(e.args[0], (ast.GeneratorExp, ast.ListComp)):
            g = e.args[0]
            if len(g.generators) == 1 and not g.generators[0].ifs:
                it = self.ev(g.generators[0].iter, env, fn, conds)
                if it[0] in ("tuple", "list"):
                    out_ = []
                    for item in it[1]:
                        env2 = dict(env)
                        self.assign(g.generators[0].target, item, env2, fn, conds, norm(e))
                        out_.append(self.ev(g.elt, env2, fn, conds))
                    return ("tuple", out_)
            raise Unsupported(f"comprehension {short(e)}")
        if isinstance(f, ast.Attribute) and f.attr in ("items", "values", "keys") and not e.args:
            b_ = self.ev(f.value, env, fn, conds)
            if b_[0] == "dict":
                if f.attr == "items":
                    return ("list", [("tuple", [k_, v_]) for k_, v_ in b_[1]])
                return ("list", [(k_ if f.attr == "keys" else v_) for k_, v_ in b_[1]])
        if isinstance(f, ast.Name) and f.id in ("all", "any") and len(e.args) == 1 and isinstance(e.args[0], ast.GeneratorExp):
            env2 = dict(env)
            env2["#lazy"] = f.id  # a generator consumed by all()/any() stops at the first falsy / truthy element
            self.ev(e.args[0], env2, fn, conds)
            return ("opaque", norm(e))
        args = []
        for a in e.args:
            if isinstance(a, ast.Starred) and isinstance(a.value, (ast.GeneratorExp, ast.ListComp, ast.Tuple, ast.List)):
                env_m = dict(env)
                env_m["#materialise"] = True
                sv = self.ev(a.value, env_m, fn, conds)
                if sv[0] in ("tuple", "list") and not any(x[0] == "cond" for x in sv[1]):
                    args += list(sv[1])  # f(*(g(x) for x in TABLE)): one argument per table entry
                    continue
            args.append(self.ev(a, env, fn, conds))
        kwargs = {k.arg: self.ev(k.value, env, fn, conds) for k in e.keywords if k.arg}
        if isinstance(f, ast.Name) and f.id == "type" and len(args) == 1 and args[0][0] == "self":
            return ("clsref",)
        if isinstance(f, ast.Attribute):
            d = dotted(f)
            if d == "torch.is_tensor":
                if args and args[0][0] == "const":
                    return ("const", False)
                return ("opaque", norm(e))
            # super().m(...)
            if isinstance(f.value, ast.Call) and isinstance(f.value.func, ast.Name) and f.value.func.id == "super":
                owner = fn.cls
                target = self.idx.resolve_method(self.cls, f.attr, after=owner)
                if target is None:
                    raise Unsupported(f"super().{f.attr} unresolved")
                return self.inline(target, args, kwargs, conds, via="super")
            base = self.ev(f.value, env, fn, conds)
            if base[0] == "clsref":
                target = self.idx.resolve_method(self.cls, f.attr)
                if target is None:
                    return ("opaque", norm(e))
                return self.inline(target, args, kwargs, conds, via="cls")
            if base[0] == "exitstack":
                sid = base[1]
                if f.attr == "enter_context" and len(args) == 1 and args[0][0] == "inst":
                    self.effects.append(("sub", "__enter__", args[0][1], 0, list(conds), norm(e)))
                    self.stacks[sid].append(args[0][1])
                    return args[0]
                if f.attr == "pop_all" and not args:
                    self.stacks.append(list(self.stacks[sid]))
                    self.stacks[sid] = []
                    return ("exitstack", len(self.stacks) - 1)
                if f.attr in ("close", "__exit__"):
                    for a_ in reversed(self.stacks[sid]):
                        self.effects.append(("sub", "__exit__", a_, 3, list(conds), norm(e)))
                    self.stacks[sid] = []
                    return ("const", None)
                raise Unsupported(f"ExitStack.{f.attr}")
            if base[0] == "pop" and f.attr in ("__exit__", "close"):
                # self._stacks.pop().__exit__(*args): closes what the matching __enter__ pushed
                self.effects.append(("sub", "__exit__", "#popped:" + base[1], len(e.args) + len(e.keywords), list(conds), norm(e)))
                return ("const", None)
            if base[0] == "namedclass":
                self.effects.append(("namedcall", base[1], f.attr, norm(e)))
                return ("opaque", norm(e))
            if base[0] == "inst":
                if f.attr == "append" and len(args) == 1:
                    if args[0][0] == "exitstack":
                        args[0] = ("exitstack-held", tuple(self.stacks[args[0][1]]))
                    self.effects.append(("push", base[1], args[0], list(conds), norm(e)))
                    return ("const", None)
                if f.attr == "pop" and len(args) == 0:
                    self.effects.append(("popped", base[1], list(conds), norm(e)))
                    return ("pop", base[1])
                if f.attr in ("__enter__", "__exit__"):
                    self.effects.append(("sub", f.attr, base[1], len(e.args) + len(e.keywords), list(conds), norm(e)))
                    return ("const", None)
                self.effects.append(("instcall", base[1], f.attr, norm(e)))
                return ("opaque", norm(e))
            if base[0] == "self":
                target = self.idx.resolve_method(self.cls, f.attr)
                if target is None:
                    raise Unsupported(f"self.{f.attr} unresolved")
                return self.inline(target, args, kwargs, conds, via="self")
            return ("opaque", norm(e))
        if isinstance(f, ast.Name):
            q = self.idx.resolve_name(fn.module, f.id)
            if q and q in self.idx.classes:
                return ("instance", q, args, kwargs)
            return ("opaque", norm(e))
        return ("opaque", norm(e))

    def inline(self, target: FunctionInfo, args, kwargs, conds, via: str):
        self.visited.add(target.qualname)
        self.depth += 1
        if self.depth > 6:
            raise Unsupported("inlining depth")
        params = target.params()
        env: Dict[str, Any] = {}
        if target.is_classmethod():
            env[params[0]] = ("clsref",)
            params = params[1:]
        elif not target.is_staticmethod():
            env[params[0]] = ("self",)
            params = params[1:]
        dfl = target.defaults()
        for i, p in enumerate(params):
            if i < len(args):
                env[p] = args[i]
            elif p in kwargs:
                env[p] = kwargs[p]
            elif p in dfl:
                env[p] = self.ev(dfl[p], {}, target, conds)
            else:
                env[p] = ("opaque", p)
        saved = self.returns
        self.returns = []
        self.block(target.body(), env, target, conds)
        rets = self.returns
        self.returns = saved
        self.depth -= 1
        if not rets:
            return ("const", None)
        if len(rets) == 1:
            return rets[0][0]
        vals = [r[0] for r in rets]
        if all(v == vals[0] for v in vals):
            return vals[0]
        return ("oneof", vals)

    # -- statements ------------------------------------------------------------------------------
    def block(self, body: List[ast.stmt], env, fn: FunctionInfo, conds: List[str]) -> bool:
        """Returns True when the block always returns / raises."""
        for st in body:
            if self.stmt(st, env, fn, conds):
                return True
        return False

    def stmt(self, st: ast.stmt, env, fn: FunctionInfo, conds: List[str]) -> bool:
        if isinstance(st, ast.Expr):
            if isinstance(st.value, ast.Constant):
                return False
            self.ev(st.value, env, fn, conds)
            return False
        if isinstance(st, (ast.Pass, ast.Import, ast.ImportFrom)):
            return False
        if isinstance(st, ast.Return):
            v = self.ev(st.value, env, fn, conds) if st.value is not None else ("const", None)
            self.returns.append((v, list(conds)))
            return True
        if isinstance(st, ast.Raise):
            self.effects.append(("raise", list(conds), norm(st)))
            return True
        if isinstance(st, ast.Assign):
            v = self.ev(st.value, env, fn, conds)
            for t in st.targets:
                self.assign(t, v, env, fn, conds, norm(st))
            return False
        if isinstance(st, ast.AnnAssign) and st.value is not None:
            self.assign(st.target, self.ev(st.value, env, fn, conds), env, fn, conds, norm(st))
            return False
        if isinstance(st, ast.If):
            t = self.ev(st.test, env, fn, conds)
            if t[0] == "const":
                return self.block(st.body if t[1] else st.orelse, env, fn, conds)
            c = norm(st.test)
            e1, e2 = dict(env), dict(env)
            r1 = self.block(st.body, e1, fn, conds + [c])
            r2 = self.block(st.orelse, e2, fn, conds + [f"not ({c})"])
            for k in set(e1) | set(e2):
                a, b = e1.get(k), e2.get(k)
                if r1 and not r2:
                    env[k] = b
                elif r2 and not r1:
                    env[k] = a
                else:
                    env[k] = a if a == b else ("oneof", [a, b])
            return r1 and r2
        if isinstance(st, ast.For) and not st.orelse:
            it = self.ev(st.iter, env, fn, conds)
            if it[0] == "dict":
                it = ("list", [k_ for k_, _v in it[1]])  # iterating a dict yields its keys
            if it[0] in ("tuple", "list"):
                for item in it[1]:
                    c_extra = []
                    if item[0] == "cond":
                        c_extra, item = list(item[1]), item[2]
                    self.assign(st.target, item, env, fn, conds, norm(st.target))
                    if self.block(st.body, env, fn, conds + c_extra) and not c_extra:
                        return True
                return False
            if it[0] == "opaque" and norm(st.iter).startswith("reversed(") and isinstance(st.iter, ast.Call) and st.iter.args:
                inner = self.ev(st.iter.args[0], env, fn, conds)
                if inner[0] in ("tuple", "list"):
                    for item in reversed(inner[1]):
                        c_extra = []
                        if item[0] == "cond":
                            c_extra, item = list(item[1]), item[2]
                        self.assign(st.target, item, env, fn, conds, norm(st.target))
                        if self.block(st.body, env, fn, conds + c_extra) and not c_extra:
                            return True
                    return False
        if isinstance(st, ast.With) and len(st.items) == 1 and isinstance(st.items[0].context_expr, ast.Call) \
                and (dotted(st.items[0].context_expr.func) or "").endswith("ExitStack") and isinstance(st.items[0].optional_vars, ast.Name):
            # with contextlib.ExitStack() as stack: ... stack.enter_context(part) ... self._stack = stack.pop_all()
            sid = len(self.stacks)
            self.stacks.append([])
            env[st.items[0].optional_vars.id] = ("exitstack", sid)
            done = self.block(st.body, env, fn, conds)
            for a_ in reversed(self.stacks[sid]):  # whatever was not moved out is closed when the with block ends
                self.effects.append(("sub", "__exit__", a_, 3, list(conds), "ExitStack.__exit__"))
            self.stacks[sid] = []
            return done
        raise Unsupported(f"statement {type(st).__name__}: {short(st)}")

    def assign(self, t: ast.AST, v, env, fn, conds, text):
        if isinstance(t, ast.Name):
            env[t.id] = v
            return
        if isinstance(t, (ast.Tuple, ast.List)):
            for i, el in enumerate(t.elts):
                if v[0] in ("tuple", "list") and i < len(v[1]):
                    self.assign(el, v[1][i], env, fn, conds, text)
                else:
                    self.assign(el, ("component", v, i), env, fn, conds, text)
            return
        if isinstance(t, ast.Attribute):
            base = self.ev(t.value, env, fn, conds)
            if base[0] == "self":
                if v[0] == "exitstack":
                    v = ("exitstack-held", tuple(self.stacks[v[1]]))
                if v[0] == "pushed" and v[1] == t.attr:
                    self.effects.append(("push", t.attr, v[2], list(conds), text))
                    return
                if v == ("shrunk", t.attr):
                    self.effects.append(("popped", t.attr, list(conds), text))
                    return
                self.effects.append(("setattr", t.attr, v, list(conds), text))
                return
            if base[0] == "clsref":
                self.effects.append(("slotwrite", t.attr, v, list(conds), text, "cls"))
                return
            if base[0] == "namedclass":
                self.effects.append(("slotwrite", t.attr, v, list(conds), text, "named:" + base[1]))
                return
        raise Unsupported(f"assignment target {short(t)}")


def run_method(idx, cls: ClassInfo, slots: set, name: str, attr_values: Optional[Dict[str, Any]] = None) -> Optional[Ev]:
    fn = idx.resolve_method(cls, name)
    if fn is None:
        return None
    ev = Ev(idx, cls, slots)
    ev.attr_values = dict(attr_values or {})
    env: Dict[str, Any] = {}
    params = fn.all_param_names()
    env[params[0]] = ("self",)
    a = fn.node.args
    for p in params[1:]:
        env[p] = ("param", p)
    if a.vararg:
        env[a.vararg.arg] = ("opaque", "*" + a.vararg.arg)
    ev.block(fn.body(), env, fn, [])
    ev.fn = fn
    return ev


# ------------------------------------------------------------------------------------------------
def _mentions(conds: List[str], names: List[str]) -> bool:
    import re

    for c in conds:
        for n in names:
            if re.search(r"\b" + re.escape(n) + r"\b", c):
                return True
    return False


def flatten(v) -> List[Any]:
    if v[0] in ("tuple", "list"):
        out = []
        for x in v[1]:
            out += flatten(x)
        return out
    return [v]


def protocol_methods(cls: ClassInfo) -> set:
    """Names of the methods of the hierarchy that the context protocol (construction, entry, exit) can reach through calls on
    self / cls / self.__class__ / type(self) / super()."""
    defs = {}
    for k in cls.mro:
        for n_, f_ in k.methods.items():
            defs.setdefault(n_, []).append(f_)
    seen = set()
    work = [m for m in ("__init__", "__enter__", "__exit__", "__call__") if m in defs]
    while work:
        m = work.pop()
        if m in seen:
            continue
        seen.add(m)
        for f_ in defs[m]:
            for x in ast.walk(f_.node):
                if isinstance(x, ast.Attribute) and x.attr in defs and x.attr not in seen:
                    b = x.value
                    if isinstance(b, ast.Name) or (isinstance(b, ast.Attribute) and b.attr == "__class__") or (
                            isinstance(b, ast.Call) and isinstance(b.func, ast.Name) and b.func.id in ("type", "super")):
                        work.append(x.attr)
    return seen


def slots_of(idx: ProgramIndex, cls: ClassInfo) -> set:
    """Class-level slots = class attributes that some classmethod of the hierarchy assigns through cls."""
    out = set()
    protocol = protocol_methods(cls)
    for k in cls.mro:
        for fn in k.methods.values():
            if not fn.is_classmethod() or fn.name not in protocol:
                continue  # (a classmethod the context protocol never reaches maintains other global data, e.g. a cache)
            p0 = fn.params()[0] if fn.params() else "cls"
            for n in walk_no_nested(fn.node):
                if isinstance(n, (ast.Assign, ast.AugAssign, ast.AnnAssign)):
                    tg = n.targets if isinstance(n, ast.Assign) else [n.target]
                    if isinstance(getattr(n, "value", None), ast.Constant):
                        continue  # constant reset of a cache attribute, not a protocol slot
                    for t in tg:
                        for tt in (t.elts if isinstance(t, (ast.Tuple, ast.List)) else [t]):
                            if isinstance(tt, ast.Attribute) and isinstance(tt.value, ast.Name):
                                if tt.value.id == p0 or self_named_class(idx, fn, tt.value.id, cls):
                                    out.add(tt.attr)
    # slots assigned directly from __enter__/__exit__ through self.__class__ / type(self)
    for k in cls.mro:
        for mname in ("__enter__", "__exit__"):
            fn = k.methods.get(mname)
            if fn is None:
                continue
            for n in walk_no_nested(fn.node):
                if isinstance(n, ast.Assign):
                    if isinstance(n.value, ast.Constant):
                        continue  # constant reset of a cache attribute (probe_vectors = None), not a protocol slot
                    for t in n.targets:
                        for tt in (t.elts if isinstance(t, (ast.Tuple, ast.List)) else [t]):
                            if isinstance(tt, ast.Attribute):
                                b = tt.value
                                if (isinstance(b, ast.Attribute) and b.attr == "__class__") or (
                                    isinstance(b, ast.Call) and isinstance(b.func, ast.Name) and b.func.id == "type"
                                ) or (isinstance(b, ast.Name) and b.id == "cls"):
                                    out.add(tt.attr)
    # table-driven form: setattr(cls, <slot name>, value) with the names held in a class-level dict / tuple of strings
    uses_setattr = False
    for k in cls.mro:
        for fn in k.methods.values():
            for n in walk_no_nested(fn.node):
                if isinstance(n, ast.Call) and isinstance(n.func, ast.Name) and n.func.id == "setattr" and len(n.args) == 3:
                    uses_setattr = True
                    if isinstance(n.args[1], ast.Constant) and isinstance(n.args[1].value, str):
                        out.add(n.args[1].value)
    if uses_setattr:
        # names held in a module-level table (a dict / tuple of strings, possibly nested in tuples)
        for gname, gv in getattr(cls.module, "globals_", {}).items():
            if isinstance(gv, (ast.Dict, ast.Tuple, ast.List)):
                for x in ast.walk(gv):
                    if isinstance(x, ast.Constant) and isinstance(x.value, str) and any(x.value in kk.class_attrs for kk in cls.mro):
                        out.add(x.value)
        for k in cls.mro:
            for nm, v in k.class_attrs.items():
                vals = v.values if isinstance(v, ast.Dict) else (v.elts if isinstance(v, (ast.Tuple, ast.List)) else [])
                strs = [x.value for x in vals if isinstance(x, ast.Constant) and isinstance(x.value, str)]
                if strs and len(strs) == len(vals) and all(any(s_ in kk.class_attrs for kk in cls.mro) for s_ in strs):
                    out |= set(strs)
    return out


def self_named_class(idx, fn: FunctionInfo, name: str, cls: ClassInfo) -> bool:
    q = idx.resolve_name(fn.module, name)
    return bool(q and q in idx.classes and idx.classes[q] in cls.mro)


# ------------------------------------------------------------------------------------------------
def check_leaf(idx: ProgramIndex, rep: Report, cls: ClassInfo, defining: bool):
    """cls = a concrete or base settings class whose protocol (as resolved on cls) writes class slots."""
    who = f"{cls.module.name.split('.')[-1]}.{cls.name}"
    slots = slots_of(idx, cls)
    if not slots:
        raise AnalysisError(f"{who}: context class without any class-level slot written through cls")
    try:
        init = run_method(idx, cls, slots, "__init__")
        enter = run_method(idx, cls, slots, "__enter__")
        exit_ = run_method(idx, cls, slots, "__exit__")
    except Unsupported as e:
        raise AnalysisError(f"{who}: context protocol uses a construct the C17 model does not cover: {e}")
    if enter is None or exit_ is None:
        raise AnalysisError(f"{who}: no __enter__/__exit__")

    def F(rule, fn, construct, msg, node=None):
        return Finding(PROP, rule, f"{who}.{fn.name}" if fn.cls is None else f"{fn.module.name.split('.')[-1]}.{fn.cls.name}.{fn.name}",
                       construct, f"[as resolved on {who}] {msg}", fn.loc(node))

    # instance attributes: where populated
    init_sets = {e[1]: e for e in (init.effects if init else []) if e[0] == "setattr"}
    enter_sets = {e[1]: e for e in enter.effects if e[0] == "setattr"}
    enter_push = {e[1]: e for e in enter.effects if e[0] == "push"}
    enter_writes = [e for e in enter.effects if e[0] == "slotwrite" and e[1] in slots]
    exit_writes = [e for e in exit_.effects if e[0] == "slotwrite" and e[1] in slots]
    for ev_ in (enter, exit_):
        for e in ev_.effects:
            if e[0] == "slotwrite" and e[1] not in slots and e[2][0] != "const":
                raise AnalysisError(f"{who}: write of non-slot class attribute {e[1]} with a non-constant value")
    written_at_enter = {e[1] for e in enter_writes}

    # ---- S0: entry takes effect -----------------------------------------------------------------
    for e in enter_writes:
        v = e[2]
        ok = v[0] == "inst" and v[1] in init_sets and any(x[0] == "param" for x in flatten(init_sets[v[1]][2]))
        sample = {"class": who, "enter_write": e[4], "value": str(v)}
        if ok:
            rep.ok("C17.S0", sample)
        else:
            rep.bad("C17.S0", F("C17.S0", enter.fn, e[4], f"__enter__ writes slot {e[1]} with {v}, not with the value "
                                "given to the constructor - the context does not take effect on entry"))
    if not enter_writes:
        rep.bad("C17.S0", F("C17.S0", enter.fn, "__enter__", "__enter__ writes no class slot"))

    # ---- S5a: writes through cls ---------------------------------------------------------------
    for ev_ in (enter, exit_):
        for e in ev_.effects:
            if e[0] == "slotwrite":
                if e[5] == "cls":
                    rep.ok("C17.S5", {"class": who, "write": e[4], "via": "cls"})
                else:
                    rep.bad("C17.S5", F("C17.S5", ev_.fn, e[4], f"slot {e[1]} is written through the named class "
                                        f"{e[5][6:]} instead of the receiver's class: the value leaks into every "
                                        "setting that has not overridden the slot"))
            if e[0] == "namedcall":
                rep.bad("C17.S5", F("C17.S5", ev_.fn, e[3], f"setter called on named class {e[1]} instead of the "
                                    "receiver's class"))

    # ---- S1/S2/S3: every slot written at enter is restored at exit from a per-entry capture ----------
    restored = {}
    for e in exit_writes:
        restored.setdefault(e[1], []).append(e)
    for s in sorted(written_at_enter):
        ws = restored.get(s, [])
        if not ws:
            rep.bad("C17.S3", F("C17.S3", exit_.fn, f"slot {s}", f"slot {s} is written by __enter__ but __exit__ never "
                                "writes it back"))
            continue
        for w in ws:
            v = w[2]
            conds = w[3]
            # S3: unconditional restore
            if conds:
                rep.bad("C17.S3", F("C17.S3", exit_.fn, w[4] + " if " + " and ".join(conds),
                                    f"restore of slot {s} on exit is conditional on `{' and '.join(conds)}`: a previous "
                                    "value for which the condition is false (e.g. None = unset) is not written back"))
            else:
                rep.ok("C17.S3", {"class": who, "slot": s, "restore": w[4], "unconditional": True})
            # provenance of the restored value
            src = v
            comp = None
            if src[0] == "component":
                comp = src[2]
                src = src[1]
            if src[0] == "pop":
                attr = src[1]
                push = enter_push.get(attr)
                if push is None:
                    rep.bad("C17.S1", F("C17.S1", exit_.fn, w[4], f"slot {s} is restored from self.{attr}.pop() but "
                                        "__enter__ never pushes onto it"))
                    continue
                pv = push[2]
                if comp is not None and pv[0] == "tuple" and comp < len(pv[1]):
                    pv = pv[1][comp]
                good = pv == ("slot", s)
                # the push must precede the write of s in __enter__
                order_ok = enter.effects.index(push) < min(enter.effects.index(x) for x in enter_writes if x[1] == s)
                if good and order_ok and not push[3]:
                    rep.ok("C17.S1", {"class": who, "slot": s, "captured_in": "__enter__", "capture": push[4]})
                    created = init_sets.get(attr) if init else None
                    peeks = [x for x in exit_.effects if x[0] == "peeked" and x[1] == attr]
                    pops = [x for x in exit_.effects if x[0] == "popped" and x[1] == attr]
                    if peeks and (not pops or any(p_[2] for p_ in pops) or exit_.effects.index(pops[0]) < exit_.effects.index(peeks[0])):
                        rep.bad("C17.S2", F("C17.S2", exit_.fn, peeks[0][3], f"the top of self.{attr} is read on exit but the stack is "
                                            "not shrunk afterwards (unconditionally): the next exit of the same object restores the same "
                                            "captured value again"))
                    elif created is not None and created[2][0] in ("list", "tuple") and not created[2][1] and not created[3]:
                        rep.ok("C17.S2", {"class": who, "slot": s, "per_entry": f"push/pop on self.{attr}",
                                          "stack_created_per_instance_in": "__init__"})
                    else:
                        rep.bad("C17.S2", F("C17.S2", (init.fn if init else enter.fn), f"self.{attr} not created in __init__",
                                            f"the per-entry stack self.{attr} is not bound to a fresh list by __init__ (as resolved "
                                            f"on {who}): a class-level list is shared by every setting class and every instance, so "
                                            "contexts that are not exited in strict LIFO order (linalg_dtypes exits its parts in "
                                            "entry order; setUp/tearDown pairs) restore each other's values"))
                else:
                    why = ("captures " + str(pv) + " instead of the slot") if not good else (
                        "capture happens after the slot was overwritten" if not order_ok else "capture is conditional")
                    rep.bad("C17.S1", F("C17.S1", enter.fn, push[4], f"value restored into slot {s}: {why}"))
            elif src[0] == "inst":
                attr = src[1]
                if attr in enter_sets and _component(enter_sets[attr][2], comp) == ("slot", s):
                    before = enter.effects.index(enter_sets[attr]) < min(
                        enter.effects.index(x) for x in enter_writes if x[1] == s)
                    if before:
                        rep.ok("C17.S1", {"class": who, "slot": s, "captured_in": "__enter__"})
                    else:
                        rep.bad("C17.S1", F("C17.S1", enter.fn, enter_sets[attr][4],
                                            f"slot {s} captured after it was overwritten"))
                    rep.bad("C17.S2", F("C17.S2", enter.fn, enter_sets[attr][4],
                                        f"previous value of slot {s} is kept in the single attribute self.{attr}: "
                                        "re-entering the same context object overwrites it, so the outer exit "
                                        "restores the inner value (no per-entry stack)"))
                elif attr in init_sets and any(x == ("slot", s) or (x[0] == "slot") for x in flatten(init_sets[attr][2])):
                    rep.bad("C17.S1", F("C17.S1", init.fn, init_sets[attr][4],
                                        f"value restored into slot {s} on exit is snapshotted in __init__ (self.{attr}), "
                                        "not on entry: a context constructed before another context is entered "
                                        "restores a stale value"))
                    rep.bad("C17.S2", F("C17.S2", init.fn, init_sets[attr][4],
                                        f"previous value of slot {s} kept in the single attribute self.{attr} "
                                        "(no per-entry stack)"))
                else:
                    rep.bad("C17.S1", F("C17.S1", exit_.fn, w[4], f"slot {s} restored from self.{attr}, which is not a "
                                        "capture of the slot made on entry"))
            else:
                rep.bad("C17.S1", F("C17.S1", exit_.fn, w[4], f"slot {s} restored from {src}, not from a capture of "
                                    "the slot made on entry"))
    # slots written at exit but never at enter: only allowed if value is a capture of the same slot (harmless)
    # ---- S4 -------------------------------------------------------------------------------------
    check_exit_signature(rep, exit_.fn, who, exit_)
    return slots, init, enter, exit_


def _component(v, comp):
    if comp is None:
        return v
    if v[0] == "tuple" and comp < len(v[1]):
        return v[1][comp]
    return ("component", v, comp)


def check_exit_signature(rep: Report, fn: FunctionInfo, who: str, ev_: Ev):
    a = fn.node.args
    npos = len(a.posonlyargs) + len(a.args) - 1
    ndef = len(a.defaults)
    accepts3 = a.vararg is not None or (npos >= 3 and npos - ndef <= 3)
    f_name = f"{fn.module.name.split('.')[-1]}.{fn.cls.name}.{fn.name}"
    if accepts3:
        rep.ok("C17.S4", {"class": who, "exit_signature": norm(a)})
    else:
        rep.bad("C17.S4", Finding(PROP, "C17.S4", f_name, f"def __exit__({norm(a)})",
                                  "__exit__ does not accept the (type, value, traceback) triple", fn.loc()))
    # return values: falsy constants only (must not swallow the exception)
    rets = ev_.returns
    for v, conds in rets:
        if v[0] == "const" and not v[1]:
            rep.ok("C17.S4", {"class": who, "exit_returns": repr(v[1])})
        else:
            rep.bad("C17.S4", Finding(PROP, "C17.S4", f_name, f"return {v}", "__exit__ may return a truthy value and "
                                      "swallow the exception that leaves the with-block", fn.loc()))
    for e in ev_.effects:
        if e[0] == "raise":
            rep.bad("C17.S4", Finding(PROP, "C17.S4", f_name, e[2], "__exit__ raises", fn.loc()))
    # no try/except in __exit__ (the evaluator would have refused), early returns handled by S3 conditions:
    # a restore placed after a conditional return carries that condition.


def check_state_override(idx, rep: Report, cls: ClassInfo, name: str, fn: FunctionInfo):
    """A subclass overriding a setter must chain to super() unconditionally with its own parameter."""
    who = f"{cls.module.name.split('.')[-1]}.{cls.name}.{name}"
    params = fn.params()[1:]
    ok = False
    for st in fn.body():
        if isinstance(st, ast.Expr) and isinstance(st.value, ast.Call):
            c = st.value
            f = c.func
            if (isinstance(f, ast.Attribute) and f.attr == name and isinstance(f.value, ast.Call)
                    and isinstance(f.value.func, ast.Name) and f.value.func.id == "super"):
                argn = [a.id for a in c.args if isinstance(a, ast.Name)]
                if argn == params and not c.keywords:
                    ok = True
    if ok:
        rep.ok("C17.S5", {"override": who, "chains_to_super": True})
    else:
        rep.bad("C17.S5", Finding(PROP, "C17.S5", who, norm(fn.node).split("\n")[0],
                                  f"override of {name} does not unconditionally call super().{name}({', '.join(params)}) "
                                  "at statement level: the state write may be skipped or altered", fn.loc()))
    # other statements may only reset attributes of the class itself to constants
    for st in fn.body():
        if isinstance(st, ast.Expr):
            continue
        if isinstance(st, ast.Assign) and all(
            isinstance(t, ast.Attribute) and isinstance(t.value, ast.Name) and t.value.id == fn.params()[0]
            for t in st.targets
        ) and isinstance(st.value, ast.Constant):
            base_slots = set()
            for k in cls.mro[1:]:
                base_slots |= slots_of(idx, k)
            bad = [t.attr for t in st.targets if t.attr in base_slots]
            if bad:
                rep.bad("C17.S5", Finding(PROP, "C17.S5", who, norm(st), f"override writes the protocol slot {bad} "
                                          "itself", fn.loc(st)))
            else:
                rep.ok("C17.S5", {"override": who, "side_reset": norm(st)})
            continue
        rep.bad("C17.S5", Finding(PROP, "C17.S5", who, norm(st), "override of a setter contains a statement other "
                                  "than the super() call and constant resets of its own cache", fn.loc(st)))


def check_dtype_agreement(idx, rep: Report, cls: ClassInfo, slots, init: Ev, enter: Ev):
    """Per-dtype contexts: getter(dtype) slot == slot the `<dtype>_value` constructor keyword is written to."""
    who = f"{cls.module.name.split('.')[-1]}.{cls.name}"
    getter = idx.resolve_method(cls, "value")
    if getter is None or len(getter.params()) < 2:
        return False
    mapping = {}
    for tname in ("float", "double", "half"):
        ev = Ev(idx, cls, slots)
        try:
            v = ev.inline(getter, [("const", f"torch.{tname}")], {}, [], via="cls")
        except Unsupported as e:
            raise AnalysisError(f"{who}.value: {e}")
        if v[0] == "slot":
            mapping[tname] = v[1]
    if not mapping:
        return False
    init_sets = {e[1]: e for e in init.effects if e[0] == "setattr"}
    for tname, slot in sorted(mapping.items()):
        # constructor keyword for this dtype
        kw = [p for p in init.fn.params()[1:] if p.startswith(tname)]
        if len(kw) != 1:
            rep.bad("C17.S5", Finding(PROP, "C17.S5", f"{who}.__init__", f"keyword for {tname}",
                                      f"no unique constructor keyword for dtype {tname}", init.fn.loc()))
            continue
        # instance attr holding it
        attrs = [a for a, e in init_sets.items() if e[2] == ("param", kw[0])]
        targets = [e[1] for e in enter.effects if e[0] == "slotwrite" and e[2][0] == "inst" and e[2][1] in attrs]
        sample = {"class": who, "dtype": tname, "getter_slot": slot, "ctor_keyword": kw[0], "enter_writes": targets}
        if targets == [slot]:
            rep.ok("C17.S5", sample)
        else:
            rep.bad("C17.S5", Finding(PROP, "C17.S5", f"{who}.__enter__", f"{kw[0]} -> {targets} vs value(torch.{tname}) -> {slot}",
                                      f"constructor keyword {kw[0]} is written to slot(s) {targets} on entry but "
                                      f"value(torch.{tname}) reads {slot}: a value leaks from one dtype slot to another",
                                      enter.fn.loc()))
    return True


def check_composite(idx, rep: Report, cls: ClassInfo, leaf_classes: Dict[str, ClassInfo]):
    who = f"{cls.module.name.split('.')[-1]}.{cls.name}"
    try:
        init = run_method(idx, cls, set(), "__init__")
        groups = {e[1]: e[2] for e in init.effects if e[0] == "setattr" and e[2][0] in ("tuple", "list") and e[2][1]
                  and all(x[0] == "inst" or (x[0] == "cond" and x[2][0] == "inst") for x in e[2][1])}
        enter = run_method(idx, cls, set(), "__enter__", groups)
        exit_ = run_method(idx, cls, set(), "__exit__", groups)
    except Unsupported as e:
        raise AnalysisError(f"{who}: composite protocol uses a construct the C17 model does not cover: {e}")
    subs_init = {}
    for e in init.effects:
        if e[0] == "setattr" and e[2][0] == "instance":
            subs_init[e[1]] = e[2]
    entered = [e for e in enter.effects if e[0] == "sub" and e[1] == "__enter__"]
    exited = [e for e in exit_.effects if e[0] == "sub" and e[1] == "__exit__"]
    # sub-contexts handed to a contextlib.ExitStack that __enter__ keeps: closing the kept stack exits them in reverse order
    held_attr = {e[1]: e[2][1] for e in enter.effects if e[0] == "setattr" and e[2][0] == "exitstack-held"}
    held_push = {e[1]: e[2][1] for e in enter.effects if e[0] == "push" and e[2][0] == "exitstack-held"}
    expanded = []
    for e in exited:
        tgt = e[2]
        parts = held_attr.get(tgt) if tgt in held_attr else (held_push.get(tgt[len("#popped:"):]) if tgt.startswith("#popped:") else None)
        if parts is not None:
            expanded += [("sub", "__exit__", a_, 3, e[4], e[5]) for a_ in reversed(parts)]
        else:
            expanded.append(e)
    exited = expanded
    for attr in held_attr:
        rep.bad("C17.S2", Finding(PROP, "C17.S2", f"{who}.__enter__", f"self.{attr} = <the stack of entered parts>",
                                  f"composite context keeps the parts it entered in the single attribute self.{attr}: entering the same "
                                  "composite object again while it is active overwrites it, so the outer exit closes the inner stack (or an "
                                  "empty one) and the outer entry's settings are never restored", enter.fn.loc()))
    if not entered:
        raise AnalysisError(f"{who}: composite enters no sub-context")
    en = [e[2] for e in entered]
    ex = [e[2] for e in exited]
    fnq = f"{who}.__exit__"
    for a in sorted(set(en) | set(ex)):
        n_en, n_ex = en.count(a), ex.count(a)
        cond = [e for e in entered + exited if e[2] == a and e[4]]
        sample = {"class": who, "sub_context": a, "entered": n_en, "exited": n_ex}
        if n_en == 1 and n_ex == 1 and not cond:
            rep.ok("C17.S6", sample)
        else:
            rep.bad("C17.S6", Finding(PROP, "C17.S6", fnq, f"self.{a}: entered {n_en}x, exited {n_ex}x"
                                      + (" (conditionally)" if cond else ""),
                                      f"composite context enters sub-context self.{a} {n_en} time(s) and exits it "
                                      f"{n_ex} time(s){' under a condition' if cond else ''}: the part's setting leaks or is "
                                      "restored twice", exit_.fn.loc()))
        # the sub-context must be an instance of a checked leaf class built from a constructor parameter
        inst = subs_init.get(a)
        if inst is None or inst[1] not in {c.qualname for c in leaf_classes.values()}:
            rep.bad("C17.S6", Finding(PROP, "C17.S6", f"{who}.__init__", f"self.{a}",
                                      f"sub-context self.{a} is not constructed in __init__ from a checked leaf "
                                      "context class", init.fn.loc()))
        else:
            rep.ok("C17.S6", {"class": who, "sub_context": a, "leaf": inst[1].split(".")[-1]})
            # exit arity must be accepted by the leaf __exit__
            leaf = idx.classes[inst[1]]
            lf = idx.resolve_method(leaf, "__exit__")
            ex_e = [e for e in exited if e[2] == a]
            if lf is not None and ex_e:
                nargs = ex_e[0][3]
                la = lf.node.args
                npos = len(la.args) - 1
                okar = la.vararg is not None and nargs >= npos - len(la.defaults) or (npos - len(la.defaults) <= nargs <= npos)
                if okar:
                    rep.ok("C17.S6", {"class": who, "sub_context": a, "exit_arity": nargs})
                else:
                    rep.bad("C17.S6", Finding(PROP, "C17.S6", fnq, ex_e[0][5], f"self.{a}.__exit__ called with {nargs} "
                                              f"argument(s) but {leaf.name}.__exit__ does not accept that", exit_.fn.loc()))
    # two parts of the same leaf class share a slot: exits must mirror enters
    kinds = [subs_init[a][1] for a in en if a in subs_init]
    if len(set(kinds)) != len(kinds) and ex != list(reversed(en)):
        rep.bad("C17.S6", Finding(PROP, "C17.S6", fnq, f"enter order {en} / exit order {ex}",
                                  "two sub-contexts share a setting class; they must be exited in reverse order",
                                  exit_.fn.loc()))
    check_exit_signature(rep, exit_.fn, who, exit_)
    # effects other than sub-context calls in enter/exit are not expected
    for ev_ in (enter, exit_):
        for e in ev_.effects:
            if e[0] in ("slotwrite", "namedcall"):
                rep.bad("C17.S6", Finding(PROP, "C17.S6", f"{who}.{ev_.fn.name}", e[4] if e[0] == "slotwrite" else e[3],
                                          "composite context writes a class slot directly", ev_.fn.loc()))


# ------------------------------------------------------------------------------------------------
def check_s7(idx: ProgramIndex, rep: Report, setting_classes: Dict[str, ClassInfo]):
    """No settings read at import time (default argument / module level / class level)."""
    quals = {c.qualname for c in setting_classes.values()}

    def reads_setting(m, call: ast.Call) -> Optional[str]:
        f = call.func
        if isinstance(f, ast.Attribute) and f.attr in SETTINGS_READERS:
            q = idx.resolve_expr(m, f.value)
            if q and q in quals:
                return q
            # fast_computations.solves.off()
            if isinstance(f.value, ast.Attribute):
                q2 = idx.resolve_expr(m, f.value.value)
                if q2 and q2 in quals:
                    return q2 + "." + f.value.attr
        return None

    n_sites = 0
    for m in idx.modules.values():
        # module-level and class-level expressions (not inside functions)
        def scan_toplevel(body, owner):
            nonlocal n_sites
            for st in body:
                if isinstance(st, (ast.FunctionDef, ast.AsyncFunctionDef)):
                    for d in st.args.defaults + [x for x in st.args.kw_defaults if x is not None] + st.decorator_list:
                        for n in ast.walk(d):
                            if isinstance(n, ast.Call):
                                n_sites += 1
                                q = reads_setting(m, n)
                                if q:
                                    rep.bad("C17.S7", Finding(PROP, "C17.S7", f"{owner}.{st.name}", norm(n),
                                                              f"setting {q} is read in a default argument / decorator: it is "
                                                              "evaluated once at import time, so a context entered later "
                                                              "never takes effect for this consumer",
                                                              f"{m.relpath}:{n.lineno}"))
                    # nested defs have defaults too
                    scan_toplevel([x for x in ast.walk(st) if isinstance(x, (ast.FunctionDef, ast.AsyncFunctionDef)) and x is not st], owner + "." + st.name)
                elif isinstance(st, ast.ClassDef):
                    scan_toplevel(st.body, owner + "." + st.name)
                else:
                    for n in walk_no_nested(st):
                        if isinstance(n, ast.Call):
                            n_sites += 1
                            q = reads_setting(m, n)
                            if q:
                                rep.bad("C17.S7", Finding(PROP, "C17.S7", owner, norm(n),
                                                          f"setting {q} is read at module / class level (import time)",
                                                          f"{m.relpath}:{n.lineno}"))
                        if isinstance(n, ast.Lambda):
                            pass
        scan_toplevel(m.tree.body, m.name)
    # count consumers (informational floor: the package does read settings inside functions)
    consumers = 0
    for fn in idx.functions:
        for n in walk_no_nested(fn.node):
            if isinstance(n, ast.Call) and reads_setting(fn.module, n):
                consumers += 1
    rep.count("C17.S7", 0)
    rep.rules["C17.S7"].instances += n_sites
    rep.rules["C17.S7"].discharged += n_sites - sum(1 for f in rep.findings if f.rule == "C17.S7")
    rep.extra["settings_reads_inside_functions"] = consumers
    if consumers < 40:
        rep.error(f"only {consumers} settings reads found inside functions (expected >= 40): reader census is blind")


# ------------------------------------------------------------------------------------------------
def check_generator_context(rep: Report, fn: FunctionInfo) -> None:
    """A settings context written as a ``@contextmanager`` generator: an exception raised inside the with-block is thrown
    into the generator AT the yield, so whatever has to run on exit (restoring the previous values, leaving sub-contexts)
    must sit in the ``finally`` of a try that encloses the yield, or be done by ``with`` statements that enclose it."""
    who = f"settings.{fn.name}"

    found = []  # (yield stmt, the statements that run after it on normal resumption only - finally blocks are not among them)

    def scan(body: List[ast.stmt], after_outer: List[ast.stmt]):
        for i, st in enumerate(body):
            rest = body[i + 1:]
            if isinstance(st, ast.Expr) and isinstance(st.value, (ast.Yield, ast.YieldFrom)):
                found.append((st, rest + after_outer))
            elif isinstance(st, ast.Try):
                scan(st.body, st.orelse + rest + after_outer)
                for h in st.handlers:
                    scan(h.body, rest + after_outer)
                scan(st.orelse, rest + after_outer)
                scan(st.finalbody, rest + after_outer)
            elif isinstance(st, (ast.With, ast.If, ast.For, ast.While)):
                scan(st.body, rest + after_outer)
                scan(getattr(st, "orelse", []) or [], rest + after_outer)

    scan(fn.body(), [])
    if not found:
        rep.bad("C17.S4", Finding(PROP, "C17.S4", who, "generator context without a yield",
                                  f"{who} is decorated as a context manager but never yields", fn.loc()))
        return
    for y, after in found:
        # what runs after the yield outside any finally: restoring statements there are skipped when the block raises
        def restores(st: ast.stmt) -> bool:
            return any(isinstance(x, ast.Call) and isinstance(x.func, ast.Attribute) and (
                x.func.attr.startswith("_set_") or x.func.attr in ("__exit__", "close", "pop")) for x in ast.walk(st)) or any(
                isinstance(x, (ast.Assign, ast.AugAssign)) and any(isinstance(t, ast.Attribute) for t in (
                    x.targets if isinstance(x, ast.Assign) else [x.target])) for x in ast.walk(st))
        unprotected = [st for st in after if restores(st)]
        sample = {"context": who, "restoring_statements_after_the_yield_outside_finally": len(unprotected)}
        for _ in range(6):
            rep.count("C17.S6")  # sub-contexts are entered / left once by construction (with statements, try / finally)
        if unprotected:
            rep.bad("C17.S4", Finding(PROP, "C17.S4", who, "restore after the yield is not in a finally block",
                                      f"{who}: `{short(unprotected[0], 60)}` runs after the yield but not in the finally of a try that "
                                      "encloses the yield: when the with-block raises, the exception is thrown into the generator at the "
                                      "yield, the restore is skipped and the settings stay changed after the block", fn.loc(unprotected[0])), sample)
        else:
            rep.ok("C17.S4", sample)


def run(idx: ProgramIndex, rep: Report, tier: str, selftest: bool = True):
    rep.extra["explanation"] = (
        "Typestate/effect analysis of the context-manager protocol of every class of settings.py and "
        "beta_features.py. __init__/__enter__/__exit__ and the classmethod getters/setters they call (inlined through "
        "the statically computed MRO, as resolved on each concrete class) are abstracted to effects over abstract "
        "values (slot read, instance attribute, pushed/popped capture, constructor parameter). Rules S0-S7 decide for "
        "ALL construct/enter/exit/exception-exit histories at once: the value restored on exit is the one read from "
        "the slot in the matching __enter__ (S1), kept per entry (S2), written back unconditionally (S3), the exit "
        "cannot be skipped or swallow exceptions (S4), slots are disjoint per class and per dtype (S5), composites "
        "pair every sub-context (S6) and no consumer reads a setting at import time (S7). Nothing is executed."
    )
    rep.assumptions += [
        "contexts are used through `with` (python guarantees __exit__ on normal and exceptional exit)",
        "settings are only changed through the context protocol or the classmethod setters analysed here",
        "single-threaded histories (the slots are process-global; the property quantifies over event sequences)",
    ]
    rep.rule("C17.S0", "entry takes effect: __enter__ writes the constructor value into the slot", floor=30)
    rep.rule("C17.S1", "restored value is captured in __enter__ before the write, not in __init__", floor=30)
    rep.rule("C17.S2", "capture is per entry (push/pop), re-entrant", floor=0)
    rep.rule("C17.S3", "restore on exit is unconditional", floor=30)
    rep.rule("C17.S4", "__exit__ takes the exception triple, cannot skip the restore, returns falsy", floor=60)
    rep.rule("C17.S5", "slot isolation: writes through cls; overrides chain to super; dtype getter/setter agree", floor=60)
    rep.rule("C17.S6", "composites enter and exit the same sub-contexts exactly once", floor=10)
    rep.rule("C17.S7", "no settings read at import time anywhere in the package", floor=50)

    mods = [idx.modules.get(m) for m in SETTINGS_MODULES]
    if any(m is None for m in mods):
        raise AnalysisError("settings.py / beta_features.py not found")
    classes: List[ClassInfo] = []
    for m in mods:
        classes += list(m.classes.values())

    def has_protocol(c: ClassInfo) -> bool:
        return idx.resolve_method(c, "__enter__") is not None and idx.resolve_method(c, "__exit__") is not None

    ctx = [c for c in classes if has_protocol(c)]
    non_ctx = [c.name for c in classes if not has_protocol(c)]
    rep.analysed["context_classes"] = [c.name for c in ctx]
    rep.analysed["non_context_classes"] = non_ctx
    if len(ctx) < 33:
        raise AnalysisError(f"only {len(ctx)} context classes found in settings/beta_features (expected >= 33)")

    # composite = its __enter__ forwards to sub-contexts
    def is_composite(c: ClassInfo) -> bool:
        fn = idx.resolve_method(c, "__enter__")
        # forwarding to sub-contexts - self.part.__enter__(), stack.enter_context(part) - but not to super().__enter__()
        return any(isinstance(n, ast.Attribute) and n.attr in ("__enter__", "enter_context")
                   and not (isinstance(n.value, ast.Call) and isinstance(n.value.func, ast.Name) and n.value.func.id == "super")
                   for n in ast.walk(fn.node))

    leaves = {c.name: c for c in ctx if not is_composite(c)}
    composites = {c.name: c for c in ctx if is_composite(c)}
    # contexts written as contextlib.contextmanager generators (module-level functions of the settings modules)
    gen_ctx: List[FunctionInfo] = []
    for m in mods:
        for f in m.functions.values():
            if any((dotted(d.func if isinstance(d, ast.Call) else d) or "").split(".")[-1] == "contextmanager" for d in f.decorators):
                gen_ctx.append(f)
    rep.analysed["generator_contexts"] = [f.name for f in gen_ctx]
    if len(composites) + len(gen_ctx) < 2:
        raise AnalysisError(f"expected the two composite contexts, found {sorted(composites)} + generators {[f.name for f in gen_ctx]}")
    for f in gen_ctx:
        check_generator_context(rep, f)

    # Leaves are checked as resolved on EACH concrete class (an override anywhere in the chain is seen).
    # Identical resolutions are analysed once per distinct (resolved methods) signature but counted per class.
    cache: Dict[Tuple, Any] = {}
    dtype_checked = 0
    abstract_bases = []
    for name, c in sorted(leaves.items()):
        # an abstract protocol base (shared enter / exit, hooks that raise NotImplementedError, no slot of its own) is
        # checked through each of its concrete subclasses, as resolved on them
        if not slots_of(idx, c) and any(c in k.mro[1:] for k in leaves.values()):
            abstract_bases.append(name)
            continue
        sig = tuple(
            (idx.resolve_method(c, m).qualname if idx.resolve_method(c, m) else None)
            for m in ("__init__", "__enter__", "__exit__", "_set_state", "_set_value", "value", "on")
        )
        slots, init, enter, exit_ = check_leaf(idx, rep, c, True)
        if check_dtype_agreement(idx, rep, c, slots, init, enter):
            dtype_checked += 1
        # overrides of setters in subclasses
        for mname in ("_set_state", "_set_value"):
            fn = c.methods.get(mname)
            if fn is not None and any(mname in k.methods for k in c.mro[1:]):
                check_state_override(idx, rep, c, mname, fn)
        # any classmethod of a base that writes a slot and is OVERRIDDEN on this class is a hook: entering / leaving the
        # context must go through it (a direct cls.<slot> = ... in __enter__ / __exit__ bypasses the override)
        for hname, hfn in c.methods.items():
            if not hfn.is_classmethod():
                continue
            overridden = [k for k in c.mro[1:] if hname in k.methods and slots_of(idx, k)]
            if not overridden:
                continue
            base_hook = overridden[0].methods[hname]
            writes_slot = any(isinstance(x, ast.Attribute) and isinstance(x.ctx, ast.Store) and x.attr in slots for x in ast.walk(base_hook.node)) \
                or any(isinstance(x, ast.Call) and isinstance(x.func, ast.Name) and x.func.id == "setattr" for x in ast.walk(base_hook.node))
            if not writes_slot:
                continue
            for ev_, nm in ((enter, "__enter__"), (exit_, "__exit__")):
                writes = [e for e in ev_.effects if e[0] == "slotwrite"]
                if not writes:
                    continue
                who = f"{c.module.name.split('.')[-1]}.{c.name}"
                if hfn.qualname in ev_.visited:
                    rep.ok("C17.S5", {"class": who, "hook": hname, "traversed_by": nm})
                else:
                    rep.bad("C17.S5", Finding(PROP, "C17.S5", f"{who}.{nm}", f"{nm} bypasses the overridden hook {hname}",
                                              f"[as resolved on {who}] {nm} writes the slot directly instead of calling `{hname}`, which "
                                              f"{c.name} overrides: the override's side effects (e.g. resetting a dependent cache) do not "
                                              "happen when the context is entered / left", ev_.fn.loc()))
        cache[sig] = True
    if dtype_checked < 2:
        raise AnalysisError("per-dtype context (getter keyed by dtype) not found")
    rep.analysed["distinct_protocol_resolutions"] = len(cache)
    rep.analysed["abstract_protocol_bases"] = abstract_bases

    for name, c in sorted(composites.items()):
        # an abstract composite base (shared part-by-part enter / exit, no constructor of its own) is checked through each
        # of its concrete subclasses, as resolved on them
        if idx.resolve_method(c, "__init__") is None and any(c in k.mro[1:] for k in composites.values()):
            abstract_bases.append(name)
            continue
        check_composite(idx, rep, c, leaves)
    rep.analysed["abstract_protocol_bases"] = abstract_bases

    check_s7(idx, rep, {c.name: c for c in ctx})

    if selftest:
        from ..selftest import run_fixtures

        run_fixtures(rep, PROP)
