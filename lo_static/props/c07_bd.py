"""C07.P5 - layout of hand-written ``_bilinear_derivative`` overrides vs. the recorded representation.

``LinearOperator.representation()`` flattens ``_args`` in order: a tensor contributes itself, an operator contributes
its own representation.  A hand-written ``_bilinear_derivative`` must therefore return, in the same order, one gradient
per tensor argument and the sub-operator's ``_bilinear_derivative`` tuple per operator argument.  Both sides are read
from the code: the returned expression is abstracted to a sequence of segments

    T          one tensor gradient (or None)
    D(attr)    the tuple of ``self.<attr>._bilinear_derivative(...)``
    S(attr)    one D per element of ``self.<attr>`` (a ``*linear_ops`` class)

and compared, position by position, with the constructor record (which parameter is recorded at which position and
which attribute of self derives from it).
"""
from __future__ import annotations

import ast
from typing import Dict, List, Optional, Tuple

from ..ctor import ctor_record
from ..index import ClassInfo, FunctionInfo, ProgramIndex, dotted, norm, short, walk_body
from ..report import Finding, Report

PROP = "C07"
Seg = Tuple[str, Optional[str]]


def _is_bd_call(e: ast.AST) -> Optional[str]:
    """self.<attr>._bilinear_derivative(...) -> attr ; super()/Class delegation -> '<super>'."""
    if isinstance(e, ast.Call) and isinstance(e.func, ast.Attribute) and e.func.attr == "_bilinear_derivative":
        v = e.func.value
        if isinstance(v, ast.Attribute) and isinstance(v.value, ast.Name) and v.value.id == "self":
            return v.attr
        if isinstance(v, ast.Call) and isinstance(v.func, ast.Name) and v.func.id == "super":
            return "<super>"
        if isinstance(v, ast.Name) and e.args and isinstance(e.args[0], ast.Name) and e.args[0].id == "self":
            return "<super>"
    return None


class Layout:
    def __init__(self, fn: FunctionInfo):
        self.fn = fn
        self.assigns: Dict[str, List[ast.expr]] = {}
        for n in walk_body(fn):
            if isinstance(n, ast.Assign) and len(n.targets) == 1 and isinstance(n.targets[0], ast.Name):
                self.assigns.setdefault(n.targets[0].id, []).append(n.value)

    def of(self, e: ast.expr, depth: int = 0, as_elem: bool = False) -> Optional[List[Seg]]:
        """Layout of an expression that evaluates to a tuple / list of gradients (None: not understood)."""
        if depth > 8:
            return None
        a = _is_bd_call(e)
        if a == "<super>":
            return [("SUPER", None)]
        if a is not None:
            return [("D", a)]
        if isinstance(e, ast.Call) and isinstance(e.func, ast.Name) and e.func.id in ("tuple", "list") and len(e.args) == 1:
            return self.of(e.args[0], depth + 1)
        if isinstance(e, ast.BinOp) and isinstance(e.op, ast.Add):
            l, r = self.of(e.left, depth + 1), self.of(e.right, depth + 1)
            return None if l is None or r is None else l + r
        if isinstance(e, (ast.Tuple, ast.List)):
            out: List[Seg] = []
            for x in e.elts:
                if isinstance(x, ast.Starred):
                    sub = self.of(x.value, depth + 1)
                    if sub is None:
                        return None
                    out += sub
                else:
                    out.append(("T", norm(x)))
            return out
        if isinstance(e, ast.GeneratorExp) or isinstance(e, ast.ListComp):
            # var for op in self.<attr> for var in op._bilinear_derivative(...)
            gens = e.generators
            if len(gens) == 2 and isinstance(gens[0].iter, ast.Attribute) and isinstance(gens[0].iter.value, ast.Name) \
                    and gens[0].iter.value.id == "self" and isinstance(gens[1].iter, ast.Call) \
                    and isinstance(gens[1].iter.func, ast.Attribute) and gens[1].iter.func.attr == "_bilinear_derivative" \
                    and isinstance(gens[1].iter.func.value, ast.Name) and isinstance(gens[0].target, ast.Name) \
                    and gens[1].iter.func.value.id == gens[0].target.id:
                return [("S", gens[0].iter.attr)]
            return None
        if isinstance(e, ast.IfExp):
            # x = (x,) if not isinstance(x, tuple) else x  -> the identity branch
            for br in (e.body, e.orelse):
                sub = self.of(br, depth + 1)
                if sub is not None and all(k in ("D", "S") for k, _ in sub):
                    return sub
            return None
        if isinstance(e, ast.Name):
            cands = []
            for v in self.assigns.get(e.id, []):
                if isinstance(v, ast.IfExp) and any(isinstance(b, ast.Name) and b.id == e.id for b in (v.body, v.orelse)):
                    continue  # normalisation of the same name
                sub = self.of(v, depth + 1)
                if sub is not None:
                    cands.append(sub)
            if cands and all(c == cands[0] for c in cands):
                return cands[0]
            return None
        return None


WRAPPERS = {"to_linear_operator", "to_dense", "tuple", "list"}


def primary(e: ast.AST) -> Optional[str]:
    """The name an expression is 'the same object as, possibly transformed': receiver chains and wrapper calls."""
    while True:
        if isinstance(e, ast.Name):
            return e.id
        if isinstance(e, (ast.Attribute, ast.Subscript, ast.Starred)):
            e = e.value
        elif isinstance(e, ast.Call):
            if isinstance(e.func, ast.Attribute):
                e = e.func.value
            elif isinstance(e.func, ast.Name) and e.func.id in WRAPPERS and e.args:
                e = e.args[0]
            else:
                return None
        elif isinstance(e, ast.IfExp):
            a, b = primary(e.body), primary(e.orelse)
            return a if a == b else None
        else:
            return None


def _helper_return_params(helper: ast.FunctionDef) -> Optional[List[Optional[str]]]:
    """For a helper that returns a tuple of names: the parameter each returned position is (a transformation of), following
    re-bindings whose primary is the name itself (x = f(x, ...))."""
    rets = [r for r in ast.walk(helper) if isinstance(r, ast.Return) and r.value is not None]
    if len(rets) != 1 or not isinstance(rets[0].value, ast.Tuple):
        return None
    params = [a.arg for a in helper.args.args]
    src: Dict[str, Optional[str]] = {p: p for p in params}
    for n in ast.walk(helper):
        if isinstance(n, ast.Assign) and len(n.targets) == 1 and isinstance(n.targets[0], ast.Name):
            nm = n.targets[0].id
            pr = primary(n.value)
            if pr is None and isinstance(n.value, ast.Call) and n.value.args:
                pr = primary(n.value.args[0])  # x = helper(x, ...): the first argument is what is transformed
            cur = src.get(pr) if pr is not None else None
            if nm in src and src[nm] != cur:
                src[nm] = cur if (src[nm] == nm and cur == nm) else (src[nm] if cur == src[nm] else None)
            elif nm not in src:
                src[nm] = cur
    return [src.get(e.id) if isinstance(e, ast.Name) else None for e in rets[0].value.elts]


def attr_primaries(init: FunctionInfo) -> Dict[str, set]:
    out: Dict[str, set] = {}
    mod_funcs = {st.name: st for st in init.module.tree.body if isinstance(st, ast.FunctionDef)}
    for n in walk_body(init):
        if isinstance(n, ast.Assign):
            for t in n.targets:
                if isinstance(t, ast.Attribute) and isinstance(t.value, ast.Name) and t.value.id == "self":
                    out.setdefault(t.attr, set()).add(primary(n.value))
                elif isinstance(t, (ast.Tuple, ast.List)):
                    # self.a, self.b = x, y   /   self.a, self.b = helper(x, y) with helper returning (x', y')
                    v = n.value
                    per_pos: List[Optional[str]] = [None] * len(t.elts)
                    if isinstance(v, (ast.Tuple, ast.List)) and len(v.elts) == len(t.elts):
                        per_pos = [primary(e_) for e_ in v.elts]
                    elif isinstance(v, ast.Call) and isinstance(v.func, ast.Name) and v.func.id in mod_funcs:
                        h = mod_funcs[v.func.id]
                        rp = _helper_return_params(h)
                        hp = [a.arg for a in h.args.args]
                        if rp is not None and len(rp) == len(t.elts):
                            for k_, p_ in enumerate(rp):
                                if p_ in hp and hp.index(p_) < len(v.args):
                                    per_pos[k_] = primary(v.args[hp.index(p_)])
                    for el, pr in zip(t.elts, per_pos):
                        if isinstance(el, ast.Attribute) and isinstance(el.value, ast.Name) and el.value.id == "self":
                            out.setdefault(el.attr, set()).add(pr)
    return out


def position_matches(attr: str, item, rec, prim: Dict[str, set]) -> Optional[bool]:
    """Does self.<attr> hold the argument recorded by `item`?  None: attr unknown."""
    src = rec.attr_sources.get(attr)
    if src is None:
        return None
    try:
        ip = primary(ast.parse(item.text.lstrip("*"), mode="eval").body)
    except SyntaxError:
        ip = None
    ap = prim.get(attr)
    if ip is not None and ap and None not in ap:
        return ip in ap
    return (item.text in src) if item.text.isidentifier() else bool(src & item.deps)


def attr_of_zero(seg: Seg) -> Optional[str]:
    kind, txt = seg
    if kind != "T" or not txt:
        return None
    import re

    m = re.fullmatch(r"torch\.zeros_like\(self\.(\w+)\)", txt)
    return m.group(1) if m else None


def check_bilinear_layouts(idx: ProgramIndex, rep: Report, rule: str = "C07.P5") -> int:
    base = idx.operator_base()
    n = 0
    for c in idx.operator_classes():
        fn = c.methods.get("_bilinear_derivative")
        if fn is None or c is base:
            continue
        rec = ctor_record(idx, c)
        if rec.init is None or not rec.complete:
            continue
        who = f"{c.name}._bilinear_derivative"
        lay = Layout(fn)
        rets = [r for r in walk_body(fn) if isinstance(r, ast.Return) and r.value is not None]
        pos_items = [i for i in rec.items if i.kind in ("pos", "star")]
        prim = attr_primaries(rec.init)
        for r in rets:
            L = lay.of(r.value)
            if L is None:
                rep.note(f"{who}: return `{short(r.value)}` not abstracted to a layout")
                continue
            if any(k == "SUPER" for k, _ in L):
                rep.ok(rule, {"function": who, "return": short(r.value, 60), "layout": "delegated to the inherited definition"})
                n += 1
                continue
            n += 1
            problems: List[str] = []
            has_star = any(i.kind == "star" for i in pos_items)
            if not has_star and len(L) != len(pos_items):
                problems.append(f"{len(L)} segments for {len(pos_items)} recorded positional arguments")
            for k, (seg, item) in enumerate(zip(L, pos_items)):
                kind, attr = seg
                if kind in ("D", "S"):
                    m = position_matches(attr, item, rec, prim)
                    if m is None:
                        problems.append(f"segment {k} differentiates self.{attr}, which is not derived from a constructor parameter")
                    elif not m:
                        problems.append(f"segment {k} is the derivative of self.{attr} but position {k} of the representation "
                                        f"records `{item.text}`")
                    if kind == "S" and item.kind != "star":
                        problems.append(f"segment {k} iterates self.{attr} but position {k} is a single argument")
                elif attr_of_zero(seg) is not None:
                    # zeros_like(self.A) is the (absent) gradient OF self.A: it must sit at A's position
                    a0 = attr_of_zero(seg)
                    if position_matches(a0, item, rec, prim) is False:
                        problems.append(f"segment {k} is the zero gradient of self.{a0} but position {k} records `{item.text}`")
            sample = {"function": who, "layout": [f"{k}({a})" if k != "T" else ("T" if attr_of_zero((k, a)) is None else f"T(0 of {attr_of_zero((k, a))})") for k, a in L],
                      "recorded": [i.text for i in pos_items]}
            if problems:
                rep.bad(rule, Finding(PROP, rule, who, norm(r.value),
                                      f"{who} returns the layout {sample['layout']} but the representation is "
                                      f"{sample['recorded']}: {'; '.join(problems)}. Gradients land on the wrong leaf tensors "
                                      "(silently, whenever the mis-placed slots have broadcast-compatible shapes)", fn.loc(r)), sample)
            else:
                rep.ok(rule, sample)
    return n


# ------------------------------------------------------------------------------------------------ P8
# classes whose matrix is a PRODUCT of all recorded arguments: the derivative with respect to one factor is a
# function of every other factor (class -> reason)
PRODUCT_STRUCTURED = {
    "ConstantMulLinearOperator": "matrix = constant * base_linear_op",
    "InterpolatedLinearOperator": "matrix = W(left_indices, left_values) K W(right_indices, right_values)^T",
}


def check_product_dependence(idx: ProgramIndex, rep: Report, rule: str = "C07.P8") -> int:
    from ..deps import dependence, value_reads as reads

    n = 0
    for c in idx.operator_classes():
        if c.name not in PRODUCT_STRUCTURED:
            continue
        fn = c.methods.get("_bilinear_derivative")
        if fn is None:
            continue
        rec = ctor_record(idx, c)
        lay = Layout(fn)
        prim = attr_primaries(rec.init)
        pos_items = [i for i in rec.items if i.kind in ("pos", "star")]
        from ..deps import ReachingDefs

        from .c01 import Consult

        cons = Consult(idx, c)
        plain_reads = reads

        def reads_with_self_methods(e, _plain=plain_reads, _cons=cons, _c=c):
            """value reads; a call self.m(...) additionally reads every attribute of self that m consults (transitively):
            a helper that builds both interpolation matrices from self hands the dependence on to its result."""
            out = set(_plain(e))
            for x in ast.walk(e):
                if isinstance(x, ast.Call) and isinstance(x.func, ast.Attribute) and isinstance(x.func.value, ast.Name) \
                        and x.func.value.id == "self" and idx.resolve_method(_c, x.func.attr) is not None:
                    out |= {"self." + a for a in _cons.of(x.func.attr)}
            return out

        reads = reads_with_self_methods
        rd = ReachingDefs(fn, reads=reads)  # flow-sensitive value dependence: shapes / dtypes of a tensor are not its value
        who = f"{c.name}._bilinear_derivative"

        def attrs_of(item) -> List[str]:
            try:
                ip = primary(ast.parse(item.text.lstrip("*"), mode="eval").body)
            except SyntaxError:
                return []
            return sorted(a for a, ps in prim.items() if ip in ps and not a.startswith("__"))

        for r in [r for r in walk_body(fn) if isinstance(r, ast.Return) and r.value is not None]:
            L = lay.of(r.value)
            if L is None or len(L) != len(pos_items):
                continue
            for i, (kind, txt) in enumerate(L):
                if kind != "T" or txt in ("None",) or attr_of_zero((kind, txt)) is not None:
                    continue
                try:
                    e = ast.parse(txt, mode="eval").body
                except SyntaxError:
                    continue
                rn = rd.node_of(r)
                if rn is None:
                    continue
                closure = rd.closure(rn, reads(e))
                missing = []
                for j, item in enumerate(pos_items):
                    if j == i:
                        continue
                    aj = attrs_of(item)
                    if aj and not any(f"self.{a}" in closure or any(x.startswith(f"self.{a}.") for x in closure) for a in aj):
                        missing.append((item.text, aj))
                n += 1
                sample = {"function": who, "gradient_slot": i, "expression": txt[:60], "of": pos_items[i].text,
                          "depends_on_other_factors": [it.text for k, it in enumerate(pos_items) if k != i and (it.text, attrs_of(it)) not in missing]}
                if missing:
                    rep.bad(rule, Finding(PROP, rule, who, f"slot {i} ({pos_items[i].text}) independent of " + ", ".join(m[0] for m in missing),
                                          f"{who}: the gradient returned for `{pos_items[i].text}` ({txt[:50]}) does not depend on "
                                          f"{', '.join('self.' + '/'.join(m[1]) for m in missing)}, although {PRODUCT_STRUCTURED[c.name]} - the "
                                          "derivative with respect to one factor is a function of every other factor. A wrong "
                                          "(left/right) tensor was used; invisible whenever the two coincide in the tests",
                                          fn.loc(r)), sample)
                else:
                    rep.ok(rule, sample)
    return n


# ------------------------------------------------------------------------------------------------ P7
def check_default_alignment(idx: ProgramIndex, rep: Report, rule: str = "C07.P7") -> int:
    """The autograd default: gradients come back aligned with the FILTERED list of differentiable arguments and must
    be re-expanded to one entry per representation element, in order."""
    from ..cfg import CFG
    from ..deps import dependence

    base = idx.operator_base()
    fn = base.methods.get("_bilinear_derivative")
    if fn is None:
        return 0
    who = f"{base.name}._bilinear_derivative"
    grads, filtered_from = set(), None
    assigns = {n.targets[0].id: n.value for n in walk_body(fn)
               if isinstance(n, ast.Assign) and len(n.targets) == 1 and isinstance(n.targets[0], ast.Name)}
    for name, v in assigns.items():
        for x in ast.walk(v):
            if isinstance(x, ast.Call) and dotted(x.func) == "torch.autograd.grad" and len(x.args) >= 2:
                grads.add(name)
                src = x.args[1]
                if isinstance(src, ast.Name) and src.id in assigns:
                    src = assigns[src.id]
                if isinstance(src, (ast.ListComp, ast.GeneratorExp)) and src.generators[0].ifs and isinstance(src.generators[0].iter, ast.Name):
                    filtered_from = src.generators[0].iter.id
    if not grads:
        rep.note(f"{who}: no torch.autograd.grad call found")
        return 0
    if filtered_from is None:
        rep.ok(rule, {"function": who, "gradients_requested_for": "the full argument list (already aligned)"})
        return 1
    S = filtered_from
    deps = dependence(fn)
    derived = set(grads) | {k for k, v in deps.items() if v & grads}
    changed = True
    while changed:  # container mutators (append / extend / insert) define their receiver
        changed = False
        for x in walk_body(fn):
            if (isinstance(x, ast.Call) and isinstance(x.func, ast.Attribute) and x.func.attr in ("append", "extend", "insert", "appendleft")
                    and isinstance(x.func.value, ast.Name) and x.func.value.id not in derived
                    and any(isinstance(y, ast.Name) and y.id in derived for a in x.args for y in ast.walk(a))):
                derived.add(x.func.value.id)
                derived |= {k for k, v in deps.items() if x.func.value.id in v}
                changed = True
    cfg = CFG(fn)
    # lists re-aligned by a loop over S that appends exactly once per iteration on every path
    aligned = set()
    for loop in [x for x in walk_body(fn) if isinstance(x, ast.For)]:
        if not (isinstance(loop.iter, ast.Name) and loop.iter.id == S):
            continue
        names = {x.func.value.id for x in ast.walk(loop) if isinstance(x, ast.Call) and isinstance(x.func, ast.Attribute)
                 and x.func.attr == "append" and isinstance(x.func.value, ast.Name)}
        for L in names:
            counts = _appends_per_iteration(loop, L)
            outside = [x for x in walk_body(fn) if isinstance(x, ast.Call) and isinstance(x.func, ast.Attribute)
                       and x.func.attr in ("append", "extend", "insert") and isinstance(x.func.value, ast.Name)
                       and x.func.value.id == L and not any(y is x for y in ast.walk(loop))]
            if counts == {1} and not outside:
                aligned.add(L)
    # ... or bound to a comprehension over every element of S
    for st in walk_body(fn):
        if isinstance(st, ast.Assign) and len(st.targets) == 1 and isinstance(st.targets[0], ast.Name):
            v = st.value
            v = v.args[0] if (isinstance(v, ast.Call) and isinstance(v.func, ast.Name) and v.func.id in ("tuple", "list") and len(v.args) == 1) else v
            if isinstance(v, (ast.ListComp, ast.GeneratorExp)) and len(v.generators) == 1 and not v.generators[0].ifs \
                    and isinstance(v.generators[0].iter, ast.Name) and v.generators[0].iter.id == S:
                others = [x for x in walk_body(fn) if isinstance(x, ast.Assign) and x is not st and any(
                    isinstance(t, ast.Name) and t.id == st.targets[0].id for t in x.targets)]
                if not others:
                    aligned.add(st.targets[0].id)
    n = 0
    for r in [r for r in walk_body(fn) if isinstance(r, ast.Return) and r.value is not None]:
        used = {x.id for x in ast.walk(r.value) if isinstance(x, ast.Name)}
        if not (used & derived):
            continue  # e.g. `return (None,) * len(args)`: no gradient at all
        n += 1
        v = r.value
        inner = v.args[0] if (isinstance(v, ast.Call) and isinstance(v.func, ast.Name) and v.func.id in ("tuple", "list") and len(v.args) == 1) else v
        ok = False
        how = ""
        if isinstance(inner, ast.Name) and inner.id in aligned:
            ok, how = True, f"`{inner.id}` is filled by exactly one append per element of `{S}`"
        elif isinstance(inner, (ast.GeneratorExp, ast.ListComp)) and len(inner.generators) == 1 and not inner.generators[0].ifs \
                and isinstance(inner.generators[0].iter, ast.Name) and inner.generators[0].iter.id == S:
            ok, how = True, f"comprehension over every element of `{S}`"
        sample = {"function": who, "return": short(v, 70), "gradients_are_aligned_with": f"the filtered sub-list of `{S}`", "realigned_by": how}
        if ok:
            rep.ok(rule, sample)
        else:
            rep.bad(rule, Finding(PROP, rule, who, norm(v),
                                  f"{who}: torch.autograd.grad returns one gradient per DIFFERENTIABLE element of `{S}`, but "
                                  f"`{short(v, 60)}` is not rebuilt with one entry per element of `{S}` in order (a loop / "
                                  "comprehension over it): when a non-differentiable argument precedes a differentiable one "
                                  "every later gradient lands on the wrong tensor (same length, so PyTorch does not complain)",
                                  fn.loc(r)), sample)
    return n


def _appends_per_iteration(loop: ast.For, L: str) -> set:
    """Set of append counts over the paths through one iteration of the loop body (if/else only)."""
    def count(body) -> set:
        totals = {0}
        for st in body:
            if isinstance(st, ast.If):
                a, b = count(st.body), count(st.orelse)
                totals = {t + x for t in totals for x in (a | b)}
            elif isinstance(st, (ast.For, ast.While, ast.Try, ast.With)):
                inner = sum(1 for x in ast.walk(st) if isinstance(x, ast.Call) and isinstance(x.func, ast.Attribute)
                            and x.func.attr == "append" and isinstance(x.func.value, ast.Name) and x.func.value.id == L)
                totals = {t + (99 if inner else 0) for t in totals}
            else:
                k = sum(1 for x in ast.walk(st) if isinstance(x, ast.Call) and isinstance(x.func, ast.Attribute)
                        and x.func.attr == "append" and isinstance(x.func.value, ast.Name) and x.func.value.id == L)
                totals = {t + k for t in totals}
        return totals
    return count(loop.body)
