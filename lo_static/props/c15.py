"""C15 - torch.* dispatch on operators matches the methods, in either operand order.

    T1  every function the property statement lists is registered (first-operand table), and the four binary
        operations are registered for the operator-second order (torch.f and torch.Tensor.f)
    T2  every registered method name resolves, on every operator class, to a method whose signature accepts
        every call the base registrant accepts (the tables are resolved *by name*)
    T3  __torch_function__: membership tests guard `raise NotImplementedError`; handler looked up with
        getattr(cls, TABLE[func]); operator-second branch passes the operator (args[1]) first
    T4  reflected one-liners are proved by term rewriting in the free algebra over {self, other, alpha}
    T5  a handler serving the operator-second order computes f(other, self, ...) - in particular a handler
        registered for both orders must be commutative in every parameter - and accepts every keyword the
        operator-first handler of the same torch function accepts
"""
from __future__ import annotations

import ast
from fractions import Fraction
from typing import Dict, List, Optional, Tuple

from ..index import AnalysisError, ClassInfo, FunctionInfo, ProgramIndex, dotted, norm, short, walk_body
from ..report import Finding, Report

PROP = "C15"

# from the property statement (torch API names); not from the code
LISTED_FIRST = [
    "torch.add", "torch.sub", "torch.mul", "torch.div", "torch.matmul", "torch.diagonal", "torch.logdet",
    "torch.linalg.solve", "torch.linalg.cholesky", "torch.linalg.eigh", "torch.linalg.eigvalsh", "torch.linalg.svd",
    "torch.linalg.solve_triangular", "torch.inverse", "torch.abs", "torch.exp", "torch.log", "torch.sqrt",
    "torch.sum", "torch.prod", "torch.squeeze", "torch.unsqueeze", "torch.transpose", "torch.permute",
    "torch.clone", "torch.numel", "torch.isclose",
]
LISTED_SECOND = ["torch.matmul", "torch.Tensor.matmul", "torch.add", "torch.Tensor.add", "torch.sub",
                 "torch.Tensor.sub", "torch.mul", "torch.Tensor.mul"]

# torch semantics of the binary functions f(a, b, alpha) in the free algebra (frozen torch API table)
SPEC = {"add": "a + alpha*b", "sub": "a - alpha*b", "matmul": "a @ b", "mul": "a (*) b", "div": "a (*) 1/b"}
# torch functions that are NOT commutative in their two tensor operands (symmetric registration is unsound)
NONCOMMUTATIVE = {"torch.isclose": "torch.isclose(a, b) tests |a-b| <= atol + rtol*|b|: the relative tolerance is "
                                   "taken from the SECOND operand"}
COMMUTATIVE = {"torch.mul"}


# ------------------------------------------------------------------------------------------------
# free algebra:  matrix polynomial = {monomial: coeff};  monomial = tuple of factors; factor = (symbol, transposed)
# coeff = {scalar-monomial: Fraction}; scalar-monomial = tuple(sorted((sym, power)))
# ------------------------------------------------------------------------------------------------
class Unsupported(Exception):
    pass


class Scalar:
    def __init__(self, terms=None):
        self.terms: Dict[Tuple, Fraction] = {k: v for k, v in (terms or {}).items() if v != 0}

    @staticmethod
    def const(c) -> "Scalar":
        return Scalar({(): Fraction(c).limit_denominator(10**9)})

    @staticmethod
    def sym(name) -> "Scalar":
        return Scalar({((name, 1),): Fraction(1)})

    def __add__(self, o):
        t = dict(self.terms)
        for k, v in o.terms.items():
            t[k] = t.get(k, 0) + v
        return Scalar(t)

    def neg(self):
        return Scalar({k: -v for k, v in self.terms.items()})

    def __mul__(self, o):
        t: Dict[Tuple, Fraction] = {}
        for k1, v1 in self.terms.items():
            for k2, v2 in o.terms.items():
                d = dict(k1)
                for s, p in k2:
                    d[s] = d.get(s, 0) + p
                k = tuple(sorted((s, p) for s, p in d.items() if p != 0))
                t[k] = t.get(k, 0) + v1 * v2
        return Scalar(t)

    def recip(self):
        if len(self.terms) != 1:
            raise Unsupported("reciprocal of a sum")
        (k, v), = self.terms.items()
        return Scalar({tuple(sorted((s, -p) for s, p in k)): 1 / v})

    def key(self):
        return tuple(sorted((k, str(v)) for k, v in self.terms.items()))

    def is_zero(self):
        return not self.terms


class Mat:
    def __init__(self, terms=None):
        self.terms: Dict[Tuple, Scalar] = {k: v for k, v in (terms or {}).items() if not v.is_zero()}

    @staticmethod
    def sym(name) -> "Mat":
        return Mat({((name, False),): Scalar.const(1)})

    def __add__(self, o):
        t = dict(self.terms)
        for k, v in o.terms.items():
            t[k] = (t[k] + v) if k in t else v
        return Mat(t)

    def scale(self, s: Scalar):
        return Mat({k: v * s for k, v in self.terms.items()})

    def neg(self):
        return self.scale(Scalar.const(-1))

    def matmul(self, o):
        t: Dict[Tuple, Scalar] = {}
        for k1, v1 in self.terms.items():
            for k2, v2 in o.terms.items():
                k = k1 + k2
                t[k] = (t[k] + v1 * v2) if k in t else v1 * v2
        return Mat(t)

    def T(self, vectors=()):
        def flip(f):
            s, tr = f
            if s in vectors:
                return (s, False)  # a 1-D operand is its own transpose
            return (s, not tr)

        return Mat({tuple(flip(f) for f in reversed(k)): v for k, v in self.terms.items()})

    def hadamard(self, o):
        t: Dict[Tuple, Scalar] = {}
        for k1, v1 in self.terms.items():
            for k2, v2 in o.terms.items():
                k = (("had", tuple(sorted([k1, k2]))),)
                t[k] = (t[k] + v1 * v2) if k in t else v1 * v2
        return Mat(t)

    def recip(self):
        if len(self.terms) != 1:
            raise Unsupported("reciprocal of a sum")
        (k, v), = self.terms.items()
        return Mat({(("recip", k),): v.recip()})

    def key(self):
        return tuple(sorted((repr(k), v.key()) for k, v in self.terms.items()))

    def show(self) -> str:
        out = []
        for k, v in sorted(self.terms.items(), key=lambda kv: repr(kv[0])):
            mono = " @ ".join(_show_factor(f) for f in k)
            coeff = " + ".join(
                (str(c) if not sk else (("" if c == 1 else ("-" if c == -1 else str(c) + "*")) + "*".join(
                    s if p == 1 else f"{s}^{p}" for s, p in sk))) for sk, c in sorted(v.terms.items()))
            out.append(mono if coeff == "1" else f"({coeff})*{mono}")
        return " + ".join(out) if out else "0"


def _show_factor(f) -> str:
    if f[0] == "had":
        return "(" + " (*) ".join(" @ ".join(_show_factor(x) for x in m) for m in f[1]) + ")"
    if f[0] == "recip":
        return "1/(" + " @ ".join(_show_factor(x) for x in f[1]) + ")"
    return f[0] + ("^T" if f[1] else "")


class Raised(Unsupported):
    """the evaluated path ends in a raise statement"""


class TermEval:
    def __init__(self, idx: ProgramIndex, base: ClassInfo, cls: ClassInfo):
        self.idx = idx
        self.base = base
        self.cls = cls
        self.depth = 0

    def method(self, fn: FunctionInfo, env: Dict[str, object], assume: Dict[str, object]) -> object:
        """Evaluate a one-liner-ish method: straight-line body with `if alpha is None` / `if other.ndim == 1`."""
        return self.block(fn.body(), dict(env), assume, fn)

    def block(self, body, env, assume, fn):
        for st in body:
            if isinstance(st, ast.Expr) and isinstance(st.value, ast.Constant):
                continue
            if isinstance(st, ast.Raise):
                raise Raised(short(st, 60))
            if isinstance(st, ast.Expr) and isinstance(st.value, ast.Call) and isinstance(st.value.func, ast.Attribute) \
                    and isinstance(st.value.func.value, ast.Name) and st.value.func.value.id == "self":
                # self._check_args(...): a helper evaluated for its effect - it raises (propagates) or returns
                self.ev(st.value, env, assume, fn)
                continue
            if isinstance(st, ast.Return):
                return self.ev(st.value, env, assume, fn)
            if isinstance(st, ast.If):
                c = self.cond(st.test, env, assume)
                if c is None and st.body and all(isinstance(x, ast.Raise) for x in st.body) and not st.orelse:
                    continue  # argument check that only raises: not part of the value
                if c is None:
                    raise Unsupported(f"undecided condition {short(st.test)}")
                r = self.block(st.body if c else st.orelse, env, assume, fn)
                if r is not None:
                    return r
                continue
            if isinstance(st, ast.Assign) and len(st.targets) == 1 and isinstance(st.targets[0], ast.Name):
                c_ = self.cond(st.value, env, assume) if isinstance(st.value, (ast.Compare, ast.BoolOp, ast.UnaryOp, ast.Call)) else None
                if c_ is not None:
                    # a decided condition kept in a flag: other_is_vector = other.ndim == 1
                    assume = dict(assume)
                    assume[st.targets[0].id] = c_
                    assume[f"not {st.targets[0].id}"] = not c_
                    continue
                env[st.targets[0].id] = self.ev(st.value, env, assume, fn)
                continue
            if isinstance(st, (ast.Import, ast.ImportFrom)):
                continue
            raise Unsupported(f"statement {short(st)}")
        return None

    def cond(self, t: ast.expr, env, assume) -> Optional[bool]:
        txt = norm(t)
        if txt in assume:
            return bool(assume[txt])
        if isinstance(t, ast.UnaryOp) and isinstance(t.op, ast.Not):
            c = self.cond(t.operand, env, assume)
            return None if c is None else not c
        # type tests on a symbol whose abstract value is known: a matrix symbol is never a python number
        if (isinstance(t, ast.Call) and isinstance(t.func, ast.Name) and t.func.id == "isinstance" and len(t.args) == 2
                and isinstance(t.args[0], ast.Name) and t.args[0].id in env):
            v = env[t.args[0].id]
            tys = t.args[1].elts if isinstance(t.args[1], ast.Tuple) else [t.args[1]]
            names = [(dotted(x) or "").split(".")[-1] for x in tys]
            if names and all(n in ("Number", "int", "float", "Real") for n in names):
                if isinstance(v, Mat):
                    return False
                if isinstance(v, Scalar):
                    return True
        return None

    def ev(self, e: ast.expr, env, assume, fn):
        if isinstance(e, ast.Name):
            if e.id in env:
                return env[e.id]
            raise Unsupported(f"name {e.id}")
        if isinstance(e, ast.Constant) and isinstance(e.value, (int, float)) and not isinstance(e.value, bool):
            return Scalar.const(e.value)
        if isinstance(e, ast.UnaryOp) and isinstance(e.op, ast.USub):
            v = self.ev(e.operand, env, assume, fn)
            return v.neg()
        if isinstance(e, ast.BinOp):
            l = self.ev(e.left, env, assume, fn)
            r = self.ev(e.right, env, assume, fn)
            if isinstance(e.op, ast.Add):
                return self._add(l, r)
            if isinstance(e.op, ast.Sub):
                return self._add(l, r.neg())
            if isinstance(e.op, ast.Mult):
                return self._mul(l, r)
            if isinstance(e.op, ast.Div):
                return self._mul(l, r.recip())
            if isinstance(e.op, ast.MatMult):
                if isinstance(l, Mat) and isinstance(r, Mat):
                    return l.matmul(r)
            raise Unsupported(f"operator in {short(e)}")
        if isinstance(e, ast.Attribute):
            v = self.ev(e.value, env, assume, fn)
            if e.attr in ("mT", "T") and isinstance(v, Mat):
                return v.T(assume.get("#vectors", ()))
            raise Unsupported(f"attribute {short(e)}")
        if isinstance(e, ast.IfExp):
            c = self.cond(e.test, env, assume)
            if c is None:
                raise Unsupported(f"undecided condition {short(e.test)}")
            return self.ev(e.body if c else e.orelse, env, assume, fn)
        if isinstance(e, ast.Call) and (dotted(e.func) or "").startswith("torch.") and not e.keywords:
            leaf = dotted(e.func).split(".")[-1]
            args = [self.ev(a, env, assume, fn) for a in e.args]
            if leaf in ("mul", "multiply") and len(args) == 2:
                return self._mul(args[0], args[1])
            if leaf == "add" and len(args) == 2:
                return self._add(args[0], args[1])
            if leaf in ("sub", "subtract") and len(args) == 2:
                return self._add(args[0], args[1].neg())
            if leaf == "matmul" and len(args) == 2 and isinstance(args[0], Mat) and isinstance(args[1], Mat):
                return args[0].matmul(args[1])
            if leaf in ("neg", "negative") and len(args) == 1:
                return args[0].neg()
            raise Unsupported(f"torch function {short(e)}")
        if isinstance(e, ast.Call) and isinstance(e.func, ast.Name) and fn is not None and e.func.id in fn.module.functions \
                and self.depth < 4 and not any(isinstance(a, ast.Starred) for a in e.args):
            # a module-level helper of the operator's module (_times_alpha(other, alpha)): its definition, parameters bound
            target = fn.module.functions[e.func.id]
            params = target.params()
            args = [self.ev(a, env, assume, fn) for a in e.args]
            kw = {k.arg: self.ev(k.value, env, assume, fn) for k in e.keywords if k.arg}
            dfl = target.defaults()
            env2: Dict[str, object] = {}
            for i, p in enumerate(params):
                if i < len(args):
                    env2[p] = args[i]
                elif p in kw:
                    env2[p] = kw[p]
                elif p in dfl and isinstance(dfl[p], ast.Constant) and dfl[p].value is None:
                    env2[p] = None
                else:
                    raise Unsupported(f"argument {p} of {e.func.id}")
            assume2 = {k_: v_ for k_, v_ in assume.items() if k_.startswith("#")}
            for p, v in env2.items():
                assume2[f"{p} is None"] = v is None
                assume2[f"{p} is not None"] = v is not None
            self.depth += 1
            try:
                r = self.method(target, env2, assume2)
            finally:
                self.depth -= 1
            if r is None:
                raise Unsupported(f"{e.func.id} returns nothing")
            return r
        if isinstance(e, ast.Call) and isinstance(e.func, ast.Attribute):
            recv = self.ev(e.func.value, env, assume, fn)
            args = [self.ev(a, env, assume, fn) for a in e.args]
            kw = {k.arg: self.ev(k.value, env, assume, fn) for k in e.keywords}
            name = e.func.attr
            if not isinstance(recv, Mat):
                raise Unsupported(f"call on scalar {short(e)}")
            if name == "matmul" and len(args) == 1 and isinstance(args[0], Mat):
                return recv.matmul(args[0])
            if name in ("solve", "_solve") and getattr(self, "solve_is_primitive", False):
                # A.solve(X) = A^-1 X by specification (C04 decides the implementations); A must be an atom (self / self^T)
                x = args[0] if args else kw.get("right_tensor", kw.get("rhs"))
                if isinstance(x, Mat) and len(recv.terms) == 1:
                    (k, v), = recv.terms.items()
                    if len(k) == 1 and v.key() == Scalar.const(1).key() and not ({"left_tensor"} & set(kw)):
                        sname, tr = k[0]
                        return Mat({((sname + "^-1", tr),): Scalar.const(1)}).matmul(x)
                raise Unsupported(f"solve on a compound receiver {short(e)}")
            if name == "mul" and len(args) == 1:
                return self._mul(recv, args[0])
            if name == "transpose" and [norm(a) for a in e.args] in (["-1", "-2"], ["-2", "-1"]):
                return recv.T(assume.get("#vectors", ()))
            if name == "t" and not args:
                return recv.T(assume.get("#vectors", ()))
            # sibling method of the operator: inline the definition as resolved on the class under analysis
            # (only when the receiver is the operator symbol itself or its transpose)
            target = self.idx.resolve_method(self.cls, name)
            if target is not None and self.depth < 4:
                params = target.params()[1:]
                env2: Dict[str, object] = {"self": recv}
                dfl = target.defaults()
                for i, p in enumerate(params):
                    if i < len(args):
                        env2[p] = args[i]
                    elif p in kw:
                        env2[p] = kw[p]
                    elif p in dfl and isinstance(dfl[p], ast.Constant) and dfl[p].value is None:
                        env2[p] = None
                    else:
                        raise Unsupported(f"argument {p} of {name}")
                assume2 = dict(assume)
                for p, v in env2.items():
                    assume2[f"{p} is None"] = v is None
                    assume2[f"{p} is not None"] = v is not None
                self.depth += 1
                try:
                    r = self.method(target, env2, assume2)
                finally:
                    self.depth -= 1
                if r is None:
                    raise Unsupported(f"{name} returns nothing")
                return r
            raise Unsupported(f"call {short(e)}")
        raise Unsupported(f"expression {short(e)}")

    @staticmethod
    def _add(l, r):
        if isinstance(l, Mat) and isinstance(r, Mat):
            return l + r
        if isinstance(l, Scalar) and isinstance(r, Scalar):
            return l + r
        raise Unsupported("matrix + scalar")

    @staticmethod
    def _mul(l, r):
        if isinstance(l, Scalar) and isinstance(r, Scalar):
            return l * r
        if isinstance(l, Scalar) and isinstance(r, Mat):
            return r.scale(l)
        if isinstance(l, Mat) and isinstance(r, Scalar):
            return l.scale(r)
        return l.hadamard(r)


def spec_value(kind: str, a: Mat, b: Mat, alpha: Scalar) -> Mat:
    if kind == "add":
        return a + b.scale(alpha)
    if kind == "sub":
        return a + b.scale(alpha).neg()
    if kind == "matmul":
        return a.matmul(b)
    if kind == "mul":
        return a.hadamard(b)
    if kind == "div":
        return a.hadamard(b.recip())
    raise AnalysisError(f"no spec for {kind}")


# ------------------------------------------------------------------------------------------------
def read_tables(idx: ProgramIndex, base: ClassInfo):
    """(first, second): torch function -> (method name, FunctionInfo), rebuilt from the decorators."""
    mod = base.module
    t_first, t_second = dispatch_table_names(idx, base)
    tabs = {t_first, t_second}
    # which table does each registration decorator write?  (a decorator factory = a module-level function with a nested
    # def that stores into one of the two tables)
    deco_tables: Dict[str, List[str]] = {}
    for name, fn in mod.functions.items():
        if not any(isinstance(x, (ast.FunctionDef, ast.Lambda)) for x in ast.walk(fn.node) if x is not fn.node):
            continue
        if not any(isinstance(x, ast.Name) and x.id in tabs for x in ast.walk(fn.node)):
            continue
        written = []
        # a loop variable / local alias standing for one or several tables: for tab in (_HANDLED_A, _HANDLED_B): tab[f] = name
        stands_for: Dict[str, List[str]] = {}
        for n in ast.walk(fn.node):
            if isinstance(n, ast.For) and isinstance(n.target, ast.Name) and isinstance(n.iter, (ast.Tuple, ast.List)):
                stands_for[n.target.id] = [e.id for e in n.iter.elts if isinstance(e, ast.Name) and e.id in tabs]
            if isinstance(n, ast.Assign) and len(n.targets) == 1 and isinstance(n.targets[0], ast.Name) \
                    and isinstance(n.value, ast.Name) and n.value.id in tabs:
                stands_for[n.targets[0].id] = [n.value.id]
        for n in ast.walk(fn.node):
            if isinstance(n, ast.Assign):
                for t in n.targets:
                    if isinstance(t, ast.Subscript) and isinstance(t.value, ast.Name):
                        if t.value.id in tabs:
                            written.append(t.value.id)
                        elif t.value.id in stands_for:
                            written += stands_for[t.value.id]
            if isinstance(n, ast.Call) and isinstance(n.func, ast.Attribute) and n.func.attr in ("__setitem__", "update", "setdefault") \
                    and isinstance(n.func.value, ast.Name):
                nm = n.func.value.id
                written += [nm] if nm in tabs else stands_for.get(nm, [])
        deco_tables[name] = written
    # a shared registrar: a module-level factory whose nested decorator stores into tables it RECEIVES as parameters
    # (def _make_registrar(torch_function, *tables): ... for table in tables: table[torch_function] = func.__name__),
    # and thin decorators that return its result for particular tables
    generic: Dict[str, Tuple[List[str], Optional[str], set]] = {}
    for name, fn in mod.functions.items():
        if name in deco_tables or not any(isinstance(x, (ast.FunctionDef, ast.Lambda)) for x in ast.walk(fn.node) if x is not fn.node):
            continue
        a_ = fn.node.args
        pos = [x.arg for x in a_.args]
        var = a_.vararg.arg if a_.vararg else None
        params = set(pos) | ({var} if var else set())
        stands: Dict[str, str] = {}
        for n in ast.walk(fn.node):
            if isinstance(n, ast.For) and isinstance(n.target, ast.Name) and isinstance(n.iter, ast.Name) and n.iter.id in params:
                stands[n.target.id] = n.iter.id
        pw = set()
        for n in ast.walk(fn.node):
            if isinstance(n, ast.Assign):
                for t in n.targets:
                    if isinstance(t, ast.Subscript) and isinstance(t.value, ast.Name):
                        b_ = t.value.id
                        if b_ in params:
                            pw.add(b_)
                        elif b_ in stands:
                            pw.add(stands[b_])
        if pw:
            generic[name] = (pos, var, pw)
    for name, fn in mod.functions.items():
        if name in deco_tables or name in generic:
            continue
        for n in ast.walk(fn.node):
            if isinstance(n, ast.Call) and isinstance(n.func, ast.Name) and n.func.id in generic:
                pos, var, pw = generic[n.func.id]
                written = []
                for i, arg in enumerate(n.args):
                    pn = pos[i] if i < len(pos) else var
                    if pn in pw and isinstance(arg, ast.Name) and arg.id in tabs:
                        written.append(arg.id)
                for k in n.keywords:
                    if k.arg in pw and isinstance(k.value, ast.Name) and k.value.id in tabs:
                        written.append(k.value.id)
                if written:
                    deco_tables[name] = deco_tables.get(name, []) + written
    if len(deco_tables) < 3:
        raise AnalysisError(f"registration decorators not found (have {sorted(deco_tables)})")
    first: Dict[str, Tuple[str, FunctionInfo]] = {}
    second: Dict[str, Tuple[str, FunctionInfo]] = {}
    nreg = 0
    for name, defs in base.all_defs.items():
        for fn in defs:
            for d in fn.decorators:
                if isinstance(d, ast.Call) and isinstance(d.func, ast.Name) and d.func.id in deco_tables and d.args:
                    tf = dotted(d.args[0])
                    if tf is None:
                        raise AnalysisError(f"{fn.qualname}: cannot read decorator argument {norm(d)}")
                    nreg += 1
                    for tab in deco_tables[d.func.id]:
                        if tab == t_first:
                            first[tf] = (name, fn)
                        elif tab == t_second:
                            second[tf] = (name, fn)
    # registrations on subclasses would write the same global tables
    for c in idx.operator_classes():
        if c is base:
            continue
        for name, defs in c.all_defs.items():
            for fn in defs:
                for d in fn.decorators:
                    if isinstance(d, ast.Call) and isinstance(d.func, ast.Name) and d.func.id in deco_tables:
                        raise AnalysisError(f"{fn.qualname}: registration on a subclass is not modelled")
    return first, second, nreg, deco_tables


def sig_accepts(base_fn: FunctionInfo, over: FunctionInfo) -> Optional[str]:
    """None if `over` accepts every call `base_fn` accepts; else the reason."""
    ba, oa = base_fn.node.args, over.node.args
    bpos = [a.arg for a in ba.args]
    opos = [a.arg for a in oa.args]
    b_req = len(bpos) - len(ba.defaults)
    o_req = len(opos) - len(oa.defaults)
    for i, p in enumerate(bpos):
        if i == 0:
            continue
        if i < len(opos):
            if opos[i] != p and oa.kwarg is None:
                return f"positional parameter #{i} is `{opos[i]}` but the registered method calls it `{p}` (keyword calls break)"
        elif oa.vararg is None:
            return f"registered method takes `{p}` but the override has no such parameter"
    if o_req > b_req:
        return f"override requires {o_req - 1} positional argument(s), the registered method only {b_req - 1}"
    for p in opos[len(bpos):]:
        if opos.index(p) < o_req:
            return f"override adds the required parameter `{p}`"
    bkw = [a.arg for a in ba.kwonlyargs]
    okw = [a.arg for a in oa.kwonlyargs]
    for p in bkw:
        if p not in okw and p not in opos and oa.kwarg is None:
            return f"keyword-only parameter `{p}` of the registered method is not accepted"
    for a, d in zip(oa.kwonlyargs, oa.kw_defaults):
        if d is None and a.arg not in bkw:
            return f"override adds the required keyword-only parameter `{a.arg}`"
    return None


# ------------------------------------------------------------------------------------------------
def run(idx: ProgramIndex, rep: Report, tier: str, selftest: bool = True):
    rep.extra["explanation"] = (
        "The dispatch tables are rebuilt from the registration decorators in the source (never by importing), then "
        "compared with (a) the list of functions the property statement names, (b) the class hierarchy: every "
        "registered method name is resolved through the statically computed MRO on all 36 operator classes and the "
        "override's signature must accept every call the registrant accepts, (c) the structure of __torch_function__ "
        "(guarded NotImplementedError, getattr(cls, TABLE[func]), operand swap in the operator-second branch). The "
        "reflected one-liners and every handler that serves the operator-second order are evaluated by term rewriting "
        "in the free (non-commutative) algebra over {self, other, alpha} with transpose as anti-automorphism and "
        "compared with torch's semantics f(a, b, alpha) - this proves sign, order, transpose and alpha placement for "
        "all operand values. NOT decided: the value each first-operand handler returns vs torch on the dense tensor."
    )
    rep.assumptions += [
        "`+`, `@`/matmul and mul on operators are true addition, product and elementwise product (C01/C02 territory)",
        "torch semantics table: add(a,b,alpha)=a+alpha*b, sub(a,b,alpha)=a-alpha*b, matmul(a,b)=a@b, mul commutative, "
        "isclose not commutative (rtol applies to the second operand)",
        "python evaluates `t <op> operator` through torch.Tensor.<op> and __torch_function__",
    ]
    base = idx.operator_base()
    first, second, nreg, deco_tables = read_tables(idx, base)
    rep.analysed["registrations"] = nreg
    rep.analysed["first_operand_table"] = {k: v[0] for k, v in sorted(first.items())}
    rep.analysed["second_operand_table"] = {k: v[0] for k, v in sorted(second.items())}

    # ---- T1 ----------------------------------------------------------------------------------------
    rep.rule("C15.T1", "every listed torch function is registered (both orders for the binary operations)", floor=35)
    for tf in LISTED_FIRST:
        if tf in first:
            rep.ok("C15.T1", {"torch_function": tf, "order": "operator first", "method": first[tf][0]})
        else:
            rep.bad("C15.T1", Finding(PROP, "C15.T1", "LinearOperator", f"{tf} (operator first)",
                                      f"{tf} is listed by the property but no method is registered for it: "
                                      f"{tf}(operator, ...) raises NotImplementedError", base.file))
    for tf in LISTED_SECOND:
        if tf in second:
            rep.ok("C15.T1", {"torch_function": tf, "order": "operator second", "method": second[tf][0]})
        else:
            rep.bad("C15.T1", Finding(PROP, "C15.T1", "LinearOperator", f"{tf} (operator second)",
                                      f"{tf}(tensor, operator) has no registered handler", base.file))
    if nreg < 30:
        rep.error(f"only {nreg} registration decorators found (expected >= 30)")

    # ---- T2 ----------------------------------------------------------------------------------------
    rep.rule("C15.T2", "registered method names resolve on every operator class to a call-compatible method", floor=900)
    names = sorted({v[0] for v in first.values()} | {v[0] for v in second.values()})
    for c in idx.operator_classes():
        for m in names:
            reg = base.methods.get(m)
            res = idx.resolve_method(c, m)
            if res is None or reg is None:
                rep.bad("C15.T2", Finding(PROP, "C15.T2", f"{c.name}.{m}", "unresolved", f"{m} does not resolve on {c.name}",
                                          c.file))
                continue
            if res is reg:
                rep.ok("C15.T2", {"class": c.name, "method": m, "resolved": "LinearOperator"})
                continue
            if res.is_property() or res.is_staticmethod() or res.is_classmethod():
                rep.bad("C15.T2", Finding(PROP, "C15.T2", f"{res.cls.name}.{m}", norm(res.node).split("\n")[0],
                                          f"{m} is registered as a torch handler but {res.cls.name} overrides it with a "
                                          "property / static / class method", res.loc()))
                continue
            why = sig_accepts(reg, res)
            if why is None:
                rep.ok("C15.T2", {"class": c.name, "method": m, "resolved": res.cls.name})
            else:
                rep.bad("C15.T2", Finding(PROP, "C15.T2", f"{res.cls.name}.{m}", f"def {m}({norm(res.node.args)})",
                                          f"torch dispatch resolves `{m}` by name on {c.name} and reaches "
                                          f"{res.cls.name}.{m}, whose signature is not call-compatible: {why}", res.loc()))

    # ---- T9: every parameter of a registered handler is consulted ---------------------------------
    # A handler that never reads one of its parameters is constant in it; torch is not (offset=, dim1=, alpha=, upper=, ...),
    # so the two disagree for some value of the argument unless the handler refuses (raises) unconditionally.
    rep.rule("C15.T9", "a registered handler consults every parameter it accepts (or refuses unconditionally)", floor=25)
    for m in names:
        reg = base.methods.get(m)
        if reg is None or not isinstance(reg.node, ast.FunctionDef):
            continue
        a = reg.node.args
        params = [x.arg for x in list(a.posonlyargs) + list(a.args)][1:] + [x.arg for x in a.kwonlyargs]
        if a.vararg:
            params.append(a.vararg.arg)
        if a.kwarg:
            params.append(a.kwarg.arg)
        body = [st for st in reg.node.body if not (isinstance(st, ast.Expr) and isinstance(st.value, ast.Constant))]
        refuses = bool(body) and isinstance(body[0], ast.Raise)
        in_messages = {id(x) for r_ in ast.walk(reg.node) if isinstance(r_, ast.Raise) for x in ast.walk(r_)}
        # (a name that only appears in the text of an error message decides nothing)
        loads = {x.id for x in ast.walk(reg.node) if isinstance(x, ast.Name) and isinstance(x.ctx, ast.Load) and id(x) not in in_messages}
        for p_ in params:
            sample = {"handler": f"LinearOperator.{m}", "parameter": p_}
            if p_ in loads or refuses or p_.startswith("_"):
                rep.ok("C15.T9", sample)
            else:
                rep.bad("C15.T9", Finding(PROP, "C15.T9", f"LinearOperator.{m}", f"parameter `{p_}` is never read",
                                          f"LinearOperator.{m} is the registered handler of a torch function and accepts `{p_}`, but never "
                                          f"reads it: the call returns the same result for every value of `{p_}`, where torch on the dense "
                                          "matrix does not (the argument is silently ignored instead of honoured or refused)", reg.loc()))

    # ---- T10: a parameter that only steers argument checks is pinned on every returning path -------
    # If a handler reads a parameter in nothing but the tests that guard its `raise` statements, the value it returns does not
    # depend on the parameter; torch's does.  So every path that returns must have established that the parameter equals
    # one of the constants it was compared with (its default): a returning path that is consistent with the parameter being
    # different from ALL of them silently ignores the argument.
    rep.rule("C15.T10", "a parameter that is only tested (never used in the value) is pinned to a tested constant on every returning path", floor=1)
    from ..cfg import CFG
    from ..conds import alternatives as _alts, atom as _atom, consistent as _consistent

    for m in names:
        reg = base.methods.get(m)
        if reg is None or not isinstance(reg.node, ast.FunctionDef):
            continue
        a = reg.node.args
        params = [x.arg for x in list(a.posonlyargs) + list(a.args)][1:] + [x.arg for x in a.kwonlyargs]
        # names read inside tests of if statements / conditional expressions, and names read anywhere else (outside raise)
        in_tests, in_raise = set(), set()
        for n_ in ast.walk(reg.node):
            if isinstance(n_, (ast.If, ast.IfExp, ast.While)):
                in_tests |= {id(x) for x in ast.walk(n_.test)}
            if isinstance(n_, ast.Raise):
                in_raise |= {id(x) for x in ast.walk(n_)}
            if isinstance(n_, ast.Assert):
                in_tests |= {id(x) for x in ast.walk(n_.test)}
        tested = {x.id for x in ast.walk(reg.node) if isinstance(x, ast.Name) and id(x) in in_tests and isinstance(x.ctx, ast.Load)}
        valued = {x.id for x in ast.walk(reg.node) if isinstance(x, ast.Name) and isinstance(x.ctx, ast.Load)
                  and id(x) not in in_tests and id(x) not in in_raise}
        only_tested = [p_ for p_ in params if p_ in tested and p_ not in valued]
        if not only_tested:
            continue
        try:
            cfg_ = CFG(reg)
        except Exception:
            continue
        paths = list(cfg_.acyclic_paths(limit=400))
        for p_ in only_tested:
            # the atoms `p == c` that occur in the tests
            atoms = set()
            for nd in cfg_.nodes.values():
                if nd.kind == "test" and nd.ast is not None:
                    for pol_ in (True, False):
                        for alt in _alts(nd.ast, pol_):
                            for lit in alt:
                                e_, _ = lit
                                if isinstance(e_, ast.Compare) and len(e_.ops) == 1 and isinstance(e_.ops[0], (ast.Eq, ast.NotEq, ast.Is, ast.IsNot)) \
                                        and isinstance(e_.left, ast.Name) and e_.left.id == p_ and isinstance(e_.comparators[0], (ast.Constant, ast.UnaryOp)):
                                    atoms.add(_atom(lit)[0])
            sample = {"handler": f"LinearOperator.{m}", "parameter": p_, "compared_with": sorted(atoms)}
            if not atoms:
                rep.ok("C15.T10", {**sample, "note": "tested in another form (not decided)"})
                continue
            assume = {a_: False for a_ in atoms}
            witness = None
            for pth in paths:
                tests = [(cfg_.nodes[a_].ast, cfg_.g[a_][b_].get("pol")) for a_, b_ in zip(pth, pth[1:])
                         if cfg_.nodes[a_].kind == "test" and cfg_.g[a_][b_].get("pol") is not None and cfg_.nodes[a_].ast is not None]
                if _consistent(tests, assume):
                    witness = [("" if pol_ else "not ") + short(t_, 50) for t_, pol_ in tests]
                    break
            if witness is None:
                rep.ok("C15.T10", sample)
            else:
                rep.bad("C15.T10", Finding(PROP, "C15.T10", f"LinearOperator.{m}", f"parameter `{p_}` can be ignored on a returning path",
                                           f"LinearOperator.{m} reads `{p_}` only in the tests that guard its raise statements, yet it can return "
                                           f"on a path that is consistent with `{p_}` being different from every constant it is compared with "
                                           f"({'; '.join(witness) or 'no test'}): the argument is silently ignored where torch on the dense "
                                           "matrix honours it", reg.loc()), sample)

    # ---- T3 ----------------------------------------------------------------------------------------
    check_torch_function(idx, rep, base)

    # ---- T4 / T5 -----------------------------------------------------------------------------------
    check_terms(idx, rep, base, first, second)
    check_solve_triangular(idx, rep, base)
    check_factorwise_maps(idx, rep)
    check_reflected_delegation(idx, rep, base, first, second)

    if selftest:
        from ..selftest import run_fixtures

        run_fixtures(rep, PROP)


class _PE:
    """Partial evaluation of __torch_function__ for one operand order: `isinstance(args[0], cls)` is a known constant,
    single-assignment locals are substituted, module-level helpers whose body is one `return <expr>` are expanded inside
    expressions, constant tests are resolved.  What is left is matched against the routing protocol."""

    def __init__(self, first: bool, cls_p: str, args_p: str, module):
        self.first, self.cls_p, self.args_p, self.module = first, cls_p, args_p, module
        self.guards: List[ast.expr] = []
        self.ret: Optional[ast.expr] = None
        self.order: List[str] = []

    # -- expressions
    def subst(self, e: ast.AST, env: Dict[str, ast.AST]) -> ast.AST:
        import copy

        pe = self

        class T(ast.NodeTransformer):
            def visit_Name(self, n):
                if isinstance(n.ctx, ast.Load) and n.id in env:
                    return copy.deepcopy(env[n.id])
                return n

            def visit_Lambda(self, n):
                return n

            def visit_GeneratorExp(self, n):  # bound variables may shadow: substitute only in the iterables
                n.generators[0].iter = self.visit(n.generators[0].iter)
                return n

            visit_ListComp = visit_SetComp = visit_GeneratorExp

        return pe.simplify(T().visit(copy.deepcopy(e)))

    def simplify(self, e: ast.AST) -> ast.AST:
        pe = self

        class S(ast.NodeTransformer):
            def visit_Call(self, n):
                self.generic_visit(n)
                if isinstance(n.func, ast.Name) and n.func.id == "isinstance" and len(n.args) == 2 \
                        and norm(n.args[0]) == f"{pe.args_p}[0]" and norm(n.args[1]) == pe.cls_p:
                    return ast.Constant(value=pe.first)
                if isinstance(n.func, ast.Lambda) and not n.keywords and not n.func.args.vararg and len(n.func.args.args) == len(n.args):
                    return pe.subst(n.func.body, dict(zip([a_.arg for a_ in n.func.args.args], n.args)))
                if isinstance(n.func, ast.Name) and n.func.id in pe.module.functions and not n.keywords:
                    h = pe.module.functions[n.func.id]
                    body = [x for x in h.body() if not (isinstance(x, ast.Expr) and isinstance(x.value, ast.Constant))]
                    if len(body) == 1 and isinstance(body[0], ast.Return) and body[0].value is not None \
                            and len(h.params()) == len(n.args) and "Error" not in norm(body[0].value):
                        return pe.subst(body[0].value, dict(zip(h.params(), n.args)))
                return n

            def visit_UnaryOp(self, n):
                self.generic_visit(n)
                if isinstance(n.op, ast.Not) and isinstance(n.operand, ast.Constant):
                    return ast.Constant(value=not n.operand.value)
                return n

            def visit_Subscript(self, n):
                self.generic_visit(n)
                # TABLE[<constant>] for a module-level dict display: the entry itself
                if isinstance(n.value, ast.Name) and isinstance(n.slice, ast.Constant) and n.value.id in pe.module.globals_ \
                        and isinstance(pe.module.globals_[n.value.id], ast.Dict):
                    dct = pe.module.globals_[n.value.id]
                    for k_, v_ in zip(dct.keys, dct.values):
                        if isinstance(k_, ast.Constant) and k_.value == n.slice.value and type(k_.value) is type(n.slice.value):
                            import copy as _copy

                            return pe.simplify(_copy.deepcopy(v_))
                if isinstance(n.value, ast.Tuple) and isinstance(n.slice, ast.Constant) and isinstance(n.slice.value, int) \
                        and -len(n.value.elts) <= n.slice.value < len(n.value.elts):
                    return n.value.elts[n.slice.value]
                # args[:k] / args[a:b] with small constant bounds: the tuple of its elements
                if isinstance(n.value, ast.Name) and n.value.id == pe.args_p and isinstance(n.slice, ast.Slice) and n.slice.step is None \
                        and isinstance(n.slice.upper, ast.Constant) and isinstance(n.slice.upper.value, int) and 0 <= n.slice.upper.value <= 4 \
                        and (n.slice.lower is None or (isinstance(n.slice.lower, ast.Constant) and isinstance(n.slice.lower.value, int) and n.slice.lower.value >= 0)):
                    lo = 0 if n.slice.lower is None else n.slice.lower.value
                    return ast.Tuple(elts=[ast.Subscript(value=ast.Name(id=pe.args_p, ctx=ast.Load()), slice=ast.Constant(value=i), ctx=ast.Load())
                                           for i in range(lo, n.slice.upper.value)], ctx=ast.Load())
                return n

            def visit_IfExp(self, n):
                self.generic_visit(n)
                if isinstance(n.test, ast.Constant):
                    return n.body if n.test.value else n.orelse
                return n

            def visit_BoolOp(self, n):
                self.generic_visit(n)
                is_and = isinstance(n.op, ast.And)
                vals = []
                for v in n.values:
                    if isinstance(v, ast.Constant) and isinstance(v.value, bool):
                        if v.value != is_and:
                            return ast.Constant(value=not is_and)
                        continue
                    vals.append(v)
                if not vals:
                    return ast.Constant(value=is_and)
                return vals[0] if len(vals) == 1 else ast.BoolOp(op=n.op, values=vals)

        return S().visit(e)

    # -- statements
    def raises_not_implemented(self, body: List[ast.stmt]) -> bool:
        for st in body:
            for x in ast.walk(st):
                if isinstance(x, ast.Raise) and x.exc is not None:
                    t = norm(x.exc)
                    if "NotImplementedError" in t:
                        return True
                    if isinstance(x.exc, ast.Call) and isinstance(x.exc.func, ast.Name) and x.exc.func.id in self.module.functions \
                            and "NotImplementedError" in norm(self.module.functions[x.exc.func.id].node):
                        return True
        return False

    def run(self, stmts: List[ast.stmt], env: Dict[str, ast.AST]) -> bool:
        """True when the block certainly returns / raises."""
        for st in stmts:
            if isinstance(st, ast.Expr):
                continue
            if isinstance(st, ast.Assign) and len(st.targets) == 1 and isinstance(st.targets[0], ast.Name):
                env[st.targets[0].id] = self.subst(st.value, env)
                continue
            if isinstance(st, ast.Assign) and len(st.targets) == 1 and isinstance(st.targets[0], (ast.Tuple, ast.List)) \
                    and all(isinstance(t_, ast.Name) for t_ in st.targets[0].elts):
                v = self.subst(st.value, env)
                if isinstance(v, (ast.Tuple, ast.List)) and len(v.elts) == len(st.targets[0].elts):
                    for t_, e_ in zip(st.targets[0].elts, v.elts):
                        env[t_.id] = e_
                    continue
                raise Unsupported(f"statement {short(st)}")
            if isinstance(st, ast.Return):
                self.ret = self.subst(st.value, env) if st.value is not None else None
                self.order.append("return")
                return True
            if isinstance(st, ast.Raise):
                self.order.append("raise")
                return True
            if isinstance(st, ast.If):
                t = self.subst(st.test, env)
                if isinstance(t, ast.Constant):
                    if self.run(st.body if t.value else st.orelse, env):
                        return True
                    continue
                if self.raises_not_implemented(st.body) and not any(isinstance(x, ast.Return) for s_ in st.body for x in ast.walk(s_)):
                    self.guards.append(t)
                    self.order.append("guard")
                    if self.run(st.orelse, env):
                        return True
                    continue
                if st.orelse and self.raises_not_implemented(st.orelse):
                    self.guards.append(ast.UnaryOp(op=ast.Not(), operand=t))
                    self.order.append("guard")
                    if self.run(st.body, env):
                        return True
                    continue
                e1, e2 = dict(env), dict(env)
                r1, r2 = self.run(st.body, e1), self.run(st.orelse, e2)
                for k in set(e1) | set(e2):
                    a, b = e1.get(k), e2.get(k)
                    if a is not None and b is not None and norm(a) == norm(b):
                        env[k] = a
                    elif a is not None and b is not None:
                        env[k] = ast.IfExp(test=t, body=a, orelse=b)
                if r1 and r2:
                    return True
                continue
            raise Unsupported(f"statement {short(st)}")
        return False


def _disjuncts(e: ast.AST) -> List[ast.AST]:
    """cond as a disjunction: a or b -> [a, b];  not (a and b) -> [not a, not b]."""
    if isinstance(e, ast.BoolOp) and isinstance(e.op, ast.Or):
        return [d for v in e.values for d in _disjuncts(v)]
    if isinstance(e, ast.UnaryOp) and isinstance(e.op, ast.Not) and isinstance(e.operand, ast.BoolOp) and isinstance(e.operand.op, ast.And):
        return [d for v in e.operand.values for d in _disjuncts(ast.UnaryOp(op=ast.Not(), operand=v))]
    return [e]


def dispatch_table_names(idx, base: ClassInfo) -> Tuple[str, str]:
    """(table consulted when the operator is the first operand, table consulted when it is the second), read off the
    handler lookup `getattr(cls, TABLE[func])` that __torch_function__ returns in either case - whatever they are called."""
    fn = base.methods.get("__torch_function__")
    if fn is None:
        raise AnalysisError("LinearOperator.__torch_function__ not found")
    params = fn.params()
    cls_p = params[0]
    args_p = params[3] if len(params) > 3 else "args"
    names = []
    for first in (True, False):
        pe = _PE(first, cls_p, args_p, fn.module)
        try:
            pe.run(fn.body(), {})
        except Unsupported as e:
            raise AnalysisError(f"__torch_function__ ({'operator first' if first else 'operator second'}): not evaluable: {e}")
        r = pe.ret
        t = None
        # the table of an operand order is the one whose membership decides acceptance (the guard); the lookup is then
        # CHECKED against it (T3).  Fall back to the lookup when no membership guard is recognisable.
        func_p = params[1]
        for g in pe.guards:
            for d_ in _disjuncts(g):
                c_ = d_.operand if isinstance(d_, ast.UnaryOp) and isinstance(d_.op, ast.Not) else d_
                if isinstance(c_, ast.Compare) and len(c_.ops) == 1 and isinstance(c_.ops[0], (ast.NotIn, ast.In)) \
                        and norm(c_.left) == func_p and isinstance(c_.comparators[0], ast.Name) and c_.comparators[0].id in fn.module.globals_:
                    t = t or c_.comparators[0].id
        if t is None and isinstance(r, ast.Call) and isinstance(r.func, ast.Call) and isinstance(r.func.func, ast.Name) and r.func.func.id == "getattr" \
                and len(r.func.args) == 2 and isinstance(r.func.args[1], ast.Subscript) and isinstance(r.func.args[1].value, ast.Name):
            t = r.func.args[1].value.id
        if t is None or t not in fn.module.globals_:
            raise AnalysisError(f"__torch_function__: handler lookup getattr(cls, TABLE[func]) not found in the "
                                f"{'operator-first' if first else 'operator-second'} case (returns `{short(r) if r is not None else None}`)")
        names.append(t)
    if names[0] == names[1]:
        raise AnalysisError(f"__torch_function__ uses the same table {names[0]} for both operand orders")
    return names[0], names[1]


def check_torch_function(idx, rep: Report, base: ClassInfo):
    rep.rule("C15.T3", "__torch_function__ routes by operand position, by method name, and refuses unknown functions", floor=7)
    fn = base.methods.get("__torch_function__")
    if fn is None:
        raise AnalysisError("LinearOperator.__torch_function__ not found")
    who = "LinearOperator.__torch_function__"
    if not fn.is_classmethod():
        rep.bad("C15.T3", Finding(PROP, "C15.T3", who, "decorators", "__torch_function__ is not a classmethod", fn.loc()))
    else:
        rep.ok("C15.T3", {"classmethod": True})
    params = fn.params()
    cls_p, func_p = params[0], params[1]
    args_p = params[3] if len(params) > 3 else "args"
    if not any(isinstance(x, ast.Call) and isinstance(x.func, ast.Name) and x.func.id == "isinstance"
               and len(x.args) == 2 and norm(x.args[0]) == f"{args_p}[0]" and norm(x.args[1]) == cls_p for x in ast.walk(fn.node)):
        raise AnalysisError("__torch_function__: no test isinstance(args[0], cls) - the operand order is not decided by position")
    t_first, t_second = dispatch_table_names(idx, base)
    for first, table, order in ((True, t_first, "operator first"), (False, t_second, "operator second")):
        pe = _PE(first, cls_p, args_p, fn.module)
        try:
            pe.run(fn.body(), {})
        except Unsupported as e:
            raise AnalysisError(f"__torch_function__ ({order}): not evaluable: {e}")
        # (a) a membership test on the right table guards a NotImplementedError before the handler is returned
        guard_ok = False
        for g in pe.guards:
            for d in _disjuncts(g):
                t = norm(d)
                if t in (f"{func_p} not in {table}", f"not {func_p} in {table}", f"not ({func_p} in {table})"):
                    guard_ok = True
        before = "guard" in pe.order and "return" in pe.order and pe.order.index("guard") < pe.order.index("return")
        what = "membership test guarding `raise NotImplementedError`"
        if guard_ok and before:
            rep.ok("C15.T3", {"order": order, "check": what, "table": table})
        else:
            rep.bad("C15.T3", Finding(PROP, "C15.T3", who, f"{order}: {what}",
                                      f"{order} branch lacks the {what} on table {table} (guards found: {[norm(g)[:60] for g in pe.guards]}): an "
                                      "unregistered function is mis-dispatched instead of raising NotImplementedError", fn.loc()))
        # (b) + (c) the handler is looked up by NAME on the receiving class and called with the operator first
        r = pe.ret
        lookup = f"getattr({cls_p}, {table}[{func_p}])"
        if not (isinstance(r, ast.Call) and norm(r.func) == lookup):
            rep.bad("C15.T3", Finding(PROP, "C15.T3", who, f"{order}: handler lookup {lookup}",
                                      f"{order} branch returns `{short(r) if r is not None else None}`; the handler must be resolved by name on "
                                      f"the receiving class: {lookup}(...)", fn.loc()))
            continue
        rep.ok("C15.T3", {"order": order, "check": f"handler lookup {lookup}"})
        actual = [norm(a) for a in r.args] + ["**" + norm(k.value) for k in r.keywords if k.arg is None]
        want = [f"*{args_p}", "**kwargs"] if first else [f"{args_p}[1]", f"{args_p}[0]", f"*{args_p}[2:]", "**kwargs"]
        if actual == want:
            rep.ok("C15.T3", {"order": order, "handler_call": norm(r)[:120]})
        else:
            rep.bad("C15.T3", Finding(PROP, "C15.T3", who, norm(r),
                                      f"{order} branch calls the handler with ({', '.join(actual)}); the operator must be "
                                      f"passed first: ({', '.join(want)})", fn.loc()))


def check_solve_triangular(idx, rep: Report, base: ClassInfo):
    """T6: solve_triangular(A, R, left=...) = A^-1 R for left=True and R A^-1 for left=False (or raises), evaluated in
    the free algebra with A.solve(X) = A^-1 X as a primitive."""
    rep.rule("C15.T6", "solve_triangular returns A^-1 R (left) / R A^-1 (right) or raises, for each value of `left`", floor=2)
    S, O = Mat.sym("self"), Mat.sym("other")
    Sinv = Mat({(("self^-1", False),): Scalar.const(1)})
    for c in idx.operator_classes():
        fn = c.methods.get("solve_triangular")
        if fn is None or "left" not in fn.params():
            continue
        rhs_name = fn.params()[1]
        for left in (True, False):
            who = f"{c.name}.solve_triangular"
            case = {"method": who, "left": left}
            te = TermEval(idx, base, c)
            te.solve_is_primitive = True
            env: Dict[str, object] = {"self": S, rhs_name: O}
            diag = idx.classes.get("linear_operator.operators.diag_linear_operator.DiagLinearOperator")
            symmetric = ("self", "self^-1") if (diag is not None and diag in c.mro) else ()  # a diagonal matrix is its own transpose
            assume = {"left": left, "not left": not left, "unitriangular": False, "not unitriangular": True,
                      "upper != self.upper": False, "upper == self.upper": True, "#vectors": symmetric}
            try:
                got = te.method(fn, env, assume)
            except Raised:
                got = None
            except Unsupported as e:
                rep.note(f"{who} (left={left}): not evaluable by term rewriting ({e})")
                continue
            want = Sinv.matmul(O) if left else O.matmul(Sinv)
            if got is None:
                # every path raises for this flag value: allowed (loud)
                rep.ok("C15.T6", {**case, "value": "raises / no value"})
            elif isinstance(got, Mat) and got.key() == want.key():
                rep.ok("C15.T6", {**case, "value": got.show()})
            elif isinstance(got, Mat):
                rep.bad("C15.T6", Finding(PROP, "C15.T6", who, f"left={left}: {got.show()}",
                                          f"{who}(R, left={left}) evaluates to `{got.show()}` but torch.linalg.solve_triangular "
                                          f"computes `{want.show()}`", fn.loc()))


# elementwise functions f with f(x * y) = f(x) * f(y): only these may be applied factor by factor to a Kronecker product
# of diagonals, because the diagonal of a (x) b consists of the products a_i * b_j
MULTIPLICATIVE = {"abs", "sqrt", "inverse", "reciprocal", "pow", "square", "conj", "sign", "_transpose_nonbatch", "mT", "t",
                  "transpose", "detach", "clone", "to", "type", "double", "float", "half", "cpu", "cuda", "requires_grad_",
                  "_expand_batch", "_unsqueeze_batch", "_permute_batch", "_getitem", "evaluate_kernel", "to_dense", "_diagonal",
                  "inv", "rsqrt"}
ELEMENTWISE_UNARY = {"exp", "log", "abs", "sqrt", "sin", "cos", "tanh", "sigmoid", "expm1", "log1p", "neg", "reciprocal", "rsqrt",
                     "square", "pow", "sign", "inverse"}


def check_factorwise_maps(idx, rep: Report):
    """T7: a unary elementwise function applied factor by factor to a Kronecker product must be multiplicative."""
    rep.rule("C15.T7", "factor-wise unary maps on Kronecker-structured operators are multiplicative functions", floor=3)
    for c in idx.operator_classes():
        if "Kronecker" not in c.name:
            continue
        for mname, fn in c.methods.items():
            if mname not in ELEMENTWISE_UNARY:
                continue
            # the method body plus the private helper methods it calls on self (self._factor_inverses() ...)
            nodes, seen_h, todo = [], {fn.qualname}, [fn]
            while todo:
                f_cur = todo.pop()
                for n in walk_body(f_cur):
                    nodes.append(n)
                    if isinstance(n, ast.Call) and isinstance(n.func, ast.Attribute) and isinstance(n.func.value, ast.Name) \
                            and n.func.value.id == "self" and n.func.attr not in ELEMENTWISE_UNARY:
                        h = idx.resolve_method(c, n.func.attr)
                        if h is not None and h.qualname not in seen_h and h.name.startswith("_") and len(seen_h) < 6:
                            seen_h.add(h.qualname)
                            todo.append(h)
            for n in nodes:
                if not isinstance(n, (ast.ListComp, ast.GeneratorExp)):
                    continue
                g = n.generators[0]
                if not (isinstance(g.iter, ast.Attribute) and g.iter.attr == "linear_ops" and isinstance(g.target, ast.Name)):
                    continue
                e = n.elt
                if isinstance(e, ast.Call) and isinstance(e.func, ast.Attribute) and isinstance(e.func.value, ast.Name) \
                        and e.func.value.id == g.target.id:
                    f_ = e.func.attr
                    sample = {"class": c.name, "method": mname, "applied_to_each_factor": f_}
                    if f_ in MULTIPLICATIVE:
                        rep.ok("C15.T7", sample)
                    else:
                        rep.bad("C15.T7", Finding(PROP, "C15.T7", f"{c.name}.{mname}", norm(n),
                                                  f"{c.name}.{mname} applies `{f_}` to every Kronecker factor, but {f_}(a (x) b) is "
                                                  f"{f_}(a) (x) {f_}(b) only for multiplicative functions (abs, sqrt, inverse, pow ...): "
                                                  f"torch.{mname}(op) disagrees with torch.{mname} of the dense matrix", fn.loc(n)), sample)


COMMUTATIVE_FUNCTIONS = {"add", "mul", "eq", "ne", "maximum", "minimum", "equal"}


def check_reflected_delegation(idx, rep: Report, base: ClassInfo, first, second):
    """T8: the handler registered for f(Tensor, Operator) must not hand its operands, unswapped, to the implementation of
    f(Operator, Tensor) unless f is commutative: torch.isclose(t, op) measures the relative tolerance against op, not t."""
    rep.rule("C15.T8", "operator-second handlers of non-commutative functions do not delegate unswapped to the operator-first handler", floor=1)
    for tf, (m2, fn2) in sorted(second.items()):
        leaf = tf.split(".")[-1]
        if tf not in first or leaf in COMMUTATIVE_FUNCTIONS:
            continue
        m1, fn1 = first[tf]
        if fn1 is fn2 or len(fn1.params()) < 2 or len(fn2.params()) < 2:
            continue
        op1, op2 = fn1.params()[1], fn2.params()[1]
        forward = {m1}
        for n in walk_body(fn1):
            if isinstance(n, ast.Call) and isinstance(n.func, ast.Attribute) and isinstance(n.func.value, ast.Name) and n.func.value.id == "self" \
                    and n.args and isinstance(n.args[0], ast.Name) and n.args[0].id == op1:
                forward.add(n.func.attr)
        bad = [n for n in walk_body(fn2) if isinstance(n, ast.Call) and isinstance(n.func, ast.Attribute) and isinstance(n.func.value, ast.Name)
               and n.func.value.id == "self" and n.func.attr in forward and n.args and isinstance(n.args[0], ast.Name) and n.args[0].id == op2]
        sample = {"function": tf, "operator_first": m1, "operator_second": m2, "forward_implementations": sorted(forward)}
        if bad:
            rep.bad("C15.T8", Finding(PROP, "C15.T8", f"{base.name}.{m2}", norm(bad[0])[:90],
                                      f"{base.name}.{m2} handles {tf}(tensor, operator) by calling `{short(bad[0], 60)}`, the implementation of "
                                      f"{tf}(operator, tensor), with the operands in the same roles: {tf} is not commutative, so the result is "
                                      f"{tf}(operator, tensor) instead of {tf}(tensor, operator)", fn2.loc(bad[0])), sample)
        else:
            rep.ok("C15.T8", sample)


def check_terms(idx, rep: Report, base: ClassInfo, first, second):
    rep.rule("C15.T4", "reflected one-liners equal their reference in the free algebra", floor=10)
    rep.rule("C15.T5", "operator-second handlers compute f(other, self, ...) and accept the same keywords", floor=9)
    S, O = Mat.sym("self"), Mat.sym("other")
    alpha = Scalar.sym("alpha")

    # (method, spec builder(self, other, alpha) , cases)
    refl = {
        "__sub__": lambda s, o, a: spec_value("sub", s, o, Scalar.const(1)),
        "__radd__": lambda s, o, a: spec_value("add", o, s, a),
        "__rsub__": lambda s, o, a: spec_value("sub", o, s, a),
        "__rmul__": lambda s, o, a: spec_value("mul", o, s, a),
        "__mul__": lambda s, o, a: spec_value("mul", s, o, a),
        "__matmul__": lambda s, o, a: spec_value("matmul", s, o, a),
        "__rmatmul__": lambda s, o, a: spec_value("matmul", o, s, a),
        "rmatmul": lambda s, o, a: spec_value("matmul", o, s, a),
        "__truediv__": lambda s, o, a: spec_value("div", s, o, a),
        "add": lambda s, o, a: spec_value("add", s, o, a),
        "sub": lambda s, o, a: spec_value("sub", s, o, a),
        "div": lambda s, o, a: spec_value("div", s, o, a),
    }

    def cases_for(fn: FunctionInfo):
        """alpha given / absent (when the method has it); other 1-D / matrix (when the body asks)."""
        has_alpha = "alpha" in fn.params()
        asks_ndim = any(isinstance(n, ast.Attribute) and n.attr in ("ndim",) for n in ast.walk(fn.node)) or any(
            isinstance(n, ast.Call) and isinstance(n.func, ast.Attribute) and n.func.attr in ("dim", "ndimension")
            and isinstance(n.func.value, ast.Name) and n.func.value.id == "other" for n in ast.walk(fn.node))
        out = []
        for a_given in ([False, True] if has_alpha else [False]):
            for vec in ([False, True] if asks_ndim else [False]):
                out.append((a_given, vec))
        return out

    def evaluate(cls: ClassInfo, fn: FunctionInfo, a_given: bool, vec: bool):
        env: Dict[str, object] = {"self": S, "other": O}
        assume: Dict[str, object] = {
            "alpha is None": not a_given, "alpha is not None": a_given,
            "other.ndim == 1": vec, "other.dim() == 1": vec, "other.ndimension() == 1": vec,
            "#vectors": ("other",) if vec else (),
        }
        if "alpha" in fn.params():
            env["alpha"] = alpha if a_given else None
        te = TermEval(idx, base, cls)
        return te.method(fn, env, assume)

    def spec_in_case(builder, a_given: bool, vec: bool) -> Mat:
        v = builder(S, O, alpha if a_given else Scalar.const(1))
        if vec:
            # 1-D other: v @ A is the vector A^T v; compare modulo a global transpose with other^T == other
            alt = v.T(("other",))
            return v, alt
        return v, None

    # T4: base class one-liners and every subclass override that is evaluable
    # (subclass overrides are type dispatch with class-specific semantics - e.g. zero / x = zero - and are not
    # one-liners; they are C02 territory)
    for c in [base]:
        for m, builder in refl.items():
            fn = c.methods.get(m)
            if fn is None:
                continue
            who = f"{c.name}.{m}"
            for a_given, vec in cases_for(fn):
                case = {"method": who, "alpha": "given" if a_given else "absent", "other": "1-D" if vec else "matrix"}
                try:
                    got = evaluate(c, fn, a_given, vec)
                except Unsupported as e:
                    if c is base:
                        rep.error(f"{who}: reflected one-liner is no longer evaluable by term rewriting ({e})")
                    else:
                        rep.note(f"{who} ({case}): not a one-liner, not evaluated ({e})")
                    continue
                if got is None or not isinstance(got, Mat):
                    rep.note(f"{who}: no matrix value")
                    continue
                want, alt = spec_in_case(builder, a_given, vec)
                if got.key() == want.key() or (alt is not None and got.key() == alt.key()):
                    rep.ok("C15.T4", {**case, "value": got.show(), "reference": want.show()})
                else:
                    rep.bad("C15.T4", Finding(
                        PROP, "C15.T4", who, f"{m}[alpha {case['alpha']}, other {case['other']}] = {got.show()}",
                        f"{who} evaluates to `{got.show()}` but the operation it implements is `{want.show()}` "
                        f"(alpha {case['alpha']}, other {case['other']})", fn.loc()))

    # T5: handlers serving the operator-second order
    def binary_kind(tf: str) -> Optional[str]:
        leaf = tf.split(".")[-1]
        leaf = {"true_divide": "div", "divide": "div", "multiply": "mul", "subtract": "sub"}.get(leaf, leaf)
        return leaf if leaf in ("add", "sub", "matmul", "mul", "div") else None

    for tf, (mname, fn) in sorted(second.items()):
        kind = binary_kind(tf)
        who = f"LinearOperator.{mname}"
        partner_tf = "torch." + tf.split(".")[-1]
        partner = first.get(partner_tf)
        # keyword compatibility with the operator-first handler of the same function
        if partner is not None:
            p_extra = [p for p in partner[1].params()[2:]]
            h_params = fn.params()[2:]
            missing = [p for p in p_extra if p not in h_params and fn.node.args.kwarg is None]
            sample = {"torch_function": tf, "second_operand_handler": mname, "first_operand_handler": partner[0],
                      "keywords": p_extra}
            if missing:
                rep.bad("C15.T5", Finding(
                    PROP, "C15.T5", who, f"{tf} -> {mname}({', '.join(fn.params())})",
                    f"{tf}(tensor, operator, {', '.join(m + '=...' for m in missing)}) is dispatched to {mname}, which "
                    f"does not accept {missing} although {partner_tf}(operator, tensor, ...) -> {partner[0]} does "
                    "(TypeError instead of the result)", fn.loc()))
            else:
                rep.ok("C15.T5", sample)
        # semantics
        if tf in NONCOMMUTATIVE and tf in first and first[tf][0] == mname:
            rep.bad("C15.T5", Finding(
                PROP, "C15.T5", who, f"{tf} registered for both operand orders -> {mname}",
                f"{tf} is registered symmetrically, so {tf}(tensor, operator, ...) runs {mname}(operator, tensor, ...): "
                + NONCOMMUTATIVE[tf], fn.loc()))
            continue
        if kind is None:
            if tf in first and first[tf][0] == mname and tf not in COMMUTATIVE:
                rep.bad("C15.T5", Finding(PROP, "C15.T5", who, f"{tf} registered for both operand orders -> {mname}",
                                          f"{tf} is registered for both operand orders but is not known to be commutative",
                                          fn.loc()))
            continue
        if kind == "mul":
            # elementwise product is commutative: any handler without order-sensitive extras is fine
            extras = fn.params()[2:]
            if extras:
                rep.bad("C15.T5", Finding(PROP, "C15.T5", who, f"{tf} -> {mname}({', '.join(fn.params())})",
                                          "operator-second mul handler has extra parameters", fn.loc()))
            else:
                rep.ok("C15.T5", {"torch_function": tf, "handler": mname, "semantics": "commutative elementwise product"})
            continue
        for a_given, vec in cases_for(fn):
            case = {"torch_function": tf, "handler": mname, "alpha": "given" if a_given else "absent",
                    "other": "1-D" if vec else "matrix"}
            try:
                got = evaluate(base, fn, a_given, vec)
            except Unsupported as e:
                rep.error(f"{who}: operator-second handler for {tf} is not evaluable by term rewriting ({e})")
                continue
            a_val = alpha if a_given else Scalar.const(1)
            want = spec_value(kind, O, S, a_val)  # f(other = tensor, self = operator)
            alt = want.T(("other",)) if vec else None
            if isinstance(got, Mat) and (got.key() == want.key() or (alt is not None and got.key() == alt.key())):
                rep.ok("C15.T5", {**case, "value": got.show(), "reference": want.show()})
            else:
                shown = got.show() if isinstance(got, Mat) else str(got)
                rep.bad("C15.T5", Finding(
                    PROP, "C15.T5", who, f"{tf}(other, self)[alpha {case['alpha']}] -> {mname} = {shown}",
                    f"{tf}(tensor, operator{', alpha=alpha' if a_given else ''}) is dispatched to "
                    f"{mname}(operator, tensor, ...) which evaluates to `{shown}`; torch computes `{want.show()}`",
                    fn.loc()))
