"""C07 - gradients through operators equal gradients through the dense computation (structural clauses).

The value of a gradient is numerical; what is structural is the POSITIONAL PROTOCOL that makes a gradient land on the
input it belongs to.  For every ``torch.autograd.Function`` of the package:

    P1  every ``backward`` return tuple has as many leading fixed entries as ``forward`` has fixed inputs (its fixed
        parameters plus the inputs it unpacks from the front of ``*args`` on that path); the tail is the gradient of
        the flattened representation
    P2  ``ctx.needs_input_grad[i]`` gates the gradient that is returned at position ``i``; ``needs_input_grad[j:]`` gates
        the representation gradients and ``j`` is the length of the fixed prefix
    P3  ``ctx.save_for_backward`` and the unpacking of ``ctx.saved_tensors`` agree on how many tensors precede and follow
        the flattened representation
    P4  every ``.apply(...)`` site passes as many fixed arguments as ``forward`` expects (for the value of a literal
        layout flag such as ``has_left``) and does not pass ``self.X`` in the slot of a different parameter named ``X``
    P6  the operator is rebuilt in ``backward`` from the saved representation slice
        (``ctx.representation_tree(*<the starred part of saved_tensors>)``)
"""
from __future__ import annotations

import ast
import copy
from typing import Dict, List, Optional, Set, Tuple

from ..index import AnalysisError, ClassInfo, FunctionInfo, ProgramIndex, dotted, norm, short, walk_body
from ..deps import ReachingDefs
from ..report import Finding, Report

PROP = "C07"


def fname(fn: FunctionInfo) -> str:
    return f"{fn.cls.name}.{fn.name}" if fn.cls else fn.qualname


def list_layout(e: ast.AST, env: Dict[str, List], depth: int = 0) -> Optional[List[Tuple[str, ast.AST]]]:
    """Flatten a list-building expression into [('one', node) | ('many', node)]; None when not understood."""
    if depth > 6:
        return None
    if isinstance(e, ast.Call) and isinstance(e.func, ast.Name) and e.func.id in ("tuple", "list") and len(e.args) == 1:
        inner = list_layout(e.args[0], env, depth + 1)
        return inner if inner is not None else [("many", e.args[0])]
    if isinstance(e, (ast.List, ast.Tuple)):
        out = []
        for x in e.elts:
            if isinstance(x, ast.Starred):
                out.append(("many", x.value))
            else:
                out.append(("one", x))
        return out
    if isinstance(e, ast.BinOp) and isinstance(e.op, ast.Add):
        l = list_layout(e.left, env, depth + 1)
        r = list_layout(e.right, env, depth + 1)
        if l is None or r is None:
            return None
        return l + r
    if isinstance(e, ast.BinOp) and isinstance(e.op, ast.Mult):
        # [None] * k
        lst, k = (e.left, e.right) if isinstance(e.left, (ast.List, ast.Tuple)) else (e.right, e.left)
        if isinstance(lst, (ast.List, ast.Tuple)) and isinstance(k, ast.Constant) and isinstance(k.value, int):
            return [("one", x) for x in lst.elts] * k.value
        return [("many", e)]
    if isinstance(e, ast.Name):
        if e.id in env:
            return env[e.id]
        return [("many", e)]
    return [("many", e)]


def prefix_len(layout: List[Tuple[str, ast.AST]]) -> int:
    n = 0
    for kind, _ in layout:
        if kind != "one":
            break
        n += 1
    return n


def suffix_len(layout: List[Tuple[str, ast.AST]]) -> int:
    n = 0
    for kind, _ in reversed(layout):
        if kind != "one":
            break
        n += 1
    return n


class Fn:
    """Protocol facts of one autograd Function."""

    def __init__(self, idx: ProgramIndex, cls: ClassInfo):
        self.idx = idx
        self.cls = cls
        self.fw = cls.methods["forward"]
        self.bw = cls.methods["backward"]
        try:  # same-module helpers (argument splitting, gradient assembly) are analysed as part of the body
            from ..inline import inline_helpers

            self.fw, _ = inline_helpers(idx, self.fw)
            self.bw, _ = inline_helpers(idx, self.bw)
        except Exception:  # an un-inlinable shape is analysed as written
            pass
        a = self.fw.node.args
        self.fixed = [x.arg for x in a.args][1:]
        self.star = a.vararg.arg if a.vararg else None
        self.front_unpacks = self._front_unpacks()

    def _front_unpacks(self) -> Dict[Optional[Tuple[str, bool]], int]:
        """condition (flag text, polarity) -> number of inputs taken from the front of *args on that path."""
        out: Dict[Optional[Tuple[str, bool]], int] = {}
        if self.star is None:
            return {None: 0}

        def visit(body, cond):
            for st in body:
                if isinstance(st, ast.If):
                    t = norm(st.test)
                    visit(st.body, (t, True) if cond is None else cond)
                    visit(st.orelse, (t, False) if cond is None else cond)
                elif isinstance(st, ast.Assign):
                    v = st.value
                    if isinstance(v, ast.Name) and v.id == self.star:
                        for tg in st.targets:
                            if isinstance(tg, (ast.Tuple, ast.List)) and any(isinstance(x, ast.Starred) for x in tg.elts):
                                k = 0
                                for x in tg.elts:
                                    if isinstance(x, ast.Starred):
                                        break
                                    k += 1
                                out[cond] = out.get(cond, 0) + k
                    # x = args[0] ; args = args[1:]
                    if isinstance(v, ast.Subscript) and isinstance(v.value, ast.Name) and v.value.id == self.star \
                            and isinstance(v.slice, ast.Constant) and isinstance(v.slice.value, int) and v.slice.value >= 0:
                        out[cond] = max(out.get(cond, 0), v.slice.value + 1)

        visit(self.fw.body(), None)
        if not out:
            out[None] = 0
        # complete conditional layouts with the complementary branch
        for (c) in list(out):
            if c is not None:
                comp = (c[0], not c[1])
                out.setdefault(comp, 0)
        return out

    def allowed_prefixes(self) -> Set[int]:
        return {len(self.fixed) + u for u in self.front_unpacks.values()}


def reachable_returns(fn: FunctionInfo, stmt: ast.AST, returns: List[ast.Return]) -> List[ast.Return]:
    """Returns that can execute after `stmt` (CFG reachability)."""
    import networkx as nx

    from ..cfg import CFG

    cfg = CFG(fn)
    src = cfg.node_of(stmt.test if isinstance(stmt, ast.If) else stmt)
    if src is None:
        return returns
    out = []
    for r in returns:
        rn = cfg.node_of(r)
        if rn is not None and (rn.id == src.id or nx.has_path(cfg.g, src.id, rn.id)):
            out.append(r)
    return out or returns


def collect_functions(idx: ProgramIndex) -> List[ClassInfo]:
    out = []
    for c in idx.classes.values():
        if c.module.name.startswith("linear_operator.functions") and "forward" in c.methods and "backward" in c.methods:
            out.append(c)
    return sorted(out, key=lambda c: c.qualname)


def local_lists(fn: FunctionInfo) -> Dict[str, List]:
    """names assigned list-building expressions (last assignment per branch joined when layouts agree in prefix)."""
    env: Dict[str, List] = {}
    for n in walk_body(fn):
        if isinstance(n, ast.Assign) and len(n.targets) == 1 and isinstance(n.targets[0], ast.Name):
            lay = list_layout(n.value, {})
            def listy(e):
                if isinstance(e, (ast.List, ast.Tuple)):
                    return True
                if isinstance(e, ast.Call) and isinstance(e.func, ast.Name) and e.func.id in ("list", "tuple") and e.args:
                    return listy(e.args[0]) or isinstance(e.args[0], (ast.Name, ast.Call, ast.ListComp, ast.GeneratorExp))
                if isinstance(e, ast.BinOp) and isinstance(e.op, (ast.Add, ast.Mult)):
                    return listy(e.left) or listy(e.right)
                return False

            is_listy = listy(n.value) and not (isinstance(n.value, ast.Call) and len(lay or []) == 1 and lay[0][0] == "many"
                                               and isinstance(n.value.args[0], ast.Name) and False)
            if lay is not None and is_listy:
                env.setdefault(n.targets[0].id + "#all", []).append(lay)
    return env


def _needs_input_grad_binding(stmt: ast.AST, name: str) -> Optional[ast.AST]:
    """The subscript of ctx.needs_input_grad that ``name`` is bound to by ``stmt`` (plain or destructuring assignment)."""
    if not (isinstance(stmt, ast.Assign) and len(stmt.targets) == 1):
        return None
    t, v = stmt.targets[0], stmt.value
    if isinstance(t, ast.Name) and t.id == name:
        return v if isinstance(v, ast.Subscript) and norm(v.value).endswith("needs_input_grad") else None
    if isinstance(t, (ast.Tuple, ast.List)) and isinstance(v, (ast.Attribute, ast.Name)) and norm(v).endswith("needs_input_grad"):
        star = next((k for k, el in enumerate(t.elts) if isinstance(el, ast.Starred)), None)
        for k, el in enumerate(t.elts):
            if isinstance(el, ast.Starred) and isinstance(el.value, ast.Name) and el.value.id == name and k == len(t.elts) - 1:
                return ast.Subscript(value=v, slice=ast.Slice(lower=ast.Constant(value=k), upper=None, step=None), ctx=ast.Load())
            if isinstance(el, ast.Name) and el.id == name and (star is None or k < star):
                return ast.Subscript(value=v, slice=ast.Constant(value=k), ctx=ast.Load())
    return None


def _substitute_needs_input_grad(rd, stmt: ast.AST, test: ast.AST) -> ast.AST:
    nid = rd.node_of(stmt)
    if nid is None:
        return test
    env: Dict[str, ast.AST] = {}
    for x in ast.walk(test):
        if not isinstance(x, ast.Name) or x.id in env:
            continue
        defs = rd.IN.get(nid, {}).get(x.id)
        if not defs:
            continue
        bound = [_needs_input_grad_binding(rd.cfg.nodes[d].ast, x.id) for d, _ in defs]
        if all(b is not None for b in bound) and len({ast.dump(b) for b in bound}) == 1:
            env[x.id] = bound[0]
    if not env:
        return test

    class Sub(ast.NodeTransformer):
        def visit_Name(self, node):
            return copy.deepcopy(env[node.id]) if node.id in env and isinstance(node.ctx, ast.Load) else node

    return ast.fix_missing_locations(Sub().visit(copy.deepcopy(test)))


def run(idx: ProgramIndex, rep: Report, tier: str, selftest: bool = True):
    rep.extra["explanation"] = (
        "Table agreement over the positional protocol of every torch.autograd.Function of the package (9 classes): the "
        "forward signature (fixed parameters + inputs unpacked from the front of *args, per layout flag), every "
        "backward return tuple, every ctx.needs_input_grad index, the save_for_backward / saved_tensors layouts and "
        "every .apply site are read from the ast and compared with each other. PyTorch checks only the LENGTH of the "
        "returned tuple and only on executed paths; a shifted prefix, a needs_input_grad index gating the wrong input, "
        "or a requires_grad subset that takes an unexecuted branch are invisible to the tests (which set requires_grad "
        "on everything) and are decided here for all subsets at once. NOT decided: the VALUE of any gradient, swaps "
        "among same-kind tensor slots. P5 abstracts each hand-written _bilinear_derivative return to a sequence of "
        "segments (T / D(attr) / S(attr)) and compares it position by position with the constructor record."
    )
    rep.assumptions += [
        "the tail of a backward tuple (list(arg_grads)) is aligned with the flattened representation by "
        "_bilinear_derivative (order of segments decided by P5, values not decided)",
        "layout flags (has_left, inv_quad) are passed as literals or plain booleans at the apply sites",
    ]
    rep.rule("C07.P1", "backward tuples have the fixed prefix of the forward inputs", floor=9)
    rep.rule("C07.P2", "needs_input_grad indices gate the gradient returned at that position", floor=8)
    rep.rule("C07.P3", "save_for_backward and the unpacking of saved_tensors agree", floor=8)
    rep.rule("C07.P4", "apply sites match the forward signature", floor=9)
    rep.rule("C07.P6", "backward rebuilds the operator from the saved representation slice", floor=6)

    classes = collect_functions(idx)
    if len(classes) < 9:
        raise AnalysisError(f"only {len(classes)} autograd Functions found under linear_operator/functions (expected >= 9)")
    facts: Dict[str, Fn] = {}
    for c in classes:
        f = Fn(idx, c)
        facts[c.name] = f
        who = c.name
        allowed = f.allowed_prefixes()
        # ---------------------------------------------------------------- P1
        env_all = local_lists(f.bw)
        # `return None` is the explicit form of falling off the end (no input needs a gradient): not a gradient tuple
        returns = [n for n in walk_body(f.bw) if isinstance(n, ast.Return) and n.value is not None
                   and not (isinstance(n.value, ast.Constant) and n.value.value is None)]
        if not returns:
            rep.bad("C07.P1", Finding(PROP, "C07.P1", f"{who}.backward", "no return", f"{who}.backward returns nothing", f.bw.loc()))
        ret_prefixes: List[int] = []
        for r in returns:
            v = r.value
            # resolve a returned Name through its (possibly several) list assignments
            candidates: List[List] = []
            inner = v.args[0] if (isinstance(v, ast.Call) and isinstance(v.func, ast.Name) and v.func.id == "tuple" and v.args) else v
            names_in = [x.id for x in ast.walk(inner) if isinstance(x, ast.Name)]
            variants = [dict()]
            for nm in names_in:
                if nm + "#all" in env_all:
                    variants = [dict(d, **{nm: lay}) for d in variants for lay in env_all[nm + "#all"]]
            for env in variants[:16]:
                lay = list_layout(v, env)
                if lay is not None:
                    candidates.append(lay)
            if not candidates:
                rep.note(f"{who}.backward: return `{short(v)}` not understood")
                continue
            for lay in candidates:
                L = prefix_len(lay)
                has_tail = any(k == "many" for k, _ in lay)
                if not has_tail and len(lay) == L and f.star is not None and L not in allowed:
                    # a fully fixed tuple is fine only if the function has no representation tail
                    pass
                ret_prefixes.append(L)
                sample = {"function": who, "return": short(r, 90), "fixed_prefix": L, "forward_fixed": f.fixed,
                          "front_unpacks": {str(k): u for k, u in f.front_unpacks.items()}}
                if L in allowed:
                    rep.ok("C07.P1", sample)
                else:
                    rep.bad("C07.P1", Finding(
                        PROP, "C07.P1", f"{who}.backward", f"a returned tuple has {L} fixed slot(s), forward has {sorted(allowed)}",
                        f"{who}.backward returns {L} fixed gradient slot(s) before the representation gradients, but "
                        f"forward takes {sorted(allowed)} fixed input(s) ({', '.join(f.fixed)}"
                        f"{' + inputs unpacked from *' + f.star if f.star else ''}): every representation gradient is "
                        "shifted onto the wrong tensor", f.bw.loc(r)))
        # ---------------------------------------------------------------- P2
        rd_bw = None
        for n in walk_body(f.bw):
            if not isinstance(n, ast.If):
                continue
            test = n.test
            if any(isinstance(x, ast.Name) for x in ast.walk(test)):
                # names bound to (a destructuring of) ctx.needs_input_grad stand for the subscript they were bound to
                if rd_bw is None:
                    rd_bw = ReachingDefs(f.bw)
                test = _substitute_needs_input_grad(rd_bw, n.test, test)
            for sub in ast.walk(test):
                if isinstance(sub, ast.Subscript) and norm(sub.value).endswith("needs_input_grad"):
                    sl = sub.slice
                    if isinstance(sl, ast.Constant) and isinstance(sl.value, int):
                        i = sl.value
                        # gradient variables assigned in the body
                        assigned = [t.id for s in n.body for a in ast.walk(s) if isinstance(a, ast.Assign)
                                    for t in a.targets if isinstance(t, ast.Name)]
                        # position of those names in return prefixes
                        positions: Set[int] = set()
                        reach = reachable_returns(f.bw, n, returns)
                        for r in reach:
                            for env in [dict((k[:-4], v[0]) for k, v in env_all.items())]:
                                lay = list_layout(r.value, env)
                                if lay is None:
                                    continue
                                for j, (kind, node) in enumerate(lay[:prefix_len(lay)]):
                                    if isinstance(node, ast.Name) and node.id in assigned:
                                        positions.add(j)
                        sample = {"function": who, "test": norm(n.test)[:70], "index": i, "gradient_returned_at": sorted(positions)}
                        if not positions:
                            rep.ok("C07.P2", {**sample, "note": "gated value is not a named prefix slot"})
                        elif positions == {i}:
                            rep.ok("C07.P2", sample)
                        else:
                            rep.bad("C07.P2", Finding(
                                PROP, "C07.P2", f"{who}.backward", f"{norm(sub)} gates slot {sorted(positions)}",
                                f"{who}.backward computes the gradient returned at position {sorted(positions)} only when "
                                f"needs_input_grad[{i}] is set: with a requires_grad subset the gradient of input "
                                f"{sorted(positions)} is skipped (None) or computed for nothing", f.bw.loc(n)))
                    elif isinstance(sl, ast.Slice) and isinstance(sl.lower, ast.Constant) and sl.upper is None:
                        j = sl.lower.value
                        sample = {"function": who, "test": norm(n.test)[:70], "slice_start": j, "allowed_prefixes": sorted(allowed)}
                        if j in allowed:
                            rep.ok("C07.P2", sample)
                        else:
                            rep.bad("C07.P2", Finding(
                                PROP, "C07.P2", f"{who}.backward", f"{norm(sub)}",
                                f"{who}.backward gates the representation gradients with needs_input_grad[{j}:], but the "
                                f"representation starts at input {sorted(allowed)}: a fixed input that requires grad "
                                "triggers (or a matrix argument that requires grad fails to trigger) the derivative",
                                f.bw.loc(n)))
        # ---------------------------------------------------------------- P3
        saves = [n for n in walk_body(f.fw) if isinstance(n, ast.Call) and isinstance(n.func, ast.Attribute)
                 and n.func.attr == "save_for_backward"]
        fw_lists = local_lists(f.fw)
        saved_layouts: Set[Tuple[int, int]] = set()
        saved_unknown = False
        for s in saves:
            arg = s.args[0] if s.args else None
            if arg is None:
                continue
            inner = arg.value if isinstance(arg, ast.Starred) else arg
            lays = []
            if isinstance(inner, ast.Name) and inner.id + "#all" in fw_lists:
                lays = fw_lists[inner.id + "#all"]
            else:
                lay = list_layout(ast.List(elts=list(s.args), ctx=ast.Load()), {})
                lays = [lay] if lay else []
            for lay in lays:
                if sum(1 for k, _ in lay if k == "many") > 1:
                    # a second starred segment (e.g. *solve_terms returned by a helper) has a length the ast does not show
                    rep.note(f"{who}.forward: save_for_backward with several starred segments; layout not compared")
                    saved_unknown = True
                    continue
                saved_layouts.add((prefix_len(lay), suffix_len(lay) if any(k == "many" for k, _ in lay) else 0))
        unpack_layouts: Set[Tuple[int, int]] = set()
        before_idx, after_idx = 0, 0
        star_vars: Set[str] = set()
        saw_index_form = False
        for n in walk_body(f.bw):
            if isinstance(n, ast.Assign) and norm(n.value).endswith("saved_tensors"):
                for tg in n.targets:
                    if isinstance(tg, (ast.Tuple, ast.List)):
                        b = a = 0
                        seen_star = False
                        for x in tg.elts:
                            if isinstance(x, ast.Starred):
                                seen_star = True
                                if isinstance(x.value, ast.Name):
                                    star_vars.add(x.value.id)
                            elif seen_star:
                                a += 1
                            else:
                                b += 1
                        unpack_layouts.add((b, a))
            if isinstance(n, ast.Subscript) and norm(n.value).endswith("saved_tensors"):
                saw_index_form = True
                sl = n.slice
                if isinstance(sl, ast.UnaryOp) and isinstance(sl.op, ast.USub) and isinstance(sl.operand, ast.Constant):
                    after_idx = max(after_idx, sl.operand.value)
                elif isinstance(sl, ast.Constant) and isinstance(sl.value, int):
                    if sl.value >= 0:
                        before_idx = max(before_idx, sl.value + 1)
                    else:
                        after_idx = max(after_idx, -sl.value)
                elif isinstance(sl, ast.Slice):
                    lo, up = sl.lower, sl.upper
                    if isinstance(lo, ast.Constant) and isinstance(lo.value, int) and lo.value > 0:
                        before_idx = max(before_idx, lo.value)
                    # saved[-k:] reads the k tensors after the representation, saved[:k] the k tensors before it
                    if up is None and isinstance(lo, ast.UnaryOp) and isinstance(lo.op, ast.USub) and isinstance(lo.operand, ast.Constant):
                        after_idx = max(after_idx, lo.operand.value)
                    if up is None and isinstance(lo, ast.Constant) and isinstance(lo.value, int) and lo.value < 0:
                        after_idx = max(after_idx, -lo.value)
                    if lo is None and isinstance(up, ast.Constant) and isinstance(up.value, int) and up.value > 0:
                        before_idx = max(before_idx, up.value)
                    if isinstance(up, ast.UnaryOp) and isinstance(up.op, ast.USub) and isinstance(up.operand, ast.Constant):
                        after_idx = max(after_idx, up.operand.value)
                    if isinstance(up, ast.Constant) and isinstance(up.value, int) and up.value < 0:
                        after_idx = max(after_idx, -up.value)
        for n in walk_body(f.bw):
            if isinstance(n, ast.Assign) and isinstance(n.value, ast.Subscript) and norm(n.value.value).endswith("saved_tensors") \
                    and isinstance(n.value.slice, ast.Slice):
                for tg in n.targets:
                    if isinstance(tg, ast.Name):
                        star_vars.add(tg.id)
        if saw_index_form:
            unpack_layouts.add((before_idx, after_idx))
            # the slice that takes the representation and the single-tensor reads must agree on the boundaries
            sl_before: Set[int] = set()
            sl_after: Set[int] = set()
            for n in walk_body(f.bw):
                if isinstance(n, ast.Subscript) and norm(n.value).endswith("saved_tensors") and isinstance(n.slice, ast.Slice):
                    lo, up = n.slice.lower, n.slice.upper
                    if lo is None:
                        sl_before.add(0)
                    elif isinstance(lo, ast.Constant) and isinstance(lo.value, int):
                        sl_before.add(lo.value)
                    if up is None:
                        sl_after.add(0)
                    elif isinstance(up, ast.UnaryOp) and isinstance(up.op, ast.USub) and isinstance(up.operand, ast.Constant):
                        sl_after.add(up.operand.value)
                    elif isinstance(up, ast.Constant) and isinstance(up.value, int) and up.value < 0:
                        sl_after.add(-up.value)
            idx_after = 0
            idx_before = 0
            for n in walk_body(f.bw):
                if isinstance(n, ast.Subscript) and norm(n.value).endswith("saved_tensors") and not isinstance(n.slice, ast.Slice):
                    sl = n.slice
                    if isinstance(sl, ast.UnaryOp) and isinstance(sl.op, ast.USub) and isinstance(sl.operand, ast.Constant):
                        idx_after = max(idx_after, sl.operand.value)
                    elif isinstance(sl, ast.Constant) and isinstance(sl.value, int) and sl.value >= 0:
                        idx_before = max(idx_before, sl.value + 1)
            if (sl_after and len(sl_after - {0}) <= 1 and idx_after and max(sl_after) != idx_after) or (
                    sl_before and len(sl_before - {0}) <= 1 and idx_before and max(sl_before) != idx_before):
                unpack_layouts.add((-1, -1))  # inconsistent boundaries
        sample = {"function": who, "saved_layouts(before,after)": sorted(saved_layouts), "unpacked_layouts": sorted(unpack_layouts)}
        if not saves:
            rep.ok("C07.P3", {**sample, "note": "nothing saved"})
        elif saved_unknown and not saved_layouts:
            rep.count("C07.P3")
        elif saved_layouts and unpack_layouts and (saved_layouts == unpack_layouts or (
                saw_index_form and all(any(s[0] >= u[0] and s[1] == u[1] for s in saved_layouts) for u in unpack_layouts)
                and all(any(s[1] == u[1] for u in unpack_layouts) for s in saved_layouts))):
            rep.ok("C07.P3", sample)
        else:
            rep.bad("C07.P3", Finding(
                PROP, "C07.P3", f"{who}", f"saved {sorted(saved_layouts)} vs unpacked {sorted(unpack_layouts)}",
                f"{who}: forward saves tensors in layout(s) (fixed before, fixed after the representation) = "
                f"{sorted(saved_layouts)} but backward unpacks {sorted(unpack_layouts)}: a saved tensor is read as a "
                "matrix argument (or vice versa)", f.bw.loc()))
        # ---------------------------------------------------------------- P6
        # names derived from the representation slice (detached copies, re-wrapped lists ...)
        changed = True
        while changed:
            changed = False
            for n in walk_body(f.bw):
                tgt_names: List[str] = []
                src = None
                if isinstance(n, ast.Assign):
                    tgt_names = [x.id for t in n.targets for x in ast.walk(t) if isinstance(x, ast.Name)]
                    src = n.value
                elif isinstance(n, ast.For):
                    tgt_names = [x.id for x in ast.walk(n.target) if isinstance(x, ast.Name)]
                    src = n.iter
                elif isinstance(n, ast.Call) and isinstance(n.func, ast.Attribute) and n.func.attr in ("append", "extend") \
                        and isinstance(n.func.value, ast.Name):
                    tgt_names = [n.func.value.id]
                    src = n.args[0] if n.args else None
                if src is None:
                    continue
                if any(isinstance(x, ast.Name) and x.id in star_vars for x in ast.walk(src)):
                    for t in tgt_names:
                        if t not in star_vars:
                            star_vars.add(t)
                            changed = True
        for n in walk_body(f.bw):
            if isinstance(n, ast.Call) and norm(n.func).endswith("representation_tree") and n.args \
                    and "precond" not in norm(n.func):
                a0 = n.args[0]
                if isinstance(a0, ast.Starred) and isinstance(a0.value, ast.Name):
                    sample = {"function": who, "rebuild": short(n), "representation_slice": sorted(star_vars)}
                    if a0.value.id in star_vars or not star_vars:
                        rep.ok("C07.P6", sample)
                    else:
                        rep.bad("C07.P6", Finding(
                            PROP, "C07.P6", f"{who}.backward", norm(n),
                            f"{who}.backward rebuilds the operator from `{a0.value.id}`, which is not the representation "
                            f"slice of ctx.saved_tensors ({sorted(star_vars)}): with memory_efficient on the gradient is "
                            "taken through a different operator", f.bw.loc(n)))

    # ---------------------------------------------------------------- P4: apply sites anywhere in the package
    n_sites = 0
    for fn in idx.functions:
        aliases: Dict[str, str] = {}
        for n in walk_body(fn):
            if isinstance(n, ast.Assign) and len(n.targets) == 1 and isinstance(n.targets[0], ast.Name):
                v = n.value
                if isinstance(v, ast.Attribute) and v.attr == "apply":
                    c = idx.class_of_expr(fn.module, v.value)
                    if c is not None and c.name in facts:
                        aliases[n.targets[0].id] = c.name
                elif isinstance(v, ast.Name):
                    c = idx.class_of_expr(fn.module, v)
                    if c is not None and c.name in facts:
                        aliases[n.targets[0].id + ".apply"] = c.name
        for n in walk_body(fn):
            if not isinstance(n, ast.Call):
                continue
            target = None
            if isinstance(n.func, ast.Attribute) and n.func.attr == "apply":
                c = idx.class_of_expr(fn.module, n.func.value)
                if c is not None and c.name in facts:
                    target = c.name
                elif isinstance(n.func.value, ast.Name) and n.func.value.id + ".apply" in aliases:
                    target = aliases[n.func.value.id + ".apply"]
            elif isinstance(n.func, ast.Name) and n.func.id in aliases:
                target = aliases[n.func.id]
            if target is None:
                continue
            n_sites += 1
            f = facts[target]
            fixed_args = []
            for a in n.args:
                if isinstance(a, ast.Starred):
                    break
                fixed_args.append(a)
            has_star = any(isinstance(a, ast.Starred) for a in n.args)
            N = len(fixed_args)
            where = fname(fn)
            # inputs packed at the front of the starred argument:  args = (rhs,) + self.representation(); f(tree, *args)
            star_extra: Set[int] = {0}
            first_star = next((a for a in n.args if isinstance(a, ast.Starred)), None)
            if first_star is not None:
                fl = local_lists(fn)
                inner = first_star.value
                lays = []
                helper_fn = idx.function_of_expr(fn.module, inner.func) if isinstance(inner, ast.Call) else None
                helper_rets = [r.value for r in walk_body(helper_fn) if isinstance(r, ast.Return) and r.value is not None] \
                    if helper_fn is not None else []
                ifexp_arms = []
                if isinstance(inner, ast.Name):
                    defs_ = [a2.value for a2 in walk_body(fn) if isinstance(a2, ast.Assign) and any(
                        isinstance(t, ast.Name) and t.id == inner.id for t in a2.targets)]
                    if len(defs_) == 1 and isinstance(defs_[0], ast.IfExp) and all(
                            isinstance(v, (ast.Tuple, ast.List)) and not any(isinstance(e_, ast.Starred) for e_ in v.elts)
                            for v in (defs_[0].body, defs_[0].orelse)):
                        ifexp_arms = [defs_[0].body, defs_[0].orelse]
                if ifexp_arms and len([a_ for a_ in n.args if isinstance(a_, ast.Starred)]) >= 2:
                    # fixed = (lhs, rhs) if has_left else (rhs,); f.apply(tree, flag, *fixed, *representation)
                    lays = [[("one", e_) for e_ in v.elts] for v in ifexp_arms]
                elif isinstance(inner, ast.Name) and inner.id + "#all" in fl:
                    lays = fl[inner.id + "#all"]
                elif helper_rets and all(isinstance(v, (ast.Tuple, ast.List)) and not any(isinstance(e_, ast.Starred) for e_ in v.elts)
                                         for v in helper_rets) and len([a_ for a_ in n.args if isinstance(a_, ast.Starred)]) >= 2:
                    # f.apply(tree, flag, *_tensor_args(rhs, lhs), *representation): a helper that returns the fixed inputs as a
                    # tuple of one or two tensors - every length it can return is a possible number of extra fixed inputs
                    lays = [[("one", e_) for e_ in v.elts] for v in helper_rets]
                else:
                    names_in = [x.id for x in ast.walk(inner) if isinstance(x, ast.Name) and x.id + "#all" in fl]
                    if names_in:
                        for nm in names_in:
                            for lay0 in fl[nm + "#all"]:
                                l2 = list_layout(inner, {nm: lay0})
                                if l2:
                                    lays.append(l2)
                    else:
                        l2 = list_layout(inner, {})
                        if l2:
                            lays.append(l2)
                if lays:
                    star_extra = {prefix_len(l) for l in lays} | ({0} if any(
                        isinstance(x, ast.Name) and x.id == (inner.id if isinstance(inner, ast.Name) else None)
                        for x in []) else set())
                    # a name that is conditionally re-bound keeps its unconditional (prefix 0) value on the other path
                    if isinstance(inner, ast.Name) or True:
                        for nm in [x.id for x in ast.walk(inner) if isinstance(x, ast.Name)]:
                            plain = [a2 for a2 in walk_body(fn) if isinstance(a2, ast.Assign) and any(
                                isinstance(t, ast.Name) and t.id == nm for t in a2.targets)]
                            if any(not any(k == "one" for k, _ in (list_layout(a2.value, {}) or [])) for a2 in plain):
                                star_extra.add(0)
            # layout flag given as a literal selects the unpack length
            allowed = f.allowed_prefixes()
            for i, (p, a) in enumerate(zip(f.fixed, fixed_args)):
                if isinstance(a, ast.Constant) and isinstance(a.value, bool):
                    for cond, u in f.front_unpacks.items():
                        if cond is not None and cond[0] in (p, f"ctx.{p}") and cond[1] == a.value:
                            allowed = {len(f.fixed) + u}
            sample = {"site": where, "function": target, "fixed_arguments": N, "allowed": sorted(allowed)}
            if (has_star and any(N + x in allowed for x in star_extra)) or (not has_star and N >= min(allowed)):
                rep.ok("C07.P4", sample)
            else:
                rep.bad("C07.P4", Finding(
                    PROP, "C07.P4", where, norm(n),
                    f"{where}: {target}.apply is called with {N} fixed argument(s) before the flattened representation "
                    f"but {target}.forward expects {sorted(allowed)} ({', '.join(f.fixed)}): the first matrix argument "
                    "is consumed as an input (or an input as a matrix argument)", fn.loc(n)))
            # swapped named arguments
            for i, a in enumerate(fixed_args[:len(f.fixed)]):
                nm = None
                if isinstance(a, ast.Attribute) and isinstance(a.value, ast.Name) and a.value.id == "self":
                    nm = a.attr
                elif isinstance(a, ast.Name):
                    nm = a.id
                if nm and nm in f.fixed and f.fixed.index(nm) != i:
                    rep.bad("C07.P4", Finding(
                        PROP, "C07.P4", where, f"{norm(n)} [{nm}]",
                        f"{where}: `{norm(a)}` is passed to {target}.forward in the slot of `{f.fixed[i]}`, while `{nm}` is "
                        f"parameter #{f.fixed.index(nm) + 1}: swapped arguments", fn.loc(n)))
                elif nm and nm in f.fixed:
                    rep.ok("C07.P4", {"site": where, "function": target, "argument": nm, "slot": i})
    if n_sites < 9:
        rep.error(f"only {n_sites} Function.apply sites found (expected >= 9)")
    rep.analysed["autograd_functions"] = {k: {"fixed": v.fixed, "star": v.star,
                                              "front_unpacks": {str(c): u for c, u in v.front_unpacks.items()}}
                                          for k, v in facts.items()}
    # ---------------------------------------------------------------- P5
    from .c07_bd import check_bilinear_layouts

    rep.rule("C07.P5", "hand-written _bilinear_derivative tuples follow the order of the recorded representation", floor=10)
    check_bilinear_layouts(idx, rep)
    from .c07_bd import check_default_alignment, check_product_dependence

    rep.rule("C07.P7", "the autograd default re-expands the gradients to one entry per representation element", floor=1)
    check_default_alignment(idx, rep)
    rep.rule("C07.P8", "in product-structured operators each hand-written gradient depends on every other factor", floor=3)
    check_product_dependence(idx, rep)

    from .c07_lin import check_linearity

    rep.rule("C07.L", "backward is linear in every upstream gradient: each returned entry depends on one, none is of degree 2", floor=20)
    rep.rule("C07.P9", "contributions of distinct upstream gradients are accumulated independently", floor=2)
    check_linearity(idx, rep, collect_functions(idx))
    from .c07_lin import check_gated_normalisation

    rep.rule("C07.P10", "the reshaping of an upstream gradient is not gated by needs_input_grad", floor=3)
    check_gated_normalisation(idx, rep, collect_functions(idx))
    from .c07_lin import check_bilinear_degree

    rep.rule("C07.B", "_bilinear_derivative is bilinear: every entry reads both vector arguments, none twice", floor=30)
    check_bilinear_degree(idx, rep)

    # the rhs gradient of Matmul.backward is A^T g, computed through _t_matmul (rule shared with C01)
    from .c01 import transpose_product_rule

    transpose_product_rule(idx, rep, PROP, "C07.T")

    if selftest:
        from ..selftest import run_fixtures

        run_fixtures(rep, PROP)
