"""C14 - copies, conversions and rebuilds denote the same matrix with the right dtype (structural clauses).

    A  constructor record: ``cls(*self._args, **self._kwargs)`` - the rebuild performed by clone / detach / to /
       type / cpu / cuda / representation_tree()(...) / _permute_batch / _unsqueeze_batch / batch _getitem - binds
       every constructor parameter to a value derived from that very parameter
    F  every floating tensor factory (and every constructor call of a class taking ``dtype=``) carries a dtype
       derived from an operand; never torch's default dtype, never a float literal dtype
    V  dtype conversions of recorded arguments are guarded by a floating-point test
    P  a class whose first recorded positional argument is not a tensor / operator overrides dtype and device
    G  requires_grad_ on recorded arguments only behind a floating dtype test
"""
from __future__ import annotations

import ast
from typing import Dict, List, Optional, Set

from ..ctor import CtorRecord, ctor_record, simulate_rebuild
from ..index import (AnalysisError, ClassInfo, FunctionInfo, ProgramIndex, dotted, norm, short, walk_body,
                     walk_no_nested)
from ..report import Finding, Report

PROP = "C14"

# (class that introduces the parameter, parameter) -> reason it need not be recorded
RECORD_EXCEPTIONS = {
    ("BlockLinearOperator", "block_dim"):
        "__init__ permutes the recorded operand so that the block dimension is the default -3; rebuilding with the "
        "default denotes the same matrix",
}

FLOAT_FACTORIES = {"zeros", "ones", "eye", "empty", "full", "rand", "randn", "linspace", "logspace"}
FLOAT_DTYPES = {"torch.float", "torch.float32", "torch.double", "torch.float64", "torch.half", "torch.float16",
                "torch.bfloat16"}
NONFLOAT_DTYPES = {"torch.long", "torch.int", "torch.int8", "torch.int16", "torch.int32", "torch.int64",
                   "torch.bool", "torch.uint8", "torch.short"}
DEFAULT_DTYPE_CALLS = {"torch.get_default_dtype"}


def _fname(fn: FunctionInfo) -> str:
    return fn.qualname.replace("linear_operator.", "", 1)


# ------------------------------------------------------------------------------------------------ A
def rule_a(idx: ProgramIndex, rep: Report):
    rep.rule("C14.A", "constructor record binds every constructor parameter to a value derived from it", floor=60)
    records: Dict[str, CtorRecord] = {}
    for c in idx.operator_classes():
        rec = ctor_record(idx, c)
        records[c.name] = rec
        if c is idx.operator_base() or rec.init is None:
            continue
        if rec.init.cls is idx.operator_base():
            # inherits the base constructor: record is (*args, **kwargs) verbatim
            rep.ok("C14.A", {"class": c.name, "constructor": "inherited LinearOperator.__init__ (verbatim record)"})
            continue
        if not rec.complete:
            rep.bad("C14.A", Finding(PROP, "C14.A", f"{c.name}.__init__", "super().__init__ chain",
                                     "constructor chain does not reach LinearOperator.__init__: nothing is recorded, "
                                     "every rebuild of this class fails", rec.init.loc()))
            continue
        bind = simulate_rebuild(rec)
        chain_classes = [q.rsplit(".", 2)[-2] for q in rec.chain]
        for p in rec.all_params():
            it = bind.get(p)
            sample = {"class": c.name, "param": p, "recorded_as": it.text if it else None,
                      "derives_from": sorted(it.deps) if it else None}
            exc = next((r for (k, q), r in RECORD_EXCEPTIONS.items() if q == p and k in chain_classes), None)
            if it is None:
                if p == rec.kwarg or p == rec.vararg:
                    # an open *args / **kwargs that nothing was passed through: nothing to record only if the
                    # chain forwards them; simulate_rebuild returns None when no item binds there
                    fwd = any(i.kind in ("star", "dstar") and p in i.deps for i in rec.items)
                    if fwd or not rec.items:
                        rep.ok("C14.A", sample)
                        continue
                if exc:
                    rep.ok("C14.A", {**sample, "exception": exc})
                    continue
                rep.bad("C14.A", Finding(
                    PROP, "C14.A", f"{c.name}.__init__", f"parameter {p} not recorded",
                    f"constructor parameter `{p}` of {c.name} is not recorded in _args/_kwargs (chain: "
                    f"{' -> '.join(x.split('.')[-2] for x in rec.chain)}): clone/detach/to/representation_tree rebuild "
                    f"the operator with the default for `{p}`", rec.init.loc()))
            elif p in it.deps:
                rep.ok("C14.A", sample)
            elif it.deps:
                rep.bad("C14.A", Finding(
                    PROP, "C14.A", f"{c.name}.__init__", f"parameter {p} <- {it.text}",
                    f"on rebuild, constructor parameter `{p}` of {c.name} receives `{it.text}`, which derives only from "
                    f"{sorted(it.deps)} (swapped or misplaced record)", rec.init.loc()))
            else:
                if exc:
                    rep.ok("C14.A", {**sample, "exception": exc})
                else:
                    rep.bad("C14.A", Finding(
                        PROP, "C14.A", f"{c.name}.__init__", f"parameter {p} <- {it.text}",
                        f"on rebuild, constructor parameter `{p}` of {c.name} receives the constant `{it.text}` instead "
                        "of the value it was constructed with", rec.init.loc()))
        for extra in ("<overflow>", "<unexpected-kw>"):
            if extra in bind:
                rep.bad("C14.A", Finding(
                    PROP, "C14.A", f"{c.name}.__init__", f"{extra}: {bind[extra].text}",
                    f"the recorded arguments `{bind[extra].text}` do not fit {c.name}'s constructor signature: "
                    "cls(*_args, **_kwargs) raises TypeError", rec.init.loc()))
    rep.analysed["constructor_records"] = {
        k: {"params": r.all_params(), "recorded": [(i.kind, i.name, i.text) for i in r.items],
            "chain": [q.split(".")[-2] for q in r.chain]} for k, r in records.items()}
    return records


# ------------------------------------------------------------------------------------------------ F
def _is_float_value(e: ast.AST, fn: Optional[FunctionInfo] = None) -> Optional[bool]:
    """True: surely float data; False: surely not; None: unknown."""
    if isinstance(e, ast.Name) and fn is not None:
        # a parameter with a float default or a float annotation (jitter_val: float = 1e-3, eps=1e-10)
        f = fn
        while f is not None:
            if e.id in f.all_param_names():
                d = f.defaults().get(e.id)
                if isinstance(d, ast.Constant) and isinstance(d.value, float):
                    return True
                for a in list(f.node.args.args) + list(f.node.args.kwonlyargs):
                    if a.arg == e.id and a.annotation is not None and norm(a.annotation) == "float":
                        return True
                return None
            f = f.parent
        return None
    if isinstance(e, ast.Constant):
        if isinstance(e.value, float):
            return True
        if isinstance(e.value, (bool, int)):
            return False
        return None
    if isinstance(e, ast.UnaryOp):
        return _is_float_value(e.operand)
    if isinstance(e, ast.Call) and isinstance(e.func, ast.Name) and e.func.id == "float":
        return True
    if isinstance(e, (ast.List, ast.Tuple)) and e.elts:
        vals = [_is_float_value(x) for x in e.elts]
        if any(v is True for v in vals):
            return True
        if all(v is False for v in vals):
            return False
    return None


def _subject(fn: FunctionInfo) -> bool:
    """Function has an operator / tensor operand: it is a method, or some parameter is dereferenced."""
    f = fn
    while f is not None:
        if f.cls is not None and not f.is_staticmethod():
            return True
        params = set(f.all_param_names())
        for n in ast.walk(f.node):
            if isinstance(n, ast.Attribute) and isinstance(n.value, ast.Name) and n.value.id in params:
                return True
        f = f.parent
    return False


def _name_value(fn: FunctionInfo, name: str) -> List[ast.expr]:
    """Expressions a local / enclosing / module-level name is assigned."""
    out: List[ast.expr] = []
    f = fn
    while f is not None:
        for n in ast.walk(f.node):
            if isinstance(n, ast.Assign):
                for t in n.targets:
                    if isinstance(t, ast.Name) and t.id == name:
                        out.append(n.value)
        f = f.parent
    if not out and name in fn.module.globals_:
        out.append(fn.module.globals_[name])
    return out


def classify_dtype_expr(idx: ProgramIndex, fn: FunctionInfo, e: Optional[ast.expr], depth=0) -> str:
    """'derived' | 'nonfloat' | 'float-literal' | 'default' | 'missing'"""
    if e is None:
        return "missing"
    if isinstance(e, ast.Constant) and e.value is None:
        return "missing"
    d = dotted(e)
    if d in FLOAT_DTYPES:
        return "float-literal"
    if d in NONFLOAT_DTYPES:
        return "nonfloat"
    if isinstance(e, ast.Call) and dotted(e.func) in DEFAULT_DTYPE_CALLS:
        return "default"
    if isinstance(e, ast.Name) and depth < 3:
        params = set()
        f = fn
        while f is not None:
            params |= set(f.all_param_names())
            f = f.parent
        if e.id in params:
            return "derived"
        vals = _name_value(fn, e.id)
        if vals:
            kinds = {classify_dtype_expr(idx, fn, v, depth + 1) for v in vals}
            for k in ("float-literal", "default", "missing"):
                if k in kinds:
                    return k
            if kinds == {"nonfloat"}:
                return "nonfloat"
            return "derived"
        # imported name bound to a dtype alias elsewhere (e.g. bool_compat)
        q = idx.resolve_name(fn.module, e.id)
        if q:
            modname, _, attr = q.rpartition(".")
            m = idx.modules.get(modname)
            if m and attr in m.globals_:
                return classify_dtype_expr(idx, fn, m.globals_[attr], depth + 1)
        return "derived"
    if isinstance(e, ast.IfExp):
        kinds = {classify_dtype_expr(idx, fn, e.body, depth + 1), classify_dtype_expr(idx, fn, e.orelse, depth + 1)}
        for k in ("float-literal", "default", "missing"):
            if k in kinds:
                return k
        return "derived"
    if isinstance(e, ast.BoolOp):
        kinds = {classify_dtype_expr(idx, fn, v, depth + 1) for v in e.values}
        for k in ("float-literal", "default"):
            if k in kinds:
                return k
        return "derived"
    return "derived"


def rule_f(idx: ProgramIndex, rep: Report, records: Dict[str, CtorRecord]):
    rep.rule("C14.F", "floating tensor factories carry a dtype derived from an operand", floor=80)
    rep.rule("C14.F2", "constructor calls of classes taking dtype= pass a derived dtype", floor=5)
    dtype_classes = {name for name, r in records.items() if "dtype" in r.all_params()}
    if len(dtype_classes) < 2:
        raise AnalysisError(f"expected ZeroLinearOperator and IdentityLinearOperator to take dtype=, found {dtype_classes}")
    exempt_int = 0
    for fn in idx.functions:
        subject = _subject(fn)
        for n in walk_body(fn):
            if not isinstance(n, ast.Call):
                continue
            d = dotted(n.func)
            # resolve `from torch import zeros` style imports
            if d and "." not in d:
                q = fn.module.imports.get(d)
                if q and q.startswith("torch."):
                    d = q
            kw = {k.arg: k.value for k in n.keywords if k.arg}
            if d and d.startswith("torch.") and d.count(".") == 1:
                name = d.split(".")[1]
                is_float = None
                if name in FLOAT_FACTORIES:
                    is_float = True
                    if name == "full":
                        fv = kw.get("fill_value") or (n.args[1] if len(n.args) > 1 else None)
                        if fv is not None and _is_float_value(fv) is False:
                            is_float = False
                elif name == "tensor" and n.args:
                    is_float = _is_float_value(n.args[0], fn)
                elif name == "arange":
                    is_float = True if any(_is_float_value(a) for a in n.args) else False
                else:
                    continue
                if not is_float:
                    exempt_int += 1
                    continue
                kind = classify_dtype_expr(idx, fn, kw.get("dtype"))
                sample = {"function": _fname(fn), "call": short(n, 110), "dtype": kind}
                if kind in ("derived", "nonfloat"):
                    rep.ok("C14.F", sample)
                elif not subject:
                    rep.ok("C14.F", {**sample, "exempt": "function has no operator / tensor operand"})
                else:
                    why = {"missing": "without dtype=: the result has torch's default dtype, not the operand's",
                           "float-literal": "with a literal floating dtype instead of the operand's dtype",
                           "default": "with torch.get_default_dtype() instead of the operand's dtype"}[kind]
                    rep.bad("C14.F", Finding(PROP, "C14.F", _fname(fn), norm(n),
                                             f"floating tensor created {why}", fn.loc(n)))
                continue
            # constructor calls of dtype-taking classes
            target: Optional[str] = None
            if isinstance(n.func, ast.Name):
                c = idx.class_of_expr(fn.module, n.func)
                if c is not None and c.name in dtype_classes:
                    target = c.name
            elif (isinstance(n.func, ast.Attribute) and n.func.attr == "__class__" and isinstance(n.func.value, ast.Name)
                  and n.func.value.id == "self" and fn.cls is not None):
                # self.__class__(...) inside a class that (as defined here) takes dtype
                if fn.cls.name in dtype_classes:
                    target = fn.cls.name
            if target is None:
                continue
            has_open = any(k.arg is None for k in n.keywords)
            kind = classify_dtype_expr(idx, fn, kw.get("dtype"))
            sample = {"function": _fname(fn), "call": short(n, 110), "class": target, "dtype": kind}
            if kind == "derived" or (kind == "missing" and has_open):
                if kind == "missing":
                    # **self._kwargs etc.: fine only if the class records dtype
                    rec = records[target]
                    if "dtype" not in rec.recorded_kw_names():
                        rep.bad("C14.F2", Finding(PROP, "C14.F2", _fname(fn), norm(n),
                                                  f"{target} rebuilt through **kwargs but its dtype is not recorded",
                                                  fn.loc(n)))
                        continue
                rep.ok("C14.F2", sample)
            else:
                rep.bad("C14.F2", Finding(
                    PROP, "C14.F2", _fname(fn), norm(n),
                    f"{target} constructed {'without dtype=' if kind == 'missing' else 'with a ' + kind + ' dtype'}: "
                    "the new operator has the default dtype, not the dtype of the operator it is derived from",
                    fn.loc(n)))
    rep.extra["integer_factories_exempt"] = exempt_int


# ------------------------------------------------------------------------------------------------ V
def _guards(fn_node: ast.AST, target: ast.AST) -> List[ast.expr]:
    """Tests of the If / IfExp nodes enclosing `target` inside fn_node (body or orelse)."""
    path: List[ast.AST] = []

    def find(n, acc):
        if n is target:
            path.extend(acc)
            return True
        for ch in ast.iter_child_nodes(n):
            if find(ch, acc + [n]):
                return True
        return False

    find(fn_node, [])
    return [p.test for p in path if isinstance(p, (ast.If, ast.IfExp))]


def _mentions_float_test(tests: List[ast.expr], var: Optional[str]) -> bool:
    for t in tests:
        for n in ast.walk(t):
            if isinstance(n, ast.Attribute) and n.attr == "is_floating_point":
                names = {x.id for x in ast.walk(t) if isinstance(x, ast.Name)}
                if var is None or var in names:
                    return True
            if isinstance(n, ast.Call) and dotted(n.func) in ("torch.is_floating_point",):
                return True
    return False


def rule_v(idx: ProgramIndex, rep: Report, records: Dict[str, CtorRecord]):
    rep.rule("C14.V", "dtype conversions of recorded arguments are guarded by a floating-point test", floor=5)
    base = idx.operator_base()
    ops = idx.operator_classes()

    def classes_resolving_to(fn: FunctionInfo) -> List[ClassInfo]:
        return [c for c in ops if idx.resolve_method(c, fn.name) is fn]

    def may_hold_tensor_kwargs(cs: List[ClassInfo]) -> List[str]:
        out = []
        for c in cs:
            r = records.get(c.name)
            if r is None:
                continue
            if r.has_open_kwargs() and r.init is not None and r.init.cls is not base:
                # an open **params record (Kernel / KeOps): may carry tensors - unless it is just the
                # SumLinearOperator-style pass-through of named, non-tensor keywords
                if any(i.kind == "dstar" for i in r.items) and c.name not in ("SumLinearOperator", "PsdSumLinearOperator",
                                                                                "SumKroneckerLinearOperator"):
                    out.append(c.name)
        return out

    n_defs = 0
    for c in ops:
        for mname in ("to", "type"):
            fn = c.methods.get(mname)
            if fn is None:
                continue
            n_defs += 1
            users = classes_resolving_to(fn)
            # the set of functions to inspect: the method and its nested helpers
            scopes = [fn] + [f for f in idx.functions if f.parent is fn]
            # ... and the private methods of self it calls (a shared `_to_args_and_kwargs`-style helper holds the loop)
            for x in walk_body(fn):
                if isinstance(x, ast.Call) and isinstance(x.func, ast.Attribute) and isinstance(x.func.value, ast.Name) \
                        and x.func.value.id == "self" and x.func.attr.startswith("_") and x.func.attr not in ("_to_helper",):
                    hm = idx.resolve_method(c, x.func.attr)
                    if hm is not None and hm not in scopes and not hm.is_property():
                        scopes.append(hm)
                        scopes += [f for f in idx.functions if f.parent is hm]
            # iteration variables over self._args / self._kwargs
            for sc in scopes:
                for n in walk_body(sc):
                    if not (isinstance(n, ast.Call) and isinstance(n.func, ast.Attribute)
                            and n.func.attr in ("to", "type", "double", "float", "half")):
                        continue
                    recv = n.func.value
                    if not isinstance(recv, (ast.Name, ast.Call)):
                        continue
                    rname = recv.id if isinstance(recv, ast.Name) else None
                    if isinstance(recv, ast.Call):  # arg.clone().to(...) etc.
                        inner = recv.func
                        if isinstance(inner, ast.Attribute) and isinstance(inner.value, ast.Name):
                            rname = inner.value.id
                    if rname is None or rname in ("self", "res", "torch"):
                        continue
                    # does the call change dtype?  .to(dtype=...) / .to(dtype) / .type(x)
                    kws = {k.arg for k in n.keywords}
                    changes_dtype = n.func.attr != "to" or "dtype" in kws or (
                        n.args and not all(isinstance(a, ast.Constant) for a in n.args))
                    if not changes_dtype:
                        continue
                    # which container does the receiver iterate?
                    src = _iter_source(sc, fn, rname, n)
                    if src is None:
                        continue
                    tests = _guards(sc.node, n)
                    guarded = _mentions_float_test(tests, rname) or _helper_guarded(idx, fn, sc, rname)
                    sample = {"method": f"{c.name}.{mname}", "conversion": short(n), "source": src, "guarded": guarded,
                              "used_by": len(users)}
                    if guarded:
                        rep.ok("C14.V", sample)
                        continue
                    if src == "kwargs":
                        holders = may_hold_tensor_kwargs(users)
                        if not holders:
                            rep.ok("C14.V", {**sample, "exempt": "no class resolving to this method records tensor keywords"})
                            continue
                        who = f"keyword arguments of {holders}"
                    else:
                        who = "positional arguments (e.g. the integer permutation of PermutationLinearOperator, index " \
                              "or mask tensors)"
                    rep.bad("C14.V", Finding(
                        PROP, "C14.V", f"{c.name}.{mname}", norm(n),
                        f"dtype conversion applied to every recorded {src} element without a floating-point test: "
                        f"{who} that hold integer / boolean data are cast to the floating target dtype", sc.loc(n)))
    if n_defs < 5:
        raise AnalysisError(f"only {n_defs} to/type definitions found on operator classes (expected >= 5)")


def _iter_source(sc: FunctionInfo, top: FunctionInfo, name: str, at: Optional[ast.AST] = None) -> Optional[str]:
    """'args' / 'kwargs' if `name` is a loop variable over self._args / self._kwargs(.items()/.values()),
    or a parameter of a nested helper called with such a variable.  When the use site `at` is given, a loop that encloses it
    wins (the same variable name may be used by the loop over the arguments and by the loop over the keywords)."""
    found: List[Tuple[bool, int, str]] = []
    for f in (sc, top):
        for n in ast.walk(f.node):
            it = None
            tgt = None
            if isinstance(n, (ast.For, ast.comprehension)):
                it, tgt = n.iter, n.target
            if it is None:
                continue
            names = {x.id for x in ast.walk(tgt) if isinstance(x, ast.Name)}
            if name not in names:
                continue
            txt = norm(it)
            kind = "args" if "self._args" in txt else ("kwargs" if ("self._kwargs" in txt or "_differentiable_kwargs" in txt) else None)
            if kind is None:
                continue
            holder = n
            if isinstance(n, ast.comprehension):
                holder = next((c_ for c_ in ast.walk(f.node) if isinstance(c_, (ast.ListComp, ast.SetComp, ast.DictComp, ast.GeneratorExp))
                               and n in c_.generators), n)
            encloses = at is not None and any(x is at for x in ast.walk(holder))
            found.append((not encloses, len(found), kind))
    if found:
        return sorted(found)[0][2]
    if sc is not top and name in sc.all_param_names():
        # helper parameter: find calls of the helper in top with a loop variable
        for n in ast.walk(top.node):
            if isinstance(n, ast.Call) and isinstance(n.func, ast.Name) and n.func.id == sc.name and n.args:
                for x in ast.walk(n.args[0]):
                    if isinstance(x, ast.Name):
                        s = _iter_source(top, top, x.id)
                        if s:
                            return s
    return None


def _helper_guarded(idx, top: FunctionInfo, sc: FunctionInfo, rname: str) -> bool:
    return False


# ------------------------------------------------------------------------------------------------ P
def rule_p(idx: ProgramIndex, rep: Report, records: Dict[str, CtorRecord]):
    rep.rule("C14.P", "classes without a leading tensor / operator argument override dtype and device", floor=3)
    base = idx.operator_base()
    for c in idx.operator_classes():
        if c is base:
            continue
        rec = records[c.name]
        if rec.init is None or rec.init.cls is base:
            continue
        first = next((i for i in rec.items if i.kind in ("pos", "star")), None)
        needs = False
        why = ""
        if first is None:
            needs, why = True, "records no positional argument"
        else:
            # first positional is int-typed (sizes) when annotated so
            src = sorted(first.deps)
            ann = " ".join(rec.annotations.get(p, "") for p in src)
            if "int" in ann and "Tensor" not in ann and "LinearOperator" not in ann:
                needs, why = True, f"first recorded argument `{first.text}` is annotated {ann!r}"
        if not needs:
            continue
        for prop in ("dtype", "device"):
            fn = idx.resolve_method(c, prop)
            sample = {"class": c.name, "property": prop, "why": why,
                      "defined_in": fn.cls.name if fn and fn.cls else None}
            if fn is not None and fn.cls is not base:
                rep.ok("C14.P", sample)
            else:
                rep.bad("C14.P", Finding(
                    PROP, "C14.P", f"{c.name}.{prop}", f"{c.name} inherits LinearOperator.{prop}",
                    f"{c.name} {why} but inherits `{prop}` = self._args[0].{prop}: reading it fails or is wrong",
                    f"{c.file}:{c.node.lineno}"))


# ------------------------------------------------------------------------------------------------ N
def _none_excluded_on_every_path(fn: FunctionInfo, var: str, use: ast.AST) -> bool:
    """Flow-sensitive: every CFG path from a definition of `var` to the use passes the non-None branch of a test
    `var is None` / `var is not None`, or a re-binding made under such a test (`if var is None: var = default`)."""
    import networkx as nx

    from ..cfg import CFG

    cfg = CFG(fn)
    un = cfg.node_of(use)
    if un is None:
        return False
    h = cfg.g.copy()
    for a, b, d in list(h.edges(data=True)):
        na = cfg.nodes[a]
        if na.kind == "test" and na.ast is not None and d.get("pol") is not None:
            t = norm(na.ast)
            if (t == f"{var} is None" and d["pol"] is False) or (t == f"{var} is not None" and d["pol"] is True):
                h.remove_edge(a, b)  # beyond this edge var is known to be non-None
    for nid, nd in cfg.nodes.items():
        # a re-binding of var from something else (a default) also ends the optional value
        if nd.kind == "stmt" and isinstance(nd.ast, ast.Assign) and any(isinstance(t, ast.Name) and t.id == var for t in nd.ast.targets) \
                and not (isinstance(nd.ast.value, ast.Call) and "_to_helper" in norm(nd.ast.value.func)) and nid != un.id and nid in h:
            h.remove_node(nid)
    starts = [nid for nid, nd in cfg.nodes.items() if nd.kind == "stmt" and isinstance(nd.ast, ast.Assign)
              and isinstance(nd.ast.value, ast.Call) and "_to_helper" in norm(nd.ast.value.func)]
    return bool(starts) and not any(s_ in h and un.id in h and nx.has_path(h, s_, un.id) for s_ in starts)


def rule_n(idx: ProgramIndex, rep: Report):
    """Optional results of _to_helper: no dereference and no store into a dtype=/device= slot without a None test."""
    rep.rule("C14.N", "optional (device, dtype) of _to_helper is None-tested before dereference / before it replaces a "
                      "stored dtype or device", floor=4)
    helper = idx.func_by_qual.get("linear_operator.utils.generic._to_helper")
    if helper is None:
        raise AnalysisError("linear_operator.utils.generic._to_helper not found")
    # the helper must indeed be able to return None for either component (else the rule is vacuous, not violated)
    optional = any(isinstance(n, ast.IfExp) and isinstance(n.orelse, ast.Constant) and n.orelse.value is None
                   for n in ast.walk(helper.node))
    rep.extra["to_helper_returns_optional"] = optional
    for fn in idx.functions:
        names: Set[str] = set()
        for n in walk_body(fn):
            if (isinstance(n, ast.Assign) and isinstance(n.value, ast.Call)
                    and idx.function_of_expr(fn.module, n.value.func) is helper):
                for t in n.targets:
                    names |= {x.id for x in ast.walk(t) if isinstance(x, ast.Name)}
        if not names:
            continue
        if not optional:
            rep.ok("C14.N", {"function": _fname(fn), "note": "_to_helper no longer returns None"})
            continue
        for n in walk_body(fn):
            bad_kind = None
            var = None
            if isinstance(n, ast.Attribute) and isinstance(n.value, ast.Name) and n.value.id in names and isinstance(
                    n.ctx, ast.Load):
                var, bad_kind = n.value.id, f"dereference `{norm(n)}`"
                node = n
            elif (isinstance(n, ast.Assign) and isinstance(n.value, ast.Name) and n.value.id in names
                  and any(isinstance(t, ast.Subscript) for t in n.targets)):
                var, bad_kind = n.value.id, f"store `{norm(n)}`"
                node = n
            elif isinstance(n, ast.Dict) and any(isinstance(v_, ast.Name) and v_.id in names for v_ in n.values):
                # {**self._kwargs, "output_device": device}: the same store, written as a display
                v_ = next(v_ for v_ in n.values if isinstance(v_, ast.Name) and v_.id in names)
                var, bad_kind = v_.id, f"store `{short(n, 70)}`"
                node = n
            elif isinstance(n, ast.Call) and not (isinstance(n.func, ast.Attribute) and n.func.attr in ("to", "type")):
                # the raw optional handed to a constructor's dtype= / device= keyword: the constructor completes None
                # from TORCH's defaults, not from this operator
                f_ = n.func
                is_ctor = (isinstance(f_, ast.Attribute) and f_.attr == "__class__") or (
                    isinstance(f_, ast.Name) and idx.resolve_name(fn.module, f_.id) in idx.classes) or (
                    isinstance(f_, ast.Call) and isinstance(f_.func, ast.Name) and f_.func.id == "type")
                if is_ctor:
                    for k in n.keywords:
                        if k.arg in ("dtype", "device") and isinstance(k.value, ast.Name) and k.value.id in names:
                            var, bad_kind = k.value.id, f"constructor keyword `{k.arg}={k.value.id}` in `{short(n, 60)}`"
                            node = n
            if bad_kind is None:
                continue
            # flags computed once from the optional (dtype_requested = dtype is not None) stand for their definition
            flag_defs: Dict[str, ast.AST] = {}
            counts_: Dict[str, int] = {}
            for a_ in walk_body(fn):
                if isinstance(a_, ast.Assign) and len(a_.targets) == 1 and isinstance(a_.targets[0], ast.Name):
                    counts_[a_.targets[0].id] = counts_.get(a_.targets[0].id, 0) + 1
                    if isinstance(a_.value, (ast.Compare, ast.BoolOp, ast.UnaryOp)):
                        flag_defs[a_.targets[0].id] = a_.value
            flag_defs = {k: v for k, v in flag_defs.items() if counts_.get(k) == 1 and k not in names}

            def tests_none(e: ast.AST, depth: int = 0) -> bool:
                for c in ast.walk(e):
                    if (isinstance(c, ast.Compare) and isinstance(c.left, ast.Name) and c.left.id == var
                            and len(c.ops) == 1 and isinstance(c.ops[0], (ast.Is, ast.IsNot))
                            and isinstance(c.comparators[0], ast.Constant) and c.comparators[0].value is None):
                        return True
                    if isinstance(c, ast.Name) and c.id in flag_defs and depth < 2 and tests_none(flag_defs[c.id], depth + 1):
                        return True
                return False

            if isinstance(node, ast.Dict):
                # a display that is only ever expanded into tensor.to(**d) / .type(**d) is not a store into the record:
                # torch accepts dtype=None / device=None there
                holder = next((a_.targets[0].id for a_ in walk_body(fn) if isinstance(a_, ast.Assign) and a_.value is node
                               and len(a_.targets) == 1 and isinstance(a_.targets[0], ast.Name)), None)
                holders = {holder} if holder is not None else set()
                alias_reads = set()
                grew = True
                while grew and holders:  # to_kwargs = cast_and_move if keeps_kind else move_only
                    grew = False
                    for a_ in walk_body(fn):
                        if isinstance(a_, ast.Assign) and len(a_.targets) == 1 and isinstance(a_.targets[0], ast.Name):
                            v_ = a_.value
                            parts = [v_.body, v_.orelse] if isinstance(v_, ast.IfExp) else [v_]
                            if all(isinstance(p_, ast.Name) for p_ in parts) and any(p_.id in holders for p_ in parts):
                                alias_reads |= {id(p_) for p_ in parts}
                                if a_.targets[0].id not in holders:
                                    holders.add(a_.targets[0].id)
                                    grew = True
                uses = [c_ for c_ in walk_body(fn) if isinstance(c_, ast.Call) and any(
                    k.arg is None and ((k.value is node) or (isinstance(k.value, ast.Name) and k.value.id in holders))
                    for k in c_.keywords)]
                other_reads = any(isinstance(x_, ast.Name) and x_.id in holders and isinstance(x_.ctx, ast.Load)
                                  and id(x_) not in alias_reads and not any(k.value is x_ for c_ in uses for k in c_.keywords)
                                  for x_ in walk_body(fn))
                if uses and not other_reads and all(isinstance(c_.func, ast.Attribute) and c_.func.attr in ("to", "type") for c_ in uses):
                    rep.ok("C14.N", {"function": _fname(fn), "use": bad_kind, "note": "keywords of tensor.to(**...) only"})
                    continue
            tests = _guards(fn.node, node)
            guarded = any(tests_none(t) for t in tests)
            # `dtype is None or dtype.x` inside one BoolOp
            if not guarded:
                for b in ast.walk(fn.node):
                    if isinstance(b, ast.BoolOp) and any(x is node for v in b.values for x in ast.walk(v)):
                        first = b.values[0]
                        if tests_none(first) and not any(x is node for x in ast.walk(first)):
                            guarded = True
            if not guarded:
                guarded = _none_excluded_on_every_path(fn, var, node)
            sample = {"function": _fname(fn), "use": bad_kind, "none_tested": guarded}
            if guarded:
                rep.ok("C14.N", sample)
            else:
                rep.bad("C14.N", Finding(PROP, "C14.N", _fname(fn), norm(node),
                                         f"{bad_kind}: `{var}` comes from _to_helper, which returns None when only the "
                                         "other of device / dtype is given (e.g. op.to(device)) - AttributeError, or the "
                                         "stored dtype / device is overwritten with None / replaced by torch's default", fn.loc(node)))


def rule_p2(idx: ProgramIndex, rep: Report, records: Dict[str, CtorRecord]):
    """A class that stores its dtype from a constructor keyword must rebuild with the target dtype in to()/type()."""
    rep.rule("C14.P2", "classes constructed with dtype= override to() and type() to pass the target dtype", floor=4)
    base = idx.operator_base()
    for c in idx.operator_classes():
        rec = records[c.name]
        if "dtype" not in rec.all_params():
            continue
        for m in ("to", "type"):
            fn = idx.resolve_method(c, m)
            ok = False
            stale = None
            if fn is not None and fn.cls is not base:
                # names that carry the TARGET dtype: the parameter `dtype` of type(), the dtype unpacked from _to_helper(),
                # and anything converted with it (res = self.type(dtype) -> res.dtype)
                target: Set[str] = {p_ for p_ in fn.params() if p_ == "dtype"}
                for n in walk_body(fn):
                    if isinstance(n, ast.Assign) and isinstance(n.value, ast.Call) and "_to_helper" in norm(n.value.func):
                        for t in n.targets:
                            target |= {x.id for x in ast.walk(t) if isinstance(x, ast.Name) and "dtype" in x.id}
                changed = True
                while changed:
                    changed = False
                    for n in walk_body(fn):
                        if isinstance(n, ast.Assign) and len(n.targets) == 1 and isinstance(n.targets[0], ast.Name) \
                                and n.targets[0].id not in target and any(isinstance(x, ast.Name) and x.id in target for x in ast.walk(n.value)):
                            target.add(n.targets[0].id)
                            changed = True
                for n in walk_body(fn):
                    if isinstance(n, ast.Call) and isinstance(n.func, ast.Attribute) and isinstance(n.func.value, ast.Name) \
                            and n.func.value.id == "self" and n.func.attr.startswith("_"):
                        # self._rebuild(..., dtype): a private helper that forwards that parameter to a constructor's dtype=
                        h = idx.resolve_method(c, n.func.attr)
                        if h is not None:
                            hp = h.params()[1:]
                            fwd = {p_ for p_ in hp for c2 in walk_body(h) if isinstance(c2, ast.Call) for k2 in c2.keywords
                                   if k2.arg == "dtype" and isinstance(k2.value, ast.Name) and k2.value.id == p_}
                            for i_, a_ in enumerate(n.args):
                                if i_ < len(hp) and hp[i_] in fwd and any(isinstance(x, ast.Name) and x.id in target for x in ast.walk(a_)):
                                    ok = True
                            for k_ in n.keywords:
                                if k_.arg in fwd and any(isinstance(x, ast.Name) and x.id in target for x in ast.walk(k_.value)):
                                    ok = True
                    if isinstance(n, ast.Call):
                        for k in n.keywords:
                            if k.arg == "dtype":
                                if any(isinstance(x, ast.Name) and x.id in target for x in ast.walk(k.value)):
                                    ok = True
                                elif isinstance(n.func, (ast.Name, ast.Attribute)) and (
                                        (isinstance(n.func, ast.Attribute) and n.func.attr == "__class__")
                                        or idx.class_of_expr(fn.module, n.func) is not None):
                                    stale = n
                    if isinstance(n, ast.Assign) and any(
                            isinstance(t, ast.Subscript) and isinstance(t.slice, ast.Constant) and t.slice.value == "dtype"
                            for t in n.targets):
                        ok = True
            if stale is not None and fn is not None and fn.cls is c:
                rep.bad("C14.P2", Finding(PROP, "C14.P2", f"{c.name}.{m}", norm(stale),
                                          f"{c.name}.{m}: `{short(stale, 80)}` rebuilds the operator with a dtype that does not derive from "
                                          "the requested one (a stale self.dtype): a conversion that also moves the device returns the "
                                          "old dtype", fn.loc(stale)))
                continue
            sample = {"class": c.name, "method": m, "defined_in": fn.cls.name if fn and fn.cls else None, "passes_dtype": ok}
            if ok:
                rep.ok("C14.P2", sample)
            else:
                rep.bad("C14.P2", Finding(PROP, "C14.P2", f"{c.name}.{m}", f"{c.name} resolves {m} to "
                                          f"{fn.cls.name if fn and fn.cls else None}.{m}",
                                          f"{c.name} takes its dtype from the constructor keyword `dtype`, but {m}() as "
                                          "resolved on it never passes the target dtype: conversions return the old dtype",
                                          f"{c.file}:{c.node.lineno}"))


def rule_p3(idx: ProgramIndex, rep: Report):
    """A class whose `dtype` property reads an attribute that its constructor sets to a fixed value (state outside the
    constructor record: the integer tensors of a permutation operator carry no floating dtype) cannot be converted by the
    generic rebuild `self.__class__(*args, **kwargs)`: to() and type() as resolved on it must write that attribute (or pass
    dtype= to the constructor) from the requested dtype."""
    rep.rule("C14.P3", "a dtype kept in an attribute outside the constructor record is carried by to() and type()", floor=2)
    base = idx.operator_base()
    for c in idx.operator_classes():
        if c is base:
            continue
        prop = idx.resolve_method(c, "dtype")
        if prop is None or prop.cls is base or prop.cls is None:
            continue
        rets = [n.value for n in walk_body(prop) if isinstance(n, ast.Return) and n.value is not None]
        if len(rets) != 1 or not (isinstance(rets[0], ast.Attribute) and isinstance(rets[0].value, ast.Name) and rets[0].value.id == "self"):
            continue
        attr = rets[0].attr
        init = idx.resolve_method(c, "__init__")
        if init is None or init.cls is base:
            continue
        params = set(init.all_param_names())
        grew = True
        while grew:  # locals computed from constructor arguments (one = torch.ones(..., dtype=dtype); self._dtype = one.dtype)
            grew = False
            for n in walk_body(init):
                if isinstance(n, ast.Assign) and len(n.targets) == 1 and isinstance(n.targets[0], ast.Name) and n.targets[0].id not in params \
                        and any(isinstance(x, ast.Name) and x.id in params for x in ast.walk(n.value)):
                    params.add(n.targets[0].id)
                    grew = True
        fixed = [n for n in walk_body(init) if isinstance(n, ast.Assign) and any(
            isinstance(t, ast.Attribute) and isinstance(t.value, ast.Name) and t.value.id == "self" and t.attr == attr for t in n.targets)
            and not any(isinstance(x, ast.Name) and x.id in params for x in ast.walk(n.value))]
        if not fixed:
            continue  # the attribute derives from a constructor argument: the record carries it (C14.P2 / the generic rebuild)
        for m in ("to", "type"):
            fn = idx.resolve_method(c, m)
            ok = False
            if fn is not None and fn.cls is not base:
                target: Set[str] = {p_ for p_ in fn.params() if p_ == "dtype"}
                for n in walk_body(fn):
                    if isinstance(n, ast.Assign) and isinstance(n.value, ast.Call) and "_to_helper" in norm(n.value.func):
                        for t in n.targets:
                            target |= {x.id for x in ast.walk(t) if isinstance(x, ast.Name) and "dtype" in x.id}
                changed = True
                while changed:  # locals computed from the requested dtype (new_dtype = self._dtype if dtype is None else dtype)
                    changed = False
                    for n in walk_body(fn):
                        if isinstance(n, ast.Assign) and len(n.targets) == 1 and isinstance(n.targets[0], ast.Name) \
                                and n.targets[0].id not in target and any(isinstance(x, ast.Name) and x.id in target for x in ast.walk(n.value)):
                            target.add(n.targets[0].id)
                            changed = True
                for n in walk_body(fn):
                    if isinstance(n, ast.Assign) and any(isinstance(t, ast.Attribute) and t.attr == attr and not (
                            isinstance(t.value, ast.Name) and t.value.id == "self") for t in n.targets) \
                            and any(isinstance(x, ast.Name) and x.id in target for x in ast.walk(n.value)):
                        ok = True  # res._dtype = dtype (the result, not self: C12.W / C13.D forbid re-typing the receiver)
                    if isinstance(n, ast.Assign) and any(isinstance(t, ast.Subscript) and isinstance(t.slice, ast.Constant)
                                                         and t.slice.value == "dtype" for t in n.targets) \
                            and any(isinstance(x, ast.Name) and x.id in target for x in ast.walk(n.value)):
                        ok = True  # new_kwargs["dtype"] = dtype: the keyword record of the rebuilt operator
                    if isinstance(n, ast.Call) and any(k.arg == "dtype" and any(isinstance(x, ast.Name) and x.id in target for x in ast.walk(k.value))
                                                       for k in n.keywords) and (
                            (isinstance(n.func, ast.Attribute) and n.func.attr == "__class__") or idx.class_of_expr(fn.module, n.func) is not None):
                        ok = True
            sample = {"class": c.name, "dtype_attribute": attr, "method": m, "defined_in": fn.cls.name if fn and fn.cls else None}
            if ok:
                rep.ok("C14.P3", sample)
            else:
                rep.bad("C14.P3", Finding(PROP, "C14.P3", f"{c.name}.{m}", f"{c.name} resolves {m} to "
                                          f"{fn.cls.name if fn and fn.cls else None}.{m}: dtype attribute not carried",
                                          f"{c.name}.dtype is `self.{attr}`, which {init.cls.name}.__init__ sets to a fixed value; {m}() as "
                                          f"resolved on it ({fn.cls.name if fn and fn.cls else None}.{m}) rebuilds through the constructor and "
                                          f"never writes `{attr}` from the requested dtype: the conversion returns an operator of the old "
                                          "dtype (and its to_dense() is of the old dtype)", f"{c.file}:{c.node.lineno}"))


def rule_v2(idx: ProgramIndex, rep: Report):
    """No conversion short-cut on the operator's `dtype` attribute: for a generic operator `self.dtype` is the dtype of its
    FIRST tensor only, so `if self.dtype == dtype: return self` hands back the unconverted operator although other recorded
    tensors (a float32 summand next to a float64 one) still have another dtype."""
    rep.rule("C14.V2", "conversions convert every recorded tensor (no `return self` short-cut on the first tensor's dtype)", floor=3)
    base = idx.operator_base()
    for c in idx.operator_classes():
        for m in ("to", "type", "double", "float", "half"):
            fn = c.methods.get(m)
            if fn is None:
                continue
            dt = idx.resolve_method(c, "dtype")
            generic_dtype = dt is None or dt.cls is base
            rets = [n for n in walk_body(fn) if isinstance(n, ast.Return) and isinstance(n.value, ast.Name)
                    and n.value.id == (fn.params()[0] if fn.params() else "self")]
            sample = {"conversion": f"{c.name}.{m}", "returns_self": len(rets), "dtype_is_first_tensor_only": generic_dtype}
            if rets and generic_dtype:
                rep.bad("C14.V2", Finding(PROP, "C14.V2", f"{c.name}.{m}", "conversion returns self unconverted",
                                         f"{c.name}.{m} can return `self` without converting: the operator's dtype attribute is the dtype "
                                         "of its first tensor only, so an operator with components of different precision (a float32 "
                                         "summand, a float64 diagonal) is handed back with tensors that are not of the requested dtype",
                                         fn.loc(rets[0])), sample)
            else:
                rep.ok("C14.V2", sample)


# ------------------------------------------------------------------------------------------------ G
def rule_g(idx: ProgramIndex, rep: Report):
    rep.rule("C14.G", "requires_grad_ on recorded arguments only behind a floating dtype test", floor=1)
    for c in idx.operator_classes():
        fn = c.methods.get("_set_requires_grad")
        if fn is None:
            continue
        for n in walk_body(fn):
            if isinstance(n, ast.Call) and isinstance(n.func, ast.Attribute) and n.func.attr == "requires_grad_":
                recv = n.func.value
                rname = recv.id if isinstance(recv, ast.Name) else None
                tests = _guards(fn.node, n)
                ok = False
                for t in tests:
                    txt = norm(t)
                    if "dtype" in txt or "is_floating_point" in txt:
                        if rname is None or rname in txt:
                            ok = True
                # receivers that are sub-operators (self.base_linear_op.requires_grad_) delegate the test
                if rname is None and isinstance(recv, ast.Attribute):
                    ok = True
                sample = {"method": f"{c.name}._set_requires_grad", "call": short(n), "guarded": ok}
                if ok:
                    rep.ok("C14.G", sample)
                else:
                    rep.bad("C14.G", Finding(PROP, "C14.G", f"{c.name}._set_requires_grad", norm(n),
                                             "requires_grad_ applied to a recorded argument without a floating dtype "
                                             "test: integer / boolean tensors raise or get a gradient flag", fn.loc(n)))


def rule_g2(idx: ProgramIndex, rep: Report):
    """requires_grad is propagated to EVERY recorded tensor: the loops of _set_requires_grad (and of the requires_grad
    getter) cover `_args` and a keyword record that holds the tensor-valued keywords."""
    rep.rule("C14.G2", "requires_grad propagation covers the positional and the tensor-valued keyword record", floor=2)
    from ..recordmut import record_containers

    base = idx.operator_base()
    init = base.methods.get("__init__")
    records = record_containers(idx)
    tensor_kw: Set[str] = set()
    plain_kw: Set[str] = set()

    def is_tensor_test(e: ast.AST) -> bool:
        t = norm(e)
        return "is_tensor" in t or ("isinstance" in t and ("LinearOperator" in t or "Tensor" in t))

    if init is not None:
        # shape 1: a loop that files each keyword under a type test
        for n in ast.walk(init.node):
            if isinstance(n, ast.If) and is_tensor_test(n.test):
                for fld, bucket in ((n.body, tensor_kw), (n.orelse, plain_kw)):
                    for st in fld:
                        for x in ast.walk(st):
                            if isinstance(x, ast.Assign):
                                for t in x.targets:
                                    if isinstance(t, ast.Subscript) and isinstance(t.value, ast.Attribute) and isinstance(t.value.value, ast.Name) \
                                            and t.value.value.id == "self":
                                        bucket.add(t.value.attr)
        # shape 2: filtered comprehensions; the filter is the type test itself or a flag taken (through zip) from a list of
        # type tests computed before
        flag_lists = {t.id for n in ast.walk(init.node) if isinstance(n, ast.Assign) and isinstance(n.value, (ast.ListComp, ast.GeneratorExp))
                      and is_tensor_test(n.value.elt) for t in n.targets if isinstance(t, ast.Name)}
        for n in ast.walk(init.node):
            if not (isinstance(n, ast.Assign) and len(n.targets) == 1 and isinstance(n.targets[0], ast.Attribute)
                    and isinstance(n.targets[0].value, ast.Name) and n.targets[0].value.id == "self"):
                continue
            comp = n.value if isinstance(n.value, ast.DictComp) else next(
                (a_ for a_ in getattr(n.value, "args", []) if isinstance(a_, (ast.GeneratorExp, ast.ListComp, ast.DictComp))), None)
            if comp is None:
                continue
            for g in comp.generators:
                flags = set()
                if isinstance(g.iter, ast.Call) and isinstance(g.iter.func, ast.Name) and g.iter.func.id == "zip" \
                        and isinstance(g.target, (ast.Tuple, ast.List)) and len(g.target.elts) == len(g.iter.args):
                    for tg, src in zip(g.target.elts, g.iter.args):
                        if isinstance(src, ast.Name) and src.id in flag_lists and isinstance(tg, ast.Name):
                            flags.add(tg.id)
                for cond in g.ifs:
                    neg, c_ = False, cond
                    while isinstance(c_, ast.UnaryOp) and isinstance(c_.op, ast.Not):
                        neg, c_ = not neg, c_.operand
                    if is_tensor_test(c_) or (isinstance(c_, ast.Name) and c_.id in flags):
                        (plain_kw if neg else tensor_kw).add(n.targets[0].attr)
    # properties that merge records (e.g. _kwargs = {**tensor kw, **plain kw}) stand for every record they read
    reads: Dict[str, Set[str]] = {}
    for nm, defs in base.all_defs.items():
        for f_ in defs:
            if f_.is_property() and not f_.is_setter():
                r_ = {x.attr for x in ast.walk(f_.node) if isinstance(x, ast.Attribute) and x.attr in records}
                if r_:
                    reads.setdefault(nm, set()).update(r_)
    union = set().union(*reads.values()) if reads else set(records)
    for mname in ("_set_requires_grad", "requires_grad"):
        for f_ in base.all_defs.get(mname, []):
            if f_.is_setter():
                continue
            iterated = {x.attr for n in ast.walk(f_.node) if isinstance(n, (ast.For, ast.comprehension))
                        for x in ast.walk(n.iter) if isinstance(x, ast.Attribute) and isinstance(x.value, ast.Name) and x.value.id == "self"}
            if not iterated:
                continue
            covered = set()
            for a_ in iterated:
                covered |= reads.get(a_, {a_} if a_ in records else set())
            sample = {"method": f"{base.name}.{mname}", "iterates": sorted(iterated), "keyword_records_covered": sorted(covered),
                      "tensor_keyword_record": sorted(tensor_kw) or "not classified: every record must be covered"}
            if tensor_kw:
                good = "_args" in iterated and tensor_kw <= covered
            elif "_args" in iterated and union <= covered:
                good = True
            elif "_args" not in iterated:
                good = False
            else:
                raise AnalysisError("LinearOperator.__init__: the record of tensor-valued keyword arguments was not found and "
                                    f"{base.name}.{mname} does not walk every keyword record")
            if good:
                rep.ok("C14.G2", sample)
            else:
                rep.bad("C14.G2", Finding(PROP, "C14.G2", f"{base.name}.{mname}", f"iterates {sorted(iterated)}",
                                          f"{base.name}.{mname} walks {sorted(iterated)} but the tensor-valued keyword arguments live in "
                                          f"{sorted(tensor_kw) or sorted(union)}: floating tensors passed by keyword (KernelLinearOperator "
                                          "hyper-parameters) are skipped when requires_grad is propagated / read", f_.loc()), sample)


# ------------------------------------------------------------------------------------------------
CONVERSION_METHODS = {"to", "type", "cpu", "cuda", "double", "float", "half", "clone", "detach", "all_to", "_to_helper"}


def rule_c(idx: ProgramIndex, rep: Report):
    """Clone freshness through the ownership engine (E1): the operator returned by clone() holds no tensor object and
    no storage of the receiver, for every definition of clone as resolved on every operator class."""
    from ..own import Engine

    rep.rule("C14.C", "clone() returns an operator that shares no tensor object or storage with the original", floor=1)
    eng = Engine(idx)
    eng.run()
    seen = set()
    for c in idx.operator_classes():
        fn = idx.resolve_method(c, "clone")
        if fn is None or fn.qualname in seen:
            continue
        seen.add(fn.qualname)
        ret = eng.summary_of(fn).ret
        shared = sorted({kind for (origin, kind) in (ret.prov | ret.oprov) if origin and origin[0] == "SELF"})
        who = short_name(fn)
        sample = {"clone": who, "result_type": ret.ty, "shares_with_self": shared}
        if ret.ty not in ("op", "unknown"):
            rep.bad("C14.C", Finding(PROP, "C14.C", who, "clone does not return an operator",
                                     f"{who} returns a value of abstract type {ret.ty}", fn.loc()), sample)
        elif shared:
            what = "the very tensor objects" if "OBJ" in shared else "storage (views / detached aliases)"
            rep.bad("C14.C", Finding(PROP, "C14.C", who, "clone result shares " + "/".join(shared) + " with self",
                                     f"{who}: the operator it returns may hold {what} of the original: an in-place update of "
                                     "the clone's (or the original's) tensors changes the other - the copy is not independent",
                                     fn.loc()), sample)
        else:
            rep.ok("C14.C", sample)


def short_name(fn: FunctionInfo) -> str:
    return (fn.cls.name + "." if fn.cls else "") + fn.name


def factory_rule_for(idx: ProgramIndex, rep: Report, prop: str, rule: str, where) -> int:
    """Re-emit rule F (floating factories carry an operand's dtype) under another property for the functions selected
    by `where(finding_function_name, loc)` - e.g. the product kernels under C01."""
    sub = Report(PROP, "quick", rep.root)
    sub.quiet = True
    records = {c.name: ctor_record(idx, c) for c in idx.operator_classes()}
    rule_f(idx, sub, records)
    n = 0
    for r in ("C14.F", "C14.F2"):
        st = sub.rules.get(r)
        if st is None:
            continue
        bad = [f for f in sub.findings if f.rule == r]
        for f in bad:
            if where(f.function, f.loc):
                n += 1
                rep.bad(rule, Finding(prop, rule, f.function, f.construct, f"[{r}] {f.message}", f.loc))
        for smp in st.samples:
            pass
        rep.count(rule, max(st.instances - len(bad), 0))
    return n


def run(idx: ProgramIndex, rep: Report, tier: str, selftest: bool = True):
    rep.extra["explanation"] = (
        "Table-agreement and dataflow rules over the ast of every operator class. A: the chain of __init__ calls of "
        "each of the 36 operator classes is followed through the statically computed MRO down to "
        "LinearOperator.__init__, giving what _args/_kwargs record in terms of the class's own constructor "
        "parameters; the rebuild cls(*_args, **_kwargs) that clone/detach/to/type/cpu/representation_tree perform is "
        "then bound back onto the signature and every parameter must receive a value derived from itself. F: every "
        "call of a floating tensor factory and every constructor call of a dtype-taking class must carry a dtype "
        "derived from an operand. V: dtype conversions of recorded arguments must sit behind a floating-point test. "
        "P/G: dtype/device property overrides and requires_grad guards. Decides the structural clauses of C14 for all "
        "dtypes and all default-dtype configurations at once; does NOT decide equality of dense values."
    )
    rep.assumptions += [
        "torch factories zeros/ones/eye/empty/full/rand/randn/linspace/logspace create torch.get_default_dtype() "
        "tensors unless dtype= is given; arange/tensor of ints create integer tensors",
        "a dtype expression that is neither a literal nor torch.get_default_dtype() derives from an operand",
    ]
    records = rule_a(idx, rep)
    rule_f(idx, rep, records)
    rule_v(idx, rep, records)
    rule_p(idx, rep, records)
    rule_p2(idx, rep, records)
    rule_p3(idx, rep)
    rule_v2(idx, rep)
    rule_n(idx, rep)
    rule_g(idx, rep)
    rule_g2(idx, rep)
    rule_c(idx, rep)
    # R: the conversion / copy methods that do not go through cls(*_args, **_kwargs) but rebuild explicitly must bind
    #    to the constructor and forward every value-bearing flag (same engine as C02.R, restricted to these methods)
    from .c02 import rule_rebuild

    rule_rebuild(idx, rep, rule="C14.R", prop=PROP, only_methods=CONVERSION_METHODS, floor=15,
                 title="explicit rebuilds inside to/type/cpu/cuda/double/float/half/clone/detach forward every value-bearing flag")
    from ..recordmut import report_record_mutations

    report_record_mutations(idx, rep, PROP, "C14.M")
    if selftest:
        from ..selftest import run_fixtures

        run_fixtures(rep, PROP)
