"""Operand side of the products inside the matmul family.

``op.matmul(X)`` / ``op._matmul(X)`` / ``op @ X`` / ``op._t_matmul(X)`` are LEFT multiplications by (the transpose of) the
operator; ``op.rmatmul(X)`` / ``X @ op`` are right multiplications.  Inside such a definition, a matrix product one factor
of which carries the operand's VALUE while the other is built from ``self`` only must therefore have the self-only
factor on the left (on the right for the reflected family) - unless a transpose is involved, which this rule does not
follow (no verdict).  Shape / dtype reads of the operand do not make a factor operand-carrying."""
from __future__ import annotations

import ast
from typing import Dict, List, Optional, Set, Tuple

from ..deps import value_reads
from ..index import FunctionInfo, ProgramIndex, dotted, norm, short, walk_body
from ..report import Finding, Report

LEFT_FAMILY = {"matmul", "_matmul", "__matmul__", "_t_matmul"}
RIGHT_FAMILY = {"rmatmul", "__rmatmul__"}
PRODUCT_METHODS = {"matmul", "_matmul", "mm", "bmm"}
TRANSPOSES = {"mT", "T", "mH"}
TRANSPOSE_CALLS = {"transpose", "t", "_transpose_nonbatch", "permute", "transpose_", "adjoint"}


def _has_transpose(e: ast.AST) -> bool:
    for x in ast.walk(e):
        if isinstance(x, ast.Attribute) and x.attr in TRANSPOSES:
            return True
        if isinstance(x, ast.Call) and isinstance(x.func, ast.Attribute) and x.func.attr in TRANSPOSE_CALLS:
            return True
    return False


def product_factors(n: ast.AST) -> Optional[Tuple[ast.AST, ast.AST]]:
    if isinstance(n, ast.BinOp) and isinstance(n.op, ast.MatMult):
        return n.left, n.right
    if isinstance(n, ast.Call):
        d = dotted(n.func) or ""
        if d in ("torch.matmul", "torch.mm", "torch.bmm") and len(n.args) >= 2:
            return n.args[0], n.args[1]
        if isinstance(n.func, ast.Attribute) and n.func.attr in PRODUCT_METHODS and len(n.args) == 1 and not d.startswith("torch."):
            return n.func.value, n.args[0]
    return None


def check_sides(idx: ProgramIndex, rep: Report, prop: str, rule: str) -> int:
    n_sites = 0
    for c in idx.operator_classes():
        for mname, fn in c.methods.items():
            if mname not in LEFT_FAMILY | RIGHT_FAMILY or len(fn.params()) < 2:
                continue
            sn, op = fn.params()[0], fn.params()[1]
            # names carrying the operand's value / names built from self only (flow-insensitive, to a fixpoint)
            carries: Set[str] = {op}
            selfonly: Set[str] = set()
            assigns = [(n.targets[0].id, n.value) for n in walk_body(fn) if isinstance(n, ast.Assign) and len(n.targets) == 1
                       and isinstance(n.targets[0], ast.Name)]
            changed = True
            while changed:
                changed = False
                for name, v in assigns:
                    rd = {r.split(".")[0] for r in value_reads(v)}
                    if name not in carries and rd & carries:
                        carries.add(name)
                        changed = True
            for name, v in assigns:
                rd = {r.split(".")[0] for r in value_reads(v)}
                if name not in carries and (sn in rd or rd & selfonly):
                    selfonly.add(name)
            # a second pass for chains of self-only locals
            for _ in range(3):
                for name, v in assigns:
                    rd = {r.split(".")[0] for r in value_reads(v)}
                    if name not in carries and rd and rd <= (selfonly | {sn, "torch"}):
                        selfonly.add(name)

            # locals that hold (something built from) a transpose: self_t = self.mT
            transposed: Set[str] = set()
            for _ in range(4):
                for name, v in assigns:
                    if name not in transposed and (_has_transpose(v) or any(isinstance(x, ast.Name) and x.id in transposed for x in ast.walk(v))):
                        transposed.add(name)

            def has_transpose(e: ast.AST) -> bool:
                return _has_transpose(e) or any(isinstance(x, ast.Name) and x.id in transposed for x in ast.walk(e))

            def kind(e: ast.AST) -> str:
                rd = {r.split(".")[0] for r in value_reads(e)}
                if rd & carries:
                    return "operand"
                if sn in rd or rd & selfonly:
                    return "self"
                return "other"

            want_self_left = mname in LEFT_FAMILY
            for n in walk_body(fn):
                pf = product_factors(n)
                if pf is None:
                    continue
                l, r = pf
                kl, kr = kind(l), kind(r)
                if {kl, kr} != {"self", "operand"}:
                    continue
                if has_transpose(l) or has_transpose(r):
                    continue
                # a product nested under a transpose of its result is not followed either
                n_sites += 1
                self_left = kl == "self"
                who = f"{c.name}.{mname}"
                sample = {"method": who, "product": short(n, 70), "left": kl, "right": kr}
                if self_left == want_self_left:
                    rep.ok(rule, sample)
                else:
                    rep.bad(rule, Finding(prop, rule, who, norm(n),
                                          f"{who}: `{short(n, 70)}` puts the factor built from the operand `{op}` on the "
                                          f"{'left' if want_self_left else 'right'} of the factor built from self, but {mname} is a "
                                          f"{'left' if want_self_left else 'right'} multiplication by the operator: the result is "
                                          f"{'X A' if want_self_left else 'A X'} instead of {'A X' if want_self_left else 'X A'} (same shape for "
                                          "square factors, so nothing raises)", fn.loc(n)), sample)
    return n_sites
