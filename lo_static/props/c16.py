"""C16 - psd_safe_cholesky perturbs minimally, per batch member, or fails loudly (structural clauses).

    W  the input ``A`` is never written (ownership analysis E1; ``out`` is the explicit buffer)
    I  info-gated escape: a factor bound by ``L, info = cholesky_ex(...)`` reaches a ``return`` only on a path on which
       THAT generation of ``info`` was tested all-zero (the documented ``settings.trace_mode`` escape is the one exception)
    F  loud failure: leaving the retry loop without success reaches ``raise NotPSDError`` (no normal exit); the NaN
       screen (``raise NanError``) dominates the loop; every diagonal update is followed by a ``NumericalWarning``
    D  dependence: the addend of the diagonal update depends on ``info`` (per batch member) and on the difference
       between the new and the previous jitter (incremental); the default jitter depends on ``A.dtype`` through
       ``settings.cholesky_jitter``, the default number of tries on ``settings.cholesky_max_tries``
    U  ``upper`` is honoured: with upper the returned factor (or the explicit out buffer that holds it) is transposed,
       without it nothing is
"""
from __future__ import annotations

import ast
from typing import Dict, List, Optional, Set, Tuple

import networkx as nx

from ..cfg import CFG, Node
from ..ctor import _local_deps, expr_deps
from ..index import AnalysisError, FunctionInfo, ProgramIndex, dotted, norm, short, walk_body
from ..own import Engine
from ..report import Finding, Report

PROP = "C16"
MOD = "linear_operator.utils.cholesky"


def fname(fn: FunctionInfo) -> str:
    return fn.qualname.replace("linear_operator.", "", 1)


def full_deps(fn: FunctionInfo) -> Dict[str, Set[str]]:
    """name -> names / dotted attribute reads it transitively depends on (flow-insensitive; in-place methods and
    augmented assignments count as definitions of their target)."""
    direct: Dict[str, Set[str]] = {}

    def reads(e: ast.AST) -> Set[str]:
        out: Set[str] = set()
        for x in ast.walk(e):
            if isinstance(x, ast.Name):
                out.add(x.id)
            elif isinstance(x, ast.Attribute):
                d = dotted(x)
                if d:
                    out.add(d)
        return out

    def targets(t: ast.AST) -> List[str]:
        return [x.id for x in ast.walk(t) if isinstance(x, ast.Name)]

    for n in walk_body(fn):
        if isinstance(n, ast.Assign):
            for t in n.targets:
                for nm in targets(t):
                    direct.setdefault(nm, set()).update(reads(n.value))
        elif isinstance(n, ast.AugAssign):
            for nm in targets(n.target):
                direct.setdefault(nm, set()).update(reads(n.value) | {nm})
        elif isinstance(n, ast.For):
            for nm in targets(n.target):
                direct.setdefault(nm, set()).update(reads(n.iter))
        elif isinstance(n, ast.Call) and isinstance(n.func, ast.Attribute) and n.func.attr.endswith("_") \
                and not n.func.attr.startswith("_"):
            base = n.func.value
            while isinstance(base, (ast.Attribute, ast.Call, ast.Subscript)):
                base = base.func.value if isinstance(base, ast.Call) and isinstance(base.func, ast.Attribute) else (
                    base.value if not isinstance(base, ast.Call) else None)
                if base is None:
                    break
            if isinstance(base, ast.Name):
                for a in list(n.args) + [k.value for k in n.keywords]:
                    direct.setdefault(base.id, set()).update(reads(a))
    # control dependence on `if X is None:` defaults:  if jitter is None: jitter = settings...(A.dtype)
    closed: Dict[str, Set[str]] = {k: set(v) for k, v in direct.items()}
    changed = True
    while changed:
        changed = False
        for k, v in closed.items():
            add = set()
            for d in list(v):
                if d in closed and d != k:
                    add |= closed[d]
            if not add <= v:
                v |= add
                changed = True
    return closed


def _inside_loop(cfg: CFG, nid: int) -> bool:
    return any(cfg.nodes[d].kind == "iter" or (cfg.nodes[d].kind == "test" and isinstance(getattr(cfg.nodes[d], "stmt", None), ast.While))
               for d in cfg.dominators(nid))


def run(idx: ProgramIndex, rep: Report, tier: str, selftest: bool = True):
    rep.extra["explanation"] = (
        "Typestate, must-pass-through and dependence rules over the statement-level CFG of "
        "linear_operator/utils/cholesky.py (psd_safe_cholesky and its retry helper), plus the ownership analysis for "
        "input immutability. They decide, for all inputs, batch shapes and dtypes at once, the control skeleton the "
        "property describes: a factor escapes only after ITS OWN info codes were tested all-zero; exhausting the tries "
        "cannot fall through to a normal return; the NaN screen precedes the retries; every perturbation is announced "
        "by a NumericalWarning; the addend is masked by info (per batch member) and incremental; defaults come from "
        "the per-dtype setting; upper transposes exactly on request. NOT decided: that the returned factor is the "
        "exact Cholesky factor of the perturbed matrix, the 10**i arithmetic."
    )
    rep.assumptions += [
        "torch.linalg.cholesky_ex returns (factor, info) with info == 0 exactly for the batch members that succeeded",
        "assumptions A1-A4 of the ownership analysis (see C13)",
    ]
    m = idx.modules.get(MOD)
    if m is None:
        raise AnalysisError(f"{MOD} not found")
    pub = m.functions.get("psd_safe_cholesky")
    if pub is None:
        raise AnalysisError("psd_safe_cholesky not found")
    # the retry helper: the module function that calls cholesky_ex
    helper = None
    for f in m.functions.values():
        if any(isinstance(n, ast.Call) and (dotted(n.func) or "").endswith("cholesky_ex") for n in walk_body(f)):
            helper = f
    if helper is None:
        raise AnalysisError("no function of utils/cholesky.py calls torch.linalg.cholesky_ex (anchor vanished)")
    # same-module helpers that the retry routine calls (a NaN screen, the masked diagonal update ...) are inlined, so that
    # extracting or re-inlining them does not change a verdict; psd_safe_cholesky itself keeps its call of the routine
    from ..inline import inline_helpers

    helper0 = helper
    helper, inlined = inline_helpers(idx, helper0)
    if pub is not helper0:
        pub, inl2 = inline_helpers(idx, pub, only={f.name for f in m.functions.values() if f is not helper0 and f is not pub})
        inlined += inl2
    rep.analysed["inlined_helpers"] = inlined
    rep.analysed["functions"] = [fname(pub), fname(helper)]

    # ---------------------------------------------------------------- W
    rep.rule("C16.W", "the input matrix A is never written", floor=2)
    eng = Engine(idx)
    eng.changed_set = set()
    eng.deps = {}
    for f in (helper, pub, helper, pub):
        eng.analyse(f)
    n_sites = 0
    for f in (helper, pub):
        for n in walk_body(f):
            if isinstance(n, ast.Call) and isinstance(n.func, ast.Attribute) and n.func.attr.endswith("_") and not n.func.attr.startswith("_"):
                n_sites += 1
            if isinstance(n, ast.Call) and any(k.arg == "out" for k in n.keywords):
                n_sites += 1
    flagged = [s for f in (helper, pub) for s in eng.sinks.get(f.qualname, [])]
    for s in flagged:
        rep.bad("C16.W", Finding(PROP, "C16.W", fname(s.fn), f"{s.what} on {s.target_text}",
                                 f"in-place write `{short(s.node, 80)}` may modify the caller's matrix (provenance: "
                                 f"{sorted(str(o[0][2]) if o[0][0] == 'P' else o[0][0] for o in s.target.prov)})",
                                 s.fn.loc(s.node)))
    for _ in range(max(n_sites - len(flagged), 0)):
        rep.count("C16.W")
    if n_sites < 2:
        rep.error("no in-place site found in utils/cholesky.py: the routine no longer perturbs in place (anchor vanished)")

    # ---------------------------------------------------------------- I, F on the helper's CFG
    cfg = CFG(helper)
    binds: List[Node] = []  # nodes binding (factor, info) from cholesky_ex
    for n in cfg.stmt_nodes():
        if n.kind == "stmt" and isinstance(n.ast, ast.Assign) and isinstance(n.ast.value, ast.Call) and (
                dotted(n.ast.value.func) or "").endswith("cholesky_ex"):
            t = n.ast.targets[0]
            if isinstance(t, (ast.Tuple, ast.List)) and len(t.elts) == 2 and all(isinstance(e, ast.Name) for e in t.elts):
                n.fac, n.info = t.elts[0].id, t.elts[1].id  # type: ignore
                binds.append(n)
    if not binds:
        raise AnalysisError("no `factor, info = torch.linalg.cholesky_ex(...)` binding found")
    fac_names = {b.fac for b in binds}  # type: ignore
    info_names = {b.info for b in binds}  # type: ignore
    all_info_names = info_names

    rep.rule("C16.I", "a factor escapes only after its own info codes were tested all-zero", floor=2)

    def success_polarity(test: ast.AST, info_names=None) -> Optional[Tuple[bool, bool]]:
        """(polarity of the branch meaning 'all info zero', via_trace_mode_escape) for a test on info."""
        info_names = all_info_names if info_names is None else info_names
        txt = norm(test)
        if not any(i in [x.id for x in ast.walk(test) if isinstance(x, ast.Name)] for i in info_names):
            return None
        escape = "trace_mode" in txt
        core = test
        if isinstance(core, ast.BoolOp) and isinstance(core.op, ast.Or):
            # settings.trace_mode.on() or not torch.any(info)
            parts = [v for v in core.values if any(isinstance(x, ast.Name) and x.id in info_names for x in ast.walk(v))]
            if len(parts) != 1:
                return None
            core = parts[0]
        neg = False
        while isinstance(core, ast.UnaryOp) and isinstance(core.op, ast.Not):
            neg = not neg
            core = core.operand
        if isinstance(core, ast.Call):
            d = dotted(core.func) or ""
            leaf = d.split(".")[-1] if d else (core.func.attr if isinstance(core.func, ast.Attribute) else "")
            if leaf == "any":  # any(info) true => failure
                return (True if neg else False, escape)
            if leaf == "all":  # all(info == 0) true => success
                return (False if neg else True, escape)
        if isinstance(core, ast.Compare):
            # (info == 0).all() handled above through Call; plain `info.sum() == 0`
            if isinstance(core.ops[0], ast.Eq):
                return (False if neg else True, escape)
            if isinstance(core.ops[0], (ast.NotEq, ast.Gt)):
                return (True if neg else False, escape)
        return None

    returns = [n for n in cfg.stmt_nodes() if n.kind == "stmt" and isinstance(n.ast, ast.Return)]
    from ..conds import alternatives as _alts

    def flag_def(name: str) -> Optional[ast.AST]:
        """the single boolean expression a flag was assigned (ok = not torch.any(info)), else None"""
        if name in info_names or name in fac_names:
            return None
        defs = [n.ast.value for n in cfg.stmt_nodes() if n.kind == "stmt" and isinstance(n.ast, ast.Assign) and len(n.ast.targets) == 1
                and isinstance(n.ast.targets[0], ast.Name) and n.ast.targets[0].id == name]
        if len(defs) == 1 and isinstance(defs[0], (ast.BoolOp, ast.UnaryOp, ast.Compare, ast.Call)):
            return defs[0]
        return None

    def literal_kind(lit, cur_info=None) -> Optional[str]:
        """'success' (this literal says: all info codes - of the factorization whose info is held by the names `cur_info` - are
        zero), 'escape' (trace mode is on), or None"""
        e, pol = lit
        sp = success_polarity(e, cur_info)
        if sp is not None and not isinstance(e, ast.BoolOp):
            return "success" if pol == sp[0] else "failure"
        txt = norm(e)
        if "trace_mode" in txt and not any(isinstance(x, ast.Name) and x.id in info_names for x in ast.walk(e)):
            if txt.endswith(".on()"):
                return "escape" if pol else None
            if txt.endswith(".off()"):
                return "escape" if not pol else None
        return None

    # path-based: on every acyclic path to a return of a factor, after the LAST cholesky_ex binding on that path some test
    # guarantees - whichever of its disjuncts made it take that branch - that the info codes are all zero, or (for the first
    # factorization only) that trace mode is on.  Dominance is not needed: one `return L` may be shared by several exits.
    for r in returns:
        v = r.ast.value
        ret_names = {x.id for x in (ast.walk(v) if v is not None else []) if isinstance(x, ast.Name)}
        # names re-bound from a factor keep being that factor (L = L.mT)
        derived = set(fac_names)
        for n in cfg.stmt_nodes():
            if n.kind == "stmt" and isinstance(n.ast, ast.Assign) and len(n.ast.targets) == 1 and isinstance(n.ast.targets[0], ast.Name) \
                    and any(isinstance(x, ast.Name) and x.id in derived for x in ast.walk(n.ast.value)) and n not in binds:
                derived.add(n.ast.targets[0].id)
        if not (ret_names & derived):
            rep.bad("C16.I", Finding(PROP, "C16.I", fname(helper), norm(r.ast),
                                     "the helper returns something that is not a factor bound from cholesky_ex",
                                     helper.loc(r.ast)))
            continue
        n_paths = 0
        bad_path = None
        via = set()
        bind_ids = {b.id: b for b in binds}
        first_bind_id = min(bind_ids) if bind_ids else None
        for path in cfg.acyclic_paths(target=r.id, limit=4000):
            n_paths += 1
            last = max((k for k, nid in enumerate(path) if nid in bind_ids), default=None)
            if last is None:
                bad_path = ("no factorization on the path", path)
                break
            gen = bind_ids[path[last]]
            ok_kind = None
            conds_txt = []
            cur_info = {gen.info}  # the names that hold the info codes of THIS factorization (a stale `info` of an earlier
            # factorization says nothing about the factor that is returned)
            for a_, b_ in zip(path[last:], path[last + 1:]):
                nd = cfg.nodes[a_]
                pol = cfg.g[a_][b_].get("pol")
                if nd.kind == "stmt" and isinstance(nd.ast, ast.Assign) and a_ != path[last]:
                    reads_info = any(isinstance(x, ast.Name) and x.id in cur_info for x in ast.walk(nd.ast.value))
                    for t_ in nd.ast.targets:
                        for x in ast.walk(t_):
                            if isinstance(x, ast.Name) and isinstance(x.ctx, ast.Store):
                                if reads_info:
                                    cur_info.add(x.id)
                                else:
                                    cur_info.discard(x.id)
                if nd.kind != "test" or pol is None:
                    continue
                conds_txt.append(("" if pol else "not ") + nd.label[:50])
                alts = _alts(nd.ast, pol, flag_def)
                kinds = []
                for alt in alts:
                    ks = {literal_kind(l, cur_info) for l in alt}
                    kinds.append("success" if "success" in ks else ("escape" if "escape" in ks else None))
                if alts and all(k is not None for k in kinds):
                    if "escape" in kinds and gen.id != first_bind_id:
                        continue  # the trace-mode escape is documented for the first factorization only
                    ok_kind = "escape+success" if "escape" in kinds else "success"
                    break
            if ok_kind is None:
                bad_path = ("; ".join(conds_txt) or "no test after the factorization", path)
                break
            via.add(ok_kind)
        sample = {"return": norm(r.ast), "paths": n_paths, "justified_by": sorted(via)}
        if bad_path is not None:
            rep.bad("C16.I", Finding(PROP, "C16.I", fname(helper), norm(r.ast),
                                     f"`{norm(r.ast)}` is reached on a path on which the info codes of the LAST factorization were not "
                                     f"tested all-zero ({bad_path[0]}): a factor of a failed factorization (containing NaN) may be "
                                     "returned", helper.loc(r.ast)), sample)
        elif n_paths:
            rep.ok("C16.I", sample)
            for _ in range(n_paths - 1):
                rep.count("C16.I")
    if not returns:
        rep.error(f"no return statement in {fname(helper)}")

    # ---------------------------------------------------------------- F
    rep.rule("C16.F", "failure is loud: NotPSDError after the retries, NanError before them, a warning per perturbation", floor=3)
    loops = [n for n in cfg.nodes.values() if n.kind == "iter" or (n.kind == "test" and isinstance(getattr(n, "stmt", None), ast.While))]
    if not loops:
        raise AnalysisError("retry loop not found in the cholesky helper")
    loop = loops[0]
    # (a) from the loop's exhaustion edge no normal exit is reachable
    exhausted = [s for s in cfg.g.successors(loop.id) if cfg.g[loop.id][s].get("pol") is False]
    ok_a = True
    for s in exhausted:
        if s == cfg.exit or nx.has_path(cfg.g, s, cfg.exit):
            ok_a = False
    raise_nodes = [n for n in cfg.stmt_nodes() if n.kind == "stmt" and isinstance(n.ast, ast.Raise)]
    notpsd = [n for n in raise_nodes if "NotPSDError" in n.label]
    if ok_a and exhausted and notpsd and all(nx.has_path(cfg.g, s, notpsd[0].id) or s == notpsd[0].id for s in exhausted):
        rep.ok("C16.F", {"after_retries": "raise NotPSDError", "normal_exit_reachable": False})
    else:
        rep.bad("C16.F", Finding(PROP, "C16.F", fname(helper), "exit of the retry loop",
                                 "after the last failed try the function can reach a normal return (or does not raise "
                                 "NotPSDError): a failed factorization is not reported", helper.loc(loop.ast)))
    # (b) NaN screen dominates the loop
    nan_raise = [n for n in raise_nodes if "NanError" in n.label]
    ok_b = False
    for n in nan_raise:
        tests = [d for d in cfg.dominators(n.id) if cfg.nodes[d].kind == "test"]
        if tests and tests[0] in cfg.dominators(loop.id):
            deps = full_deps(helper)
            tnames = {x.id for x in ast.walk(cfg.nodes[tests[0]].ast) if isinstance(x, ast.Name)}
            src = set()
            for t in tnames:
                src |= deps.get(t, set()) | {t}
            if any("isnan" in norm(v) for nm in tnames for v in [a.value for a in ast.walk(helper.node)
                                                                  if isinstance(a, ast.Assign) and any(
                    isinstance(tt, ast.Name) and tt.id == nm for tt in a.targets)]) or "isnan" in cfg.nodes[tests[0]].label:
                ok_b = True
    if ok_b:
        rep.ok("C16.F", {"nan_screen": "raise NanError dominated by an isnan test that dominates the retry loop"})
    else:
        rep.bad("C16.F", Finding(PROP, "C16.F", fname(helper), "NaN screen",
                                 "no `raise NanError` guarded by an isnan test dominates the retry loop: a matrix "
                                 "containing NaN is jittered and reported as not positive definite (or returned)",
                                 helper.loc()))
    # (c) every diagonal update is followed by a NumericalWarning before the next factorization / exit
    updates = []
    # names bound to a diagonal VIEW (Aprime_diag = Aprime.diagonal(dim1=-1, dim2=-2)) count as the diagonal
    diag_views = {n.ast.targets[0].id for n in cfg.stmt_nodes() if n.kind == "stmt" and isinstance(n.ast, ast.Assign)
                  and len(n.ast.targets) == 1 and isinstance(n.ast.targets[0], ast.Name)
                  and isinstance(n.ast.value, ast.Call) and isinstance(n.ast.value.func, ast.Attribute)
                  and n.ast.value.func.attr == "diagonal"}

    def is_diag(e: ast.AST) -> bool:
        return "diagonal" in norm(e) or (isinstance(e, ast.Name) and e.id in diag_views)

    for n in cfg.stmt_nodes():
        if n.kind != "stmt":
            continue
        for x in ast.walk(n.ast):
            if isinstance(x, ast.Call) and isinstance(x.func, ast.Attribute) and x.func.attr in ("add_", "addcmul_", "sub_") \
                    and is_diag(x.func.value):
                updates.append((n, x))
            # out-of-place form: Aprime = torch.diagonal_scatter(Aprime, Aprime.diagonal(...) + diag_add, ...)
            if isinstance(x, ast.Call) and ((dotted(x.func) or "").split(".")[-1] == "diagonal_scatter"
                                            or (isinstance(x.func, ast.Attribute) and x.func.attr == "diagonal_scatter")):
                updates.append((n, x))
        if isinstance(n.ast, ast.AugAssign) and is_diag(n.ast.target):
            updates.append((n, n.ast))
    warn_nodes = {n.id for n in cfg.stmt_nodes() if n.kind == "stmt" and any(
        isinstance(x, ast.Call) and (dotted(x.func) or "").endswith("warn") and "NumericalWarning" in norm(x)
        for x in ast.walk(n.ast))}
    if not updates:
        rep.error("no update of the working matrix's diagonal found in the retry loop (anchor vanished)")
    for n, x in updates:
        h = cfg.g.copy()
        for w in warn_nodes:
            if w in h and w != n.id:
                h.remove_node(w)
        targets = [b.id for b in binds if b.id in h] + [cfg.exit, cfg.raise_exit]
        silent = n.id not in warn_nodes and any(t in h and nx.has_path(h, n.id, t) for t in targets)
        if silent:
            rep.bad("C16.F", Finding(PROP, "C16.F", fname(helper), norm(x),
                                     "the diagonal is perturbed on a path on which no NumericalWarning is emitted before "
                                     "the next factorization", helper.loc(x)))
        else:
            rep.ok("C16.F", {"update": short(x, 70), "followed_by": "warnings.warn(..., NumericalWarning)"})

    # ---------------------------------------------------------------- T
    # "adds jitter * 10^i, i < max_tries": the retry loop makes exactly max_tries perturbed attempts and the exponent of
    # the k-th attempt is k.  Decided by linear integer arithmetic on the range() arguments and on the exponent of 10 -
    # no value is computed.  Shapes the evaluator does not understand (while loops, a running product) are noted, not judged.
    rep.rule("C16.T", "the retry loop makes max_tries perturbed attempts with exponents 0, 1, 2, ...", floor=1)

    def lin(e: ast.AST, var: Optional[str] = None):
        """(coefficient of max_tries, coefficient of the loop variable, constant) or None."""
        if isinstance(e, ast.Constant) and isinstance(e.value, int) and not isinstance(e.value, bool):
            return (0, 0, e.value)
        if isinstance(e, ast.Name):
            if e.id == "max_tries":
                return (1, 0, 0)
            if var is not None and e.id == var:
                return (0, 1, 0)
            return None
        if isinstance(e, ast.UnaryOp) and isinstance(e.op, ast.USub):
            v = lin(e.operand, var)
            return None if v is None else tuple(-x for x in v)
        if isinstance(e, ast.BinOp) and isinstance(e.op, (ast.Add, ast.Sub)):
            l_, r_ = lin(e.left, var), lin(e.right, var)
            if l_ is None or r_ is None:
                return None
            sg = 1 if isinstance(e.op, ast.Add) else -1
            return tuple(x + sg * y for x, y in zip(l_, r_))
        return None

    for_loops = [n for n in loops if n.kind == "iter" and isinstance(n.ast, ast.For)]
    judged = False
    for lp in for_loops[:1]:
        it = lp.ast.iter
        if not (isinstance(it, ast.Call) and isinstance(it.func, ast.Name) and it.func.id == "range" and 1 <= len(it.args) <= 2
                and isinstance(lp.ast.target, ast.Name)):
            continue
        start = lin(it.args[0]) if len(it.args) == 2 else (0, 0, 0)
        stop = lin(it.args[-1])
        if start is None or stop is None:
            continue
        judged = True
        trips = tuple(b_ - a_ for a_, b_ in zip(start, stop))
        sample = {"function": fname(helper), "loop": norm(it), "trip_count": f"{trips[0]}*max_tries + {trips[2]}"}
        if trips == (1, 0, 0):
            rep.ok("C16.T", sample)
        else:
            rep.bad("C16.T", Finding(PROP, "C16.T", fname(helper), f"retry loop over {norm(it)}",
                                     f"the retry loop runs {trips[0]}*max_tries{trips[2]:+d} times, not max_tries times: the largest jitter "
                                     "level jitter*10^(max_tries-1) is never tried (or one level too many is), so a matrix that the last "
                                     "level would rescue raises NotPSDError", helper.loc(lp.ast)), sample)
        var = lp.ast.target.id
        for x in ast.walk(lp.ast):
            if isinstance(x, ast.BinOp) and isinstance(x.op, ast.Pow) and isinstance(x.left, ast.Constant) and x.left.value == 10:
                ex = lin(x.right, var)
                if ex is None:
                    continue
                # exponent at the first trip (loop variable = start) must be 0 and grow by one per trip
                first = (ex[0] + ex[1] * start[0], ex[2] + ex[1] * start[2])
                sample2 = {"function": fname(helper), "exponent": norm(x.right), "at_first_trip": f"{first[0]}*max_tries + {first[1]}",
                           "per_trip": ex[1]}
                if first == (0, 0) and ex[1] == 1:
                    rep.ok("C16.T", sample2)
                else:
                    rep.bad("C16.T", Finding(PROP, "C16.T", fname(helper), f"jitter exponent {norm(x.right)}",
                                             f"the k-th retry adds jitter * 10**({norm(x.right)}), which is not jitter * 10**k for "
                                             f"k = 0, 1, ... with the loop over {norm(it)}", helper.loc(x)), sample2)
    if not judged:
        rep.note("C16.T: the retry loop is not a for-loop over range() of linear bounds; trip count not judged")
        rep.count("C16.T")

    # ---------------------------------------------------------------- D
    rep.rule("C16.D", "the perturbation depends on info, is incremental, and defaults come from the per-dtype settings", floor=4)
    deps = full_deps(helper)
    for n, x in updates:
        addend_reads: Set[str] = set()
        args = list(getattr(x, "args", [])) + [k.value for k in getattr(x, "keywords", [])] if isinstance(x, ast.Call) else [x.value]
        for a in args:
            for y in ast.walk(a):
                if isinstance(y, ast.Name):
                    addend_reads |= {y.id} | deps.get(y.id, set())
        per_member = bool(addend_reads & info_names)
        # ... and on the generation of info produced by the LATEST factorization: info is re-bound inside the retry loop,
        # so the chain addend -> info must run through definitions that are re-evaluated inside the loop
        in_loop_defs: Dict[str, Set[str]] = {}
        for st in ast.walk(loop.ast):
            if isinstance(st, ast.Assign):
                rd = {y.id for y in ast.walk(st.value) if isinstance(y, ast.Name)}
                for t in st.targets:
                    for y in ast.walk(t):
                        if isinstance(y, ast.Name):
                            in_loop_defs.setdefault(y.id, set()).update(rd)
        info_rebound_in_loop = any(i in in_loop_defs for i in info_names)
        direct = set()
        for a in args:
            direct |= {y.id for y in ast.walk(a) if isinstance(y, ast.Name)}
        fresh, work, seen_n = False, list(direct), set()
        while work:
            nm = work.pop()
            if nm in seen_n:
                continue
            seen_n.add(nm)
            if nm in info_names:
                fresh = True
                break
            if nm in in_loop_defs:
                work += list(in_loop_defs[nm])
        sample = {"update": short(x, 70), "addend_depends_on": sorted(a for a in addend_reads if "." not in a)[:12]}
        if per_member and (fresh or not info_rebound_in_loop):
            rep.ok("C16.D", {**sample, "per_batch_member": True, "info_generation": "current (re-evaluated inside the retry loop)"})
        elif per_member:
            rep.bad("C16.D", Finding(PROP, "C16.D", fname(helper), norm(x) + " [stale info]",
                                     "the addend depends on the info codes only through a value computed BEFORE the retry loop, "
                                     "while info is re-bound by every retry: members that a smaller jitter already fixed keep "
                                     "being perturbed with the larger jitters (per-member jitter is lost after the first try)",
                                     helper.loc(x)))
        else:
            rep.bad("C16.D", Finding(PROP, "C16.D", fname(helper), norm(x) + " [info]",
                                     "the addend of the diagonal update does not depend on the info codes: members of the "
                                     "batch that factorized fine are perturbed too", helper.loc(x)))
        # incremental: the slice contains a difference  new - prev  where prev is re-assigned from new inside the loop
        incremental = False
        slice_names = addend_reads
        for y in walk_body(helper):
            if isinstance(y, ast.BinOp) and isinstance(y.op, ast.Sub) and isinstance(y.left, ast.Name) and isinstance(y.right, ast.Name):
                if y.left.id in slice_names and y.right.id in slice_names:
                    for z in walk_body(helper):
                        if (isinstance(z, ast.Assign) and len(z.targets) == 1 and isinstance(z.targets[0], ast.Name)
                                and z.targets[0].id == y.right.id and isinstance(z.value, ast.Name) and z.value.id == y.left.id):
                            incremental = True
        if incremental:
            rep.ok("C16.D", {**sample, "incremental": "new - previous jitter, previous := new after the update"})
        else:
            rep.bad("C16.D", Finding(PROP, "C16.D", fname(helper), norm(x) + " [incremental]",
                                     "the addend is not the difference between the new and the previous jitter (with the "
                                     "previous one updated each try): jitter accumulates beyond jitter * 10**i",
                                     helper.loc(x)))
    jd = deps.get("jitter", set())
    if any("cholesky_jitter" in d for d in jd) and any(d.endswith(".dtype") or d == "A" for d in jd):
        rep.ok("C16.D", {"default_jitter_depends_on": sorted(d for d in jd if "cholesky_jitter" in d or d.endswith("dtype"))})
    else:
        rep.bad("C16.D", Finding(PROP, "C16.D", fname(helper), "default jitter",
                                 "the default jitter does not come from settings.cholesky_jitter indexed by A.dtype",
                                 helper.loc()))
    md = deps.get("max_tries", set())
    if any("cholesky_max_tries" in d for d in md):
        rep.ok("C16.D", {"default_max_tries_depends_on": sorted(d for d in md if "max_tries" in d)})
    else:
        rep.bad("C16.D", Finding(PROP, "C16.D", fname(helper), "default max_tries",
                                 "the default number of tries does not come from settings.cholesky_max_tries", helper.loc()))
    # "jitter and max_tries given explicitly": an explicit value - also a falsy one, jitter=0.0 - must be honoured, i.e. the
    # settings default is installed under a test for None, not under a truthiness test (`x = x or default`, `if not x:`)
    for pname in ("jitter", "max_tries"):
        if pname not in helper.params():
            continue
        for n in walk_body(helper):
            bad_form = None
            if isinstance(n, ast.Assign) and any(isinstance(t, ast.Name) and t.id == pname for t in n.targets):
                v = n.value
                if isinstance(v, ast.BoolOp) and isinstance(v.op, ast.Or) and isinstance(v.values[0], ast.Name) and v.values[0].id == pname:
                    bad_form = norm(n)
                if isinstance(v, ast.IfExp) and isinstance(v.test, ast.Name) and v.test.id == pname:
                    bad_form = norm(n)
                if isinstance(v, ast.IfExp) and isinstance(v.test, ast.UnaryOp) and isinstance(v.test.op, ast.Not) \
                        and isinstance(v.test.operand, ast.Name) and v.test.operand.id == pname:
                    bad_form = norm(n)
            if isinstance(n, ast.If) and ((isinstance(n.test, ast.UnaryOp) and isinstance(n.test.op, ast.Not) and isinstance(n.test.operand, ast.Name)
                                           and n.test.operand.id == pname)) and any(
                    isinstance(x, ast.Assign) and any(isinstance(t, ast.Name) and t.id == pname for t in x.targets) for st_ in n.body for x in ast.walk(st_)):
                bad_form = "if " + norm(n.test) + ": ..."
            if bad_form:
                rep.bad("C16.D", Finding(PROP, "C16.D", fname(helper), f"default of {pname} installed on falsiness",
                                         f"`{bad_form[:80]}` replaces every FALSY {pname} by the settings default: an explicit "
                                         f"{pname}=0 is ignored (jitter=0.0 must mean: no perturbation, fail loudly)", helper.loc(n)))
    # the loop bound depends on max_tries
    if isinstance(loop.ast, ast.For) and "max_tries" in ({x.id for x in ast.walk(loop.ast.iter) if isinstance(x, ast.Name)}):
        rep.ok("C16.D", {"retry_loop_bound": norm(loop.ast.iter)})
    else:
        rep.bad("C16.D", Finding(PROP, "C16.D", fname(helper), "retry loop bound", "the retry loop is not bounded by max_tries",
                                 helper.loc(loop.ast)))

    # ---------------------------------------------------------------- U
    rep.rule("C16.U", "the factor returned for upper=True is the upper one, for upper=False the lower one", floor=2)
    pcfg = CFG(pub)

    def chol_orientations(fn: FunctionInfo, upper_value: Optional[bool]) -> Set[object]:
        """Orientation (True = upper) of every factor bound from cholesky_ex / cholesky in fn, the function's own
        `upper` parameter having the given value (None: the function has no such parameter)."""
        out: Set[object] = set()
        for x in walk_body(fn):
            if isinstance(x, ast.Call) and (dotted(x.func) or "").split(".")[-1] in ("cholesky_ex", "cholesky"):
                kw = next((k.value for k in x.keywords if k.arg == "upper"), None)
                if kw is None:
                    out.add(False)
                elif isinstance(kw, ast.Constant):
                    out.add(bool(kw.value))
                elif isinstance(kw, ast.Name) and kw.id == "upper" and upper_value is not None:
                    out.add(upper_value)
                else:
                    out.add("?")
        return out

    def flips_on(path: List[int]) -> int:
        k = 0
        for nid in path:
            nd = pcfg.nodes[nid]
            if nd.kind != "stmt" or nd.ast is None:
                continue
            for x in ast.walk(nd.ast):
                if isinstance(x, ast.Attribute) and x.attr in ("mT", "T") and isinstance(x.ctx, ast.Load):
                    k += 1
                if isinstance(x, ast.Call) and isinstance(x.func, ast.Attribute) and x.func.attr in (
                        "transpose", "transpose_", "_transpose_nonbatch", "t") :
                    k += 1
        return k

    def base_orientations(path: List[int], want: bool) -> Set[object]:
        """Orientation of the factor before the transpositions of the path: from the helper call on the path (with the
        value of `upper` it is given) or from a direct cholesky call in psd_safe_cholesky itself."""
        out: Set[object] = set()
        for nid in path:
            nd = pcfg.nodes[nid]
            if nd.kind != "stmt" or nd.ast is None:
                continue
            for x in ast.walk(nd.ast):
                if isinstance(x, ast.Call) and isinstance(x.func, ast.Name) and helper is not pub and x.func.id == helper.name:
                    hv: Optional[bool] = None
                    if "upper" in helper.params():
                        kw = next((k.value for k in x.keywords if k.arg == "upper"), None)
                        pos = helper.params().index("upper")
                        if kw is None and pos < len(x.args):
                            kw = x.args[pos]
                        if kw is None:
                            dv = helper.defaults().get("upper")
                            hv = bool(dv.value) if isinstance(dv, ast.Constant) else False
                        elif isinstance(kw, ast.Constant):
                            hv = bool(kw.value)
                        elif isinstance(kw, ast.Name) and kw.id == "upper":
                            hv = want
                        else:
                            return {"?"}
                    out |= chol_orientations(helper, hv)
                elif isinstance(x, ast.Call) and (dotted(x.func) or "").split(".")[-1] in ("cholesky_ex", "cholesky"):
                    out |= chol_orientations(pub, want)
        return out

    for want in (True, False):
        def feasible(pth: List[int], want=want) -> bool:
            """The tests of the path can hold together when `upper` has the requested truth value (the public function never
            rebinds its flag / output parameters; compound and table-driven tests are decided through their literals)."""
            from ..conds import consistent
            from ..deps import reads

            tests = []
            for a, b in zip(pth, pth[1:]):
                na = pcfg.nodes[a]
                pol = pcfg.g[a][b].get("pol")
                if na.kind == "test" and pol is not None and na.ast is not None and not (reads(na.ast) & rebound):
                    tests.append((na.ast, pol))
            return consistent(tests, {"upper": want})

        rebound = {t.id for n in walk_body(pub) if isinstance(n, (ast.Assign, ast.AugAssign)) for tt in (
            n.targets if isinstance(n, ast.Assign) else [n.target]) for t in ast.walk(tt) if isinstance(t, ast.Name)}
        paths = [p_ for p_ in pcfg.acyclic_paths(limit=2000) if feasible(p_)]
        finals: Set[object] = set()
        for pth in paths:
            par = flips_on(pth) % 2 == 1
            for b0 in (base_orientations(pth, want) or {"none"}):
                finals.add(b0 if b0 in ("?", "none") else (b0 != par))
        sample = {"upper": want, "paths": len(paths), "orientation_of_returned_factor": sorted(str(f) for f in finals)}
        if "?" in finals or "none" in finals:
            rep.error(f"psd_safe_cholesky(upper={want}): orientation of the factor could not be determined ({sorted(map(str, finals))})")
        elif finals == {want}:
            rep.ok("C16.U", sample)
        else:
            rep.bad("C16.U", Finding(PROP, "C16.U", fname(pub), f"upper={want}: returned orientation {sorted(map(str, finals))}",
                                     f"psd_safe_cholesky(upper={want}) can return a factor whose orientation is "
                                     f"{['lower' if f is False else 'upper' for f in sorted(finals, key=str)]} (factorization "
                                     "sites x transpositions on the path): the retry path and the first attempt must agree with "
                                     "the request", pub.loc()), sample)
    if "upper" not in pub.params():
        rep.error("psd_safe_cholesky no longer takes `upper`")

    if selftest:
        from ..selftest import run_fixtures

        run_fixtures(rep, PROP)
