"""C16 - psd_safe_cholesky perturbs minimally, per batch member, or fails loudly (structural clauses).

    W  the input ``A`` is never written (ownership analysis E1; ``out`` is the explicit buffer)
    I  info-gated escape: a factor bound by ``L, info = cholesky_ex(...)`` reaches a ``return`` only on a path on which
       THAT generation of ``info`` was tested all-zero (the documented ``settings.trace_mode`` escape is the one exception)
    F  loud failure: leaving the retry loop without success reaches ``raise NotPSDError`` (no normal exit); the NaN
       screen (``raise NanError``) dominates the loop; every diagonal update is followed by a ``NumericalWarning``
    D  dependence: the addend of the diagonal update depends on ``info`` (per batch member) and on the difference
       between the new and the previous jitter (incremental); the default jitter depends on ``A.dtype`` through
       ``settings.cholesky_jitter``, the default number of tries on ``settings.cholesky_max_tries``
    U  ``upper`` is honoured: with upper the returned factor (or the explicit out buffer that holds it) is transposed,
       without it nothing is
"""
from __future__ import annotations

import ast
from typing import Dict, List, Optional, Set, Tuple

import networkx as nx

from ..cfg import CFG, Node
from ..ctor import _local_deps, expr_deps
from ..index import AnalysisError, FunctionInfo, ProgramIndex, dotted, norm, short, walk_body
from ..own import Engine
from ..report import Finding, Report

PROP = "C16"
MOD = "linear_operator.utils.cholesky"


def fname(fn: FunctionInfo) -> str:
    return fn.qualname.replace("linear_operator.", "", 1)


def full_deps(fn: FunctionInfo) -> Dict[str, Set[str]]:
    """name -> names / dotted attribute reads it transitively depends on (flow-insensitive; in-place methods and
    augmented assignments count as definitions of their target)."""
    direct: Dict[str, Set[str]] = {}

    def reads(e: ast.AST) -> Set[str]:
        out: Set[str] = set()
        for x in ast.walk(e):
            if isinstance(x, ast.Name):
                out.add(x.id)
            elif isinstance(x, ast.Attribute):
                d = dotted(x)
                if d:
                    out.add(d)
        return out

    def targets(t: ast.AST) -> List[str]:
        return [x.id for x in ast.walk(t) if isinstance(x, ast.Name)]

    for n in walk_body(fn):
        if isinstance(n, ast.Assign):
            for t in n.targets:
                for nm in targets(t):
                    direct.setdefault(nm, set()).update(reads(n.value))
        elif isinstance(n, ast.AugAssign):
            for nm in targets(n.target):
                direct.setdefault(nm, set()).update(reads(n.value) | {nm})
        elif isinstance(n, ast.For):
            for nm in targets(n.target):
                direct.setdefault(nm, set()).update(reads(n.iter))
        elif isinstance(n, ast.Call) and isinstance(n.func, ast.Attribute) and n.func.attr.endswith("_") \
                and not n.func.attr.startswith("_"):
            base = n.func.value
            while isinstance(base, (ast.Attribute, ast.Call, ast.Subscript)):
                base = base.func.value if isinstance(base, ast.Call) and isinstance(base.func, ast.Attribute) else (
                    base.value if not isinstance(base, ast.Call) else None)
                if base is None:
                    break
            if isinstance(base, ast.Name):
                for a in list(n.args) + [k.value for k in n.keywords]:
                    direct.setdefault(base.id, set()).update(reads(a))
    # control dependence on `if X is None:` defaults:  if jitter is None: jitter = settings...(A.dtype)
    closed: Dict[str, Set[str]] = {k: set(v) for k, v in direct.items()}
    changed = True
    while changed:
        changed = False
        for k, v in closed.items():
            add = set()
            for d in list(v):
                if d in closed and d != k:
                    add |= closed[d]
            if not add <= v:
                v |= add
                changed = True
    return closed


def _inside_loop(cfg: CFG, nid: int) -> bool:
    return any(cfg.nodes[d].kind == "iter" or (cfg.nodes[d].kind == "test" and isinstance(getattr(cfg.nodes[d], "stmt", None), ast.While))
               for d in cfg.dominators(nid))


def run(idx: ProgramIndex, rep: Report, tier: str, selftest: bool = True):
    rep.extra["explanation"] = (
        "Typestate, must-pass-through and dependence rules over the statement-level CFG of "
        "linear_operator/utils/cholesky.py (psd_safe_cholesky and its retry helper), plus the ownership analysis for "
        "input immutability. They decide, for all inputs, batch shapes and dtypes at once, the control skeleton the "
        "property describes: a factor escapes only after ITS OWN info codes were tested all-zero; exhausting the tries "
        "cannot fall through to a normal return; the NaN screen precedes the retries; every perturbation is announced "
        "by a NumericalWarning; the addend is masked by info (per batch member) and incremental; defaults come from "
        "the per-dtype setting; upper transposes exactly on request. NOT decided: that the returned factor is the "
        "exact Cholesky factor of the perturbed matrix, the 10**i arithmetic."
    )
    rep.assumptions += [
        "torch.linalg.cholesky_ex returns (factor, info) with info == 0 exactly for the batch members that succeeded",
        "assumptions A1-A4 of the ownership analysis (see C13)",
    ]
    m = idx.modules.get(MOD)
    if m is None:
        raise AnalysisError(f"{MOD} not found")
    pub = m.functions.get("psd_safe_cholesky")
    if pub is None:
        raise AnalysisError("psd_safe_cholesky not found")
    # the retry helper: the module function that calls cholesky_ex
    helper = None
    for f in m.functions.values():
        if any(isinstance(n, ast.Call) and (dotted(n.func) or "").endswith("cholesky_ex") for n in walk_body(f)):
            helper = f
    if helper is None:
        raise AnalysisError("no function of utils/cholesky.py calls torch.linalg.cholesky_ex (anchor vanished)")
    # same-module helpers that the retry routine calls (a NaN screen, the masked diagonal update ...) are inlined, so that
    # extracting or re-inlining them does not change a verdict; psd_safe_cholesky itself keeps its call of the routine
    from ..inline import inline_helpers

    helper0 = helper
    helper, inlined = inline_helpers(idx, helper0)
    if pub is not helper0:
        pub, inl2 = inline_helpers(idx, pub, only={f.name for f in m.functions.values() if f is not helper0 and f is not pub})
        inlined += inl2
    rep.analysed["inlined_helpers"] = inlined
    rep.analysed["functions"] = [fname(pub), fname(helper)]

    # ---------------------------------------------------------------- W
    rep.rule("C16.W", "the input matrix A is never written", floor=2)
    eng = Engine(idx)
    eng.changed_set = set()
    eng.deps = {}
    for f in (helper, pub, helper, pub):
        eng.analyse(f)
    n_sites = 0
    for f in (helper, pub):
        for n in walk_body(f):
            if isinstance(n, ast.Call) and isinstance(n.func, ast.Attribute) and n.func.attr.endswith("_") and not n.func.attr.startswith("_"):
                n_sites += 1
            if isinstance(n, ast.Call) and any(k.arg == "out" for k in n.keywords):
                n_sites += 1
    flagged = [s for f in (helper, pub) for s in eng.sinks.get(f.qualname, [])]
    for s in flagged:
        rep.bad("C16.W", Finding(PROP, "C16.W", fname(s.fn), f"{s.what} on {s.target_text}",
                                 f"in-place write `{short(s.node, 80)}` may modify the caller's matrix (provenance: "
                                 f"{sorted(str(o[0][2]) if o[0][0] == 'P' else o[0][0] for o in s.target.prov)})",
                                 s.fn.loc(s.node)))
    for _ in range(max(n_sites - len(flagged), 0)):
        rep.count("C16.W")
    if n_sites < 2:
        rep.error("no in-place site found in utils/cholesky.py: the routine no longer perturbs in place (anchor vanished)")

    # ---------------------------------------------------------------- I, F on the helper's CFG
    cfg = CFG(helper)
    binds: List[Node] = []  # nodes binding (factor, info) from cholesky_ex
    for n in cfg.stmt_nodes():
        if n.kind == "stmt" and isinstance(n.ast, ast.Assign) and isinstance(n.ast.value, ast.Call) and (
                dotted(n.ast.value.func) or "").endswith("cholesky_ex"):
            t = n.ast.targets[0]
            if isinstance(t, (ast.Tuple, ast.List)) and len(t.elts) == 2 and all(isinstance(e, ast.Name) for e in t.elts):
                n.fac, n.info = t.elts[0].id, t.elts[1].id  # type: ignore
                binds.append(n)
    if not binds:
        raise AnalysisError("no `factor, info = torch.linalg.cholesky_ex(...)` binding found")
    fac_names = {b.fac for b in binds}  # type: ignore
    info_names = {b.info for b in binds}  # type: ignore

    rep.rule("C16.I", "a factor escapes only after its own info codes were tested all-zero", floor=2)

    def success_polarity(test: ast.AST) -> Optional[Tuple[bool, bool]]:
        """(polarity of the branch meaning 'all info zero', via_trace_mode_escape) for a test on info."""
        txt = norm(test)
        if not any(i in [x.id for x in ast.walk(test) if isinstance(x, ast.Name)] for i in info_names):
            return None
        escape = "trace_mode" in txt
        core = test
        if isinstance(core, ast.BoolOp) and isinstance(core.op, ast.Or):
            # settings.trace_mode.on() or not torch.any(info)
            parts = [v for v in core.values if any(isinstance(x, ast.Name) and x.id in info_names for x in ast.walk(v))]
            if len(parts) != 1:
                return None
            core = parts[0]
        neg = False
        while isinstance(core, ast.UnaryOp) and isinstance(core.op, ast.Not):
            neg = not neg
            core = core.operand
        if isinstance(core, ast.Call):
            d = dotted(core.func) or ""
            leaf = d.split(".")[-1] if d else (core.func.attr if isinstance(core.func, ast.Attribute) else "")
            if leaf == "any":  # any(info) true => failure
                return (True if neg else False, escape)
            if leaf == "all":  # all(info == 0) true => success
                return (False if neg else True, escape)
        if isinstance(core, ast.Compare):
            # (info == 0).all() handled above through Call; plain `info.sum() == 0`
            if isinstance(core.ops[0], ast.Eq):
                return (False if neg else True, escape)
            if isinstance(core.ops[0], (ast.NotEq, ast.Gt)):
                return (True if neg else False, escape)
        return None

    returns = [n for n in cfg.stmt_nodes() if n.kind == "stmt" and isinstance(n.ast, ast.Return)]
    for r in returns:
        v = r.ast.value
        names = {x for x in (ast.walk(v) if v is not None else [])}
        ret_names = {x.id for x in names if isinstance(x, ast.Name)}
        if not (ret_names & fac_names):
            rep.bad("C16.I", Finding(PROP, "C16.I", fname(helper), norm(r.ast),
                                     "the helper returns something that is not a factor bound from cholesky_ex",
                                     helper.loc(r.ast)))
            continue
        gate = None
        # the documented escape: under settings.trace_mode no data-dependent control flow is allowed, the first factor is
        # returned as it is - whether the test is `trace_mode.on() or not any(info)` or a separate `if trace_mode.on():`
        tm = [cfg.nodes[d] for d in cfg.dominators(r.id) if cfg.nodes[d].kind == "test" and "trace_mode" in norm(cfg.nodes[d].ast)
              and not any(isinstance(x, ast.Name) and x.id in info_names for x in ast.walk(cfg.nodes[d].ast))]
        if tm and cfg.branch_taken(tm[0].id, r.id) is True and ".on()" in norm(tm[0].ast) and not norm(tm[0].ast).startswith("not "):
            first_bind = [b for b in binds if b.id in cfg.dominators(r.id)]
            later = [b for b in binds if b.id in cfg.dominators(r.id) and _inside_loop(cfg, b.id)]
            if first_bind and not later:
                rep.ok("C16.I", {"return": norm(r.ast), "gate": tm[0].label, "branch": "documented trace_mode escape",
                                 "trace_mode_escape": True})
                continue
        for d in cfg.dominators(r.id):
            dn = cfg.nodes[d]
            if dn.kind == "test":
                sp = success_polarity(dn.ast)
                if sp is not None:
                    pol = cfg.branch_taken(d, r.id)
                    if pol is not None and pol == sp[0]:
                        gate = (dn, sp[1])
                        break
                    if pol is not None and pol != sp[0]:
                        gate = (dn, None)
                        break
        if gate is None:
            rep.bad("C16.I", Finding(PROP, "C16.I", fname(helper), norm(r.ast),
                                     f"`{norm(r.ast)}` is not dominated by a test of the info codes: a factor of a failed "
                                     "factorization (containing NaN) may be returned", helper.loc(r.ast)))
            continue
        gnode, esc = gate
        if esc is None:
            rep.bad("C16.I", Finding(PROP, "C16.I", fname(helper), norm(r.ast) + " under " + gnode.label,
                                     f"`{norm(r.ast)}` is reached on the FAILURE branch of `{gnode.label}`", helper.loc(r.ast)))
            continue
        # same generation: no cholesky_ex binding on any path between the gate and the return
        between = set(nx.descendants(cfg.g, gnode.id)) & (set(nx.ancestors(cfg.g, r.id)) | {r.id})
        h = cfg.g.copy()
        h.remove_node(gnode.id)
        stale = [b for b in binds if b.id in between and b.id in h and r.id in h and nx.has_path(h, b.id, r.id)
                 and any(nx.has_path(h, s, b.id) for s in cfg.g.successors(gnode.id) if s in h)]
        # and the gate tests the generation that reaches it: the nearest binding dominating the gate
        dom_binds = [b for b in binds if b.id in cfg.dominators(gnode.id)]
        if stale:
            rep.bad("C16.I", Finding(PROP, "C16.I", fname(helper), norm(r.ast),
                                     f"between the test `{gnode.label}` and `{norm(r.ast)}` the factor is re-bound by "
                                     f"`{stale[0].label[:60]}`: the returned factor is not the generation whose info was tested",
                                     helper.loc(r.ast)))
        elif not dom_binds:
            rep.bad("C16.I", Finding(PROP, "C16.I", fname(helper), norm(r.ast), f"the test `{gnode.label}` is not "
                                     "preceded by a cholesky_ex binding on every path", helper.loc(r.ast)))
        else:
            rep.ok("C16.I", {"return": norm(r.ast), "gate": gnode.label, "branch": "all info zero",
                             "trace_mode_escape": bool(esc), "generation": dom_binds[0].label[:70]})
    if len(returns) < 2:
        rep.error(f"only {len(returns)} return statements in {fname(helper)} (expected the first-try and the retry exit)")

    # ---------------------------------------------------------------- F
    rep.rule("C16.F", "failure is loud: NotPSDError after the retries, NanError before them, a warning per perturbation", floor=3)
    loops = [n for n in cfg.nodes.values() if n.kind == "iter" or (n.kind == "test" and isinstance(getattr(n, "stmt", None), ast.While))]
    if not loops:
        raise AnalysisError("retry loop not found in the cholesky helper")
    loop = loops[0]
    # (a) from the loop's exhaustion edge no normal exit is reachable
    exhausted = [s for s in cfg.g.successors(loop.id) if cfg.g[loop.id][s].get("pol") is False]
    ok_a = True
    for s in exhausted:
        if s == cfg.exit or nx.has_path(cfg.g, s, cfg.exit):
            ok_a = False
    raise_nodes = [n for n in cfg.stmt_nodes() if n.kind == "stmt" and isinstance(n.ast, ast.Raise)]
    notpsd = [n for n in raise_nodes if "NotPSDError" in n.label]
    if ok_a and exhausted and notpsd and all(nx.has_path(cfg.g, s, notpsd[0].id) or s == notpsd[0].id for s in exhausted):
        rep.ok("C16.F", {"after_retries": "raise NotPSDError", "normal_exit_reachable": False})
    else:
        rep.bad("C16.F", Finding(PROP, "C16.F", fname(helper), "exit of the retry loop",
                                 "after the last failed try the function can reach a normal return (or does not raise "
                                 "NotPSDError): a failed factorization is not reported", helper.loc(loop.ast)))
    # (b) NaN screen dominates the loop
    nan_raise = [n for n in raise_nodes if "NanError" in n.label]
    ok_b = False
    for n in nan_raise:
        tests = [d for d in cfg.dominators(n.id) if cfg.nodes[d].kind == "test"]
        if tests and tests[0] in cfg.dominators(loop.id):
            deps = full_deps(helper)
            tnames = {x.id for x in ast.walk(cfg.nodes[tests[0]].ast) if isinstance(x, ast.Name)}
            src = set()
            for t in tnames:
                src |= deps.get(t, set()) | {t}
            if any("isnan" in norm(v) for nm in tnames for v in [a.value for a in ast.walk(helper.node)
                                                                  if isinstance(a, ast.Assign) and any(
                    isinstance(tt, ast.Name) and tt.id == nm for tt in a.targets)]) or "isnan" in cfg.nodes[tests[0]].label:
                ok_b = True
    if ok_b:
        rep.ok("C16.F", {"nan_screen": "raise NanError dominated by an isnan test that dominates the retry loop"})
    else:
        rep.bad("C16.F", Finding(PROP, "C16.F", fname(helper), "NaN screen",
                                 "no `raise NanError` guarded by an isnan test dominates the retry loop: a matrix "
                                 "containing NaN is jittered and reported as not positive definite (or returned)",
                                 helper.loc()))
    # (c) every diagonal update is followed by a NumericalWarning before the next factorization / exit
    updates = []
    # names bound to a diagonal VIEW (Aprime_diag = Aprime.diagonal(dim1=-1, dim2=-2)) count as the diagonal
    diag_views = {n.ast.targets[0].id for n in cfg.stmt_nodes() if n.kind == "stmt" and isinstance(n.ast, ast.Assign)
                  and len(n.ast.targets) == 1 and isinstance(n.ast.targets[0], ast.Name)
                  and isinstance(n.ast.value, ast.Call) and isinstance(n.ast.value.func, ast.Attribute)
                  and n.ast.value.func.attr == "diagonal"}

    def is_diag(e: ast.AST) -> bool:
        return "diagonal" in norm(e) or (isinstance(e, ast.Name) and e.id in diag_views)

    for n in cfg.stmt_nodes():
        if n.kind != "stmt":
            continue
        for x in ast.walk(n.ast):
            if isinstance(x, ast.Call) and isinstance(x.func, ast.Attribute) and x.func.attr in ("add_", "addcmul_", "sub_") \
                    and is_diag(x.func.value):
                updates.append((n, x))
        if isinstance(n.ast, ast.AugAssign) and is_diag(n.ast.target):
            updates.append((n, n.ast))
    warn_nodes = {n.id for n in cfg.stmt_nodes() if n.kind == "stmt" and any(
        isinstance(x, ast.Call) and (dotted(x.func) or "").endswith("warn") and "NumericalWarning" in norm(x)
        for x in ast.walk(n.ast))}
    if not updates:
        rep.error("no in-place diagonal update found in the retry loop (anchor vanished)")
    for n, x in updates:
        h = cfg.g.copy()
        for w in warn_nodes:
            if w in h and w != n.id:
                h.remove_node(w)
        targets = [b.id for b in binds if b.id in h] + [cfg.exit, cfg.raise_exit]
        silent = n.id not in warn_nodes and any(t in h and nx.has_path(h, n.id, t) for t in targets)
        if silent:
            rep.bad("C16.F", Finding(PROP, "C16.F", fname(helper), norm(x),
                                     "the diagonal is perturbed on a path on which no NumericalWarning is emitted before "
                                     "the next factorization", helper.loc(x)))
        else:
            rep.ok("C16.F", {"update": short(x, 70), "followed_by": "warnings.warn(..., NumericalWarning)"})

    # ---------------------------------------------------------------- D
    rep.rule("C16.D", "the perturbation depends on info, is incremental, and defaults come from the per-dtype settings", floor=4)
    deps = full_deps(helper)
    for n, x in updates:
        addend_reads: Set[str] = set()
        args = list(getattr(x, "args", [])) + [k.value for k in getattr(x, "keywords", [])] if isinstance(x, ast.Call) else [x.value]
        for a in args:
            for y in ast.walk(a):
                if isinstance(y, ast.Name):
                    addend_reads |= {y.id} | deps.get(y.id, set())
        per_member = bool(addend_reads & info_names)
        # ... and on the generation of info produced by the LATEST factorization: info is re-bound inside the retry loop,
        # so the chain addend -> info must run through definitions that are re-evaluated inside the loop
        in_loop_defs: Dict[str, Set[str]] = {}
        for st in ast.walk(loop.ast):
            if isinstance(st, ast.Assign):
                rd = {y.id for y in ast.walk(st.value) if isinstance(y, ast.Name)}
                for t in st.targets:
                    for y in ast.walk(t):
                        if isinstance(y, ast.Name):
                            in_loop_defs.setdefault(y.id, set()).update(rd)
        info_rebound_in_loop = any(i in in_loop_defs for i in info_names)
        direct = set()
        for a in args:
            direct |= {y.id for y in ast.walk(a) if isinstance(y, ast.Name)}
        fresh, work, seen_n = False, list(direct), set()
        while work:
            nm = work.pop()
            if nm in seen_n:
                continue
            seen_n.add(nm)
            if nm in info_names:
                fresh = True
                break
            if nm in in_loop_defs:
                work += list(in_loop_defs[nm])
        sample = {"update": short(x, 70), "addend_depends_on": sorted(a for a in addend_reads if "." not in a)[:12]}
        if per_member and (fresh or not info_rebound_in_loop):
            rep.ok("C16.D", {**sample, "per_batch_member": True, "info_generation": "current (re-evaluated inside the retry loop)"})
        elif per_member:
            rep.bad("C16.D", Finding(PROP, "C16.D", fname(helper), norm(x) + " [stale info]",
                                     "the addend depends on the info codes only through a value computed BEFORE the retry loop, "
                                     "while info is re-bound by every retry: members that a smaller jitter already fixed keep "
                                     "being perturbed with the larger jitters (per-member jitter is lost after the first try)",
                                     helper.loc(x)))
        else:
            rep.bad("C16.D", Finding(PROP, "C16.D", fname(helper), norm(x) + " [info]",
                                     "the addend of the diagonal update does not depend on the info codes: members of the "
                                     "batch that factorized fine are perturbed too", helper.loc(x)))
        # incremental: the slice contains a difference  new - prev  where prev is re-assigned from new inside the loop
        incremental = False
        slice_names = addend_reads
        for y in walk_body(helper):
            if isinstance(y, ast.BinOp) and isinstance(y.op, ast.Sub) and isinstance(y.left, ast.Name) and isinstance(y.right, ast.Name):
                if y.left.id in slice_names and y.right.id in slice_names:
                    for z in walk_body(helper):
                        if (isinstance(z, ast.Assign) and len(z.targets) == 1 and isinstance(z.targets[0], ast.Name)
                                and z.targets[0].id == y.right.id and isinstance(z.value, ast.Name) and z.value.id == y.left.id):
                            incremental = True
        if incremental:
            rep.ok("C16.D", {**sample, "incremental": "new - previous jitter, previous := new after the update"})
        else:
            rep.bad("C16.D", Finding(PROP, "C16.D", fname(helper), norm(x) + " [incremental]",
                                     "the addend is not the difference between the new and the previous jitter (with the "
                                     "previous one updated each try): jitter accumulates beyond jitter * 10**i",
                                     helper.loc(x)))
    jd = deps.get("jitter", set())
    if any("cholesky_jitter" in d for d in jd) and any(d.endswith(".dtype") or d == "A" for d in jd):
        rep.ok("C16.D", {"default_jitter_depends_on": sorted(d for d in jd if "cholesky_jitter" in d or d.endswith("dtype"))})
    else:
        rep.bad("C16.D", Finding(PROP, "C16.D", fname(helper), "default jitter",
                                 "the default jitter does not come from settings.cholesky_jitter indexed by A.dtype",
                                 helper.loc()))
    md = deps.get("max_tries", set())
    if any("cholesky_max_tries" in d for d in md):
        rep.ok("C16.D", {"default_max_tries_depends_on": sorted(d for d in md if "max_tries" in d)})
    else:
        rep.bad("C16.D", Finding(PROP, "C16.D", fname(helper), "default max_tries",
                                 "the default number of tries does not come from settings.cholesky_max_tries", helper.loc()))
    # the loop bound depends on max_tries
    if isinstance(loop.ast, ast.For) and "max_tries" in ({x.id for x in ast.walk(loop.ast.iter) if isinstance(x, ast.Name)}):
        rep.ok("C16.D", {"retry_loop_bound": norm(loop.ast.iter)})
    else:
        rep.bad("C16.D", Finding(PROP, "C16.D", fname(helper), "retry loop bound", "the retry loop is not bounded by max_tries",
                                 helper.loc(loop.ast)))

    # ---------------------------------------------------------------- U
    rep.rule("C16.U", "the factor returned for upper=True is the upper one, for upper=False the lower one", floor=2)
    pcfg = CFG(pub)

    def chol_orientations(fn: FunctionInfo, upper_value: Optional[bool]) -> Set[object]:
        """Orientation (True = upper) of every factor bound from cholesky_ex / cholesky in fn, the function's own
        `upper` parameter having the given value (None: the function has no such parameter)."""
        out: Set[object] = set()
        for x in walk_body(fn):
            if isinstance(x, ast.Call) and (dotted(x.func) or "").split(".")[-1] in ("cholesky_ex", "cholesky"):
                kw = next((k.value for k in x.keywords if k.arg == "upper"), None)
                if kw is None:
                    out.add(False)
                elif isinstance(kw, ast.Constant):
                    out.add(bool(kw.value))
                elif isinstance(kw, ast.Name) and kw.id == "upper" and upper_value is not None:
                    out.add(upper_value)
                else:
                    out.add("?")
        return out

    def flips_on(path: List[int]) -> int:
        k = 0
        for nid in path:
            nd = pcfg.nodes[nid]
            if nd.kind != "stmt" or nd.ast is None:
                continue
            for x in ast.walk(nd.ast):
                if isinstance(x, ast.Attribute) and x.attr in ("mT", "T") and isinstance(x.ctx, ast.Load):
                    k += 1
                if isinstance(x, ast.Call) and isinstance(x.func, ast.Attribute) and x.func.attr in (
                        "transpose", "transpose_", "_transpose_nonbatch", "t") :
                    k += 1
        return k

    def base_orientations(path: List[int], want: bool) -> Set[object]:
        """Orientation of the factor before the transpositions of the path: from the helper call on the path (with the
        value of `upper` it is given) or from a direct cholesky call in psd_safe_cholesky itself."""
        out: Set[object] = set()
        for nid in path:
            nd = pcfg.nodes[nid]
            if nd.kind != "stmt" or nd.ast is None:
                continue
            for x in ast.walk(nd.ast):
                if isinstance(x, ast.Call) and isinstance(x.func, ast.Name) and helper is not pub and x.func.id == helper.name:
                    hv: Optional[bool] = None
                    if "upper" in helper.params():
                        kw = next((k.value for k in x.keywords if k.arg == "upper"), None)
                        pos = helper.params().index("upper")
                        if kw is None and pos < len(x.args):
                            kw = x.args[pos]
                        if kw is None:
                            dv = helper.defaults().get("upper")
                            hv = bool(dv.value) if isinstance(dv, ast.Constant) else False
                        elif isinstance(kw, ast.Constant):
                            hv = bool(kw.value)
                        elif isinstance(kw, ast.Name) and kw.id == "upper":
                            hv = want
                        else:
                            return {"?"}
                    out |= chol_orientations(helper, hv)
                elif isinstance(x, ast.Call) and (dotted(x.func) or "").split(".")[-1] in ("cholesky_ex", "cholesky"):
                    out |= chol_orientations(pub, want)
        return out

    for want in (True, False):
        def prune(a, b, pol, want=want):
            na = pcfg.nodes[a]
            if na.kind == "test" and pol is not None:
                if na.label == "upper":
                    return pol != want
                if na.label == "not upper":
                    return pol == want
            return False
        paths = list(pcfg.acyclic_paths(prune=prune, limit=500))
        finals: Set[object] = set()
        for pth in paths:
            par = flips_on(pth) % 2 == 1
            for b0 in (base_orientations(pth, want) or {"none"}):
                finals.add(b0 if b0 in ("?", "none") else (b0 != par))
        sample = {"upper": want, "paths": len(paths), "orientation_of_returned_factor": sorted(str(f) for f in finals)}
        if "?" in finals or "none" in finals:
            rep.error(f"psd_safe_cholesky(upper={want}): orientation of the factor could not be determined ({sorted(map(str, finals))})")
        elif finals == {want}:
            rep.ok("C16.U", sample)
        else:
            rep.bad("C16.U", Finding(PROP, "C16.U", fname(pub), f"upper={want}: returned orientation {sorted(map(str, finals))}",
                                     f"psd_safe_cholesky(upper={want}) can return a factor whose orientation is "
                                     f"{['lower' if f is False else 'upper' for f in sorted(finals, key=str)]} (factorization "
                                     "sites x transpositions on the path): the retry path and the first attempt must agree with "
                                     "the request", pub.loc()), sample)
    if "upper" not in pub.params():
        rep.error("psd_safe_cholesky no longer takes `upper`")

    if selftest:
        from ..selftest import run_fixtures

        run_fixtures(rep, PROP)
