"""C02 - composition and structure-preserving rewrites never change the matrix (structural clauses).

    R  rebuild sites forward the value-bearing constructor flags.  Every ``self.__class__(...)`` / ``type(self)(...)``
       (and ``ClassName(...)`` inside ClassName's own methods) rebuilds an operator from transformed components
       (_expand_batch, _permute_batch, _getitem, _mul_constant, _transpose_nonbatch, add_jitter, abs/exp/sqrt/inverse, ...).
       For every concrete class C and every method AS RESOLVED ON C (inherited sites are judged against the subclass),
       the call must bind to C's constructor and pass every value-bearing flag of C explicitly, positionally, or through
       ``**self._kwargs`` when C's constructor record really contains it.
    S  scalar operands: in the public arithmetic methods a parameter annotated ``Union[float, ...]`` is dereferenced
       (``other.shape``, ``other.mul(...)``) only behind a type test or after a conversion.
"""
from __future__ import annotations

import ast
from typing import Dict, List, Optional, Set, Tuple

from ..cfg import CFG
from ..ctor import CtorRecord, ctor_record
from ..index import AnalysisError, ClassInfo, FunctionInfo, ProgramIndex, dotted, norm, short, walk_body
from ..report import Finding, Report

PROP = "C02"

# flags that do not change the represented matrix: name -> reason
NON_VALUE_FLAGS = {
    "preconditioner_override": "performance: replaces the preconditioner, not the matrix",
    "output_device": "placement only",
    "validate_args": "validation only",
    "dtype": "owned by C14 (rule F2)",
    "device": "owned by C14 (rule F2)",
}
# (class introducing the flag, flag) -> reason it may be omitted at a rebuild site
FLAG_EXCEPTIONS = {
    ("BlockLinearOperator", "block_dim"): "__init__ normalises the operand so that the default -3 denotes the same matrix",
}
ORIENTATION_FLAGS = {"upper"}
ARITH_METHODS = ["mul", "div", "add", "sub", "__add__", "__sub__", "__mul__", "__rmul__", "__radd__", "__rsub__",
                 "__truediv__", "add_jitter"]  # public API only: private hooks (_mul_constant) are reached behind mul()
SCALAR_SAFE_ATTRS = {"__class__", "real", "imag"}


def value_flags(idx: ProgramIndex, c: ClassInfo, rec: CtorRecord) -> Dict[str, str]:
    """flag -> why it is value bearing (an attribute derived from it is read outside __init__)."""
    out: Dict[str, str] = {}
    if rec.init is None:
        return out
    cands = [p for p in rec.params + rec.kwonly if p in rec.defaults]
    if rec.kwarg:
        cands.append(rec.kwarg)
    chain_classes = [q.rsplit(".", 2)[-2] for q in rec.chain]
    for p in cands:
        if p in NON_VALUE_FLAGS:
            continue
        if p in ORIENTATION_FLAGS and p in rec.defaults:
            out[p] = "orientation flag: the class invariant used by every triangular solve"
            continue
        if any((k, p) in FLAG_EXCEPTIONS for k in chain_classes):
            continue
        d = rec.defaults.get(p)
        # a None default that __init__ completes from other parameters is an optional operand, not a mode flag
        if p != rec.kwarg and isinstance(d, ast.Constant) and d.value is None:
            continue
        attrs = {a for a, src in rec.attr_sources.items() if p in src}
        readers = []
        for k in c.mro:
            for mname, fn in k.methods.items():
                if mname == "__init__":
                    continue
                for n in ast.walk(fn.node):
                    if isinstance(n, ast.Attribute) and isinstance(n.value, ast.Name) and n.value.id == "self" \
                            and n.attr in attrs and isinstance(n.ctx, ast.Load):
                        readers.append(f"{k.name}.{mname}")
                        break
        if readers:
            out[p] = f"self.{sorted(attrs)[0]} is read by {readers[0]}" + (f" (+{len(readers) - 1})" if len(readers) > 1 else "")
    return out


def rebuild_calls(fn: FunctionInfo, owner: ClassInfo) -> List[Tuple[ast.Call, str]]:
    out = []
    for n in walk_body(fn):
        if not isinstance(n, ast.Call):
            continue
        f = n.func
        if isinstance(f, ast.Attribute) and f.attr == "__class__" and isinstance(f.value, ast.Name) and f.value.id == "self":
            out.append((n, "self.__class__"))
        elif isinstance(f, ast.Call) and isinstance(f.func, ast.Name) and f.func.id == "type" and len(f.args) == 1 \
                and isinstance(f.args[0], ast.Name) and f.args[0].id == "self":
            out.append((n, "type(self)"))
        elif isinstance(f, ast.Name) and f.id == owner.name:
            out.append((n, "explicit"))
    return out


def kwargs_sources(fn: FunctionInfo) -> Dict[str, bool]:
    """local dict names -> True if derived from self._kwargs"""
    out: Dict[str, bool] = {}
    for n in walk_body(fn):
        if isinstance(n, ast.Assign) and len(n.targets) == 1 and isinstance(n.targets[0], ast.Name):
            txt = norm(n.value)
            if "_kwargs" in txt:
                out[n.targets[0].id] = True
    return out


def rule_rebuild(idx: ProgramIndex, rep: Report, rule: str = "C02.R", prop: str = PROP, only_methods: Optional[Set[str]] = None,
                 floor: int = 150, title: str = "rebuild sites bind to the subclass constructor and forward its value-bearing flags"):
    rep.rule(rule, title, floor=floor)
    base = idx.operator_base()
    records: Dict[str, CtorRecord] = {c.name: ctor_record(idx, c) for c in idx.operator_classes()}
    flags_of: Dict[str, Dict[str, str]] = {}
    for c in idx.operator_classes():
        flags_of[c.name] = value_flags(idx, c, records[c.name])
    rep.analysed["value_bearing_flags"] = {k: v for k, v in flags_of.items() if v}
    if sum(len(v) for v in flags_of.values()) < 6:
        raise AnalysisError("fewer than 6 value-bearing constructor flags found (expected upper, dim, batch_repeat, ...)")
    seen_sites = 0
    for c in idx.operator_classes():
        if c is base:
            continue
        rec = records[c.name]
        if rec.init is None:
            continue
        flags = flags_of[c.name]
        # every method name visible on c
        names: Set[str] = set()
        for k in c.mro:
            names |= set(k.methods)
        for mname in sorted(names):
            fn = idx.resolve_method(c, mname)
            if fn is None or fn.cls is None or mname == "__init__":
                continue
            if only_methods is not None and mname not in only_methods:
                continue
            for call, kind in rebuild_calls(fn, fn.cls):
                if kind == "explicit" and fn.cls is not c:
                    continue  # builds the named class, whatever the receiver: not a rebuild of c
                seen_sites += 1
                site = f"{fn.cls.name}.{_canonical_hook_name(idx, mname)}"
                where = f"{c.name} via {site}" if fn.cls is not c else site
                has_star = any(isinstance(a, ast.Starred) for a in call.args)
                npos = sum(1 for a in call.args if not isinstance(a, ast.Starred))
                kw_named = {k.arg: k.value for k in call.keywords if k.arg}
                kw_open = [k.value for k in call.keywords if k.arg is None]
                # ---- (a) binding
                problems = []
                if not has_star and npos > len(rec.params) and rec.vararg is None:
                    problems.append(f"{npos} positional arguments but {c.name}.__init__ takes {len(rec.params)}")
                for k in kw_named:
                    if k not in rec.params + rec.kwonly and rec.kwarg is None:
                        problems.append(f"unexpected keyword `{k}`")
                if not has_star and not kw_open:
                    required = [p for p in rec.params if p not in rec.defaults]
                    for i, p in enumerate(required):
                        if i >= npos and p not in kw_named:
                            problems.append(f"required parameter `{p}` not supplied")
                if problems:
                    rep.bad(rule, Finding(
                        prop, rule, where, norm(call),
                        f"{where}: `{short(call, 80)}` does not bind to {c.name}.__init__({', '.join(rec.all_params())}): "
                        + "; ".join(problems) + " - the rewrite raises instead of returning the rebuilt operator",
                        fn.loc(call)))
                    continue
                # ---- (b) flags
                ksrc = kwargs_sources(fn)
                missing = []
                for p, why in flags.items():
                    if p == rec.kwarg:
                        ok = bool(kw_open) or any(k not in rec.params + rec.kwonly for k in kw_named)
                        if not ok:
                            missing.append((p, why))
                        continue
                    if p in kw_named:
                        continue
                    if p in rec.params and not has_star and rec.params.index(p) < npos:
                        continue
                    passed_via_kwargs = False
                    for ko in kw_open:
                        # **self._kwargs (or a dict built from it): the flag travels iff the constructor record contains
                        # it - that obligation is C14 rule A's (one finding per class, not one per generic rebuild site).
                        # any other dict: cannot tell, no obligation
                        passed_via_kwargs = True
                    if has_star and p in rec.params and any(isinstance(a, ast.Starred) and "_args" in norm(a) for a in call.args):
                        passed_via_kwargs = passed_via_kwargs or True
                    if not passed_via_kwargs:
                        missing.append((p, why))
                sample = {"class": c.name, "site": site, "call": short(call, 90), "flags": sorted(flags)}
                if not missing:
                    rep.ok(rule, sample)
                for p, why in missing:
                    via = "nothing"
                    rep.bad(rule, Finding(
                        prop, rule, where, f"rebuild {norm(call.func)}(...) does not pass [{p}]",
                        f"{where}: the rebuild `{short(call, 80)}` passes `{p}` through {via}; `{p}` is value bearing "
                        f"({why}), so the rewritten operator is built with the default and denotes a different matrix",
                        fn.loc(call)))
    rep.analysed["rebuild_sites_checked"] = seen_sites


def type_test_kind(test: ast.AST, p: str) -> Optional[bool]:
    """Polarity of the branch on which `p` is known to be a tensor / operator (None: not a type test of p)."""
    neg = False
    t = test
    while isinstance(t, ast.UnaryOp) and isinstance(t.op, ast.Not):
        neg = not neg
        t = t.operand
    res: Optional[bool] = None
    if isinstance(t, ast.Call):
        d = dotted(t.func) or ""
        if d == "torch.is_tensor" and t.args and norm(t.args[0]) == p:
            res = True
        elif d == "isinstance" and len(t.args) == 2 and norm(t.args[0]) == p:
            txt = norm(t.args[1])
            if any(k in txt for k in ("Number", "int", "float")) and "Tensor" not in txt and "LinearOperator" not in txt:
                res = False  # scalar test: the FALSE branch has the tensor / operator
            else:
                res = True
    elif isinstance(t, ast.BoolOp):
        subs = [type_test_kind(v, p) for v in t.values]
        if isinstance(t.op, ast.Or) and all(x is True for x in subs):
            res = True
        elif isinstance(t.op, ast.And) and any(x is True for x in subs):
            res = True
        elif all(x is False for x in subs):
            res = False  # (not A) and/or (not B): the false branch has a tensor / operator
    if res is None:
        return None
    return (not res) if neg else res


def rule_scalar(idx: ProgramIndex, rep: Report):
    rep.rule("C02.S", "python-scalar operands are dereferenced only behind a type test or conversion", floor=10)
    n = 0
    for c in idx.operator_classes():
        for m in ARITH_METHODS:
            fn = c.methods.get(m)
            if fn is None:
                continue
            a = fn.node.args
            for arg in list(a.args)[1:]:
                if arg.annotation is None:
                    continue
                ann = norm(arg.annotation)
                if "float" not in ann:
                    continue
                p = arg.arg
                n += 1
                cfg = None
                derefs = [x for x in walk_body(fn) if isinstance(x, ast.Attribute) and isinstance(x.value, ast.Name)
                          and x.value.id == p and isinstance(x.ctx, ast.Load) and x.attr not in SCALAR_SAFE_ATTRS]
                if not derefs:
                    rep.ok("C02.S", {"method": f"{c.name}.{m}", "parameter": p, "annotation": ann[:60], "dereferences": 0})
                    continue
                cfg = CFG(fn)
                for d in derefs:
                    node = cfg.node_of(d)
                    ok = None
                    if node is not None:
                        # conditional expression: (a if isinstance(p, Number) else p.attr): the branch taken is decided by the test
                        for x in ast.walk(node.ast if node.kind != "iter" else node.ast.iter):
                            if isinstance(x, ast.IfExp):
                                kind = type_test_kind(x.test, p)
                                if kind is not None:
                                    in_body = any(y is d for y in ast.walk(x.body))
                                    in_else = any(y is d for y in ast.walk(x.orelse))
                                    if (in_body and kind is True) or (in_else and kind is False):
                                        ok = f"conditional expression on `{norm(x.test)[:50]}`"
                        # same-expression short circuit: isinstance(p, X) and p.attr
                        for x in ast.walk(node.ast if node.kind != "iter" else node.ast.iter):
                            if isinstance(x, ast.BoolOp) and any(y is d for v in x.values[1:] for y in ast.walk(v)):
                                first = norm(x.values[0])
                                if f"isinstance({p}" in first or f"is_tensor({p}" in first:
                                    ok = f"short-circuit after `{first}`"
                        for dom in cfg.dominators(node.id):
                            dn = cfg.nodes[dom]
                            if dn.kind == "test":
                                kind = type_test_kind(dn.ast, p)
                                taken = cfg.branch_taken(dom, node.id)
                                if kind is not None and taken is not None and kind == taken:
                                    ok = ok or f"type test `{dn.label[:60]}` ({'true' if taken else 'false'} branch)"
                            if dn.kind == "stmt" and isinstance(dn.ast, ast.Assign) and any(
                                    isinstance(t, ast.Name) and t.id == p for t in dn.ast.targets):
                                ok = ok or f"conversion `{dn.label[:60]}`"
                        if ok is None:
                            # `if not (is_tensor(p) or isinstance(p, LinearOperator)): p = torch.tensor(p, ...)` before the use
                            for n2 in cfg.stmt_nodes():
                                st = getattr(n2, "stmt", None)
                                if n2.kind == "test" and st is not None and n2.id in cfg.dominators(node.id):
                                    kind = type_test_kind(n2.ast, p)
                                    if kind is None:
                                        continue
                                    conv_branch = st.orelse if kind else st.body  # the branch where p is NOT a tensor / operator
                                    assigns = [s2 for s2 in conv_branch if isinstance(s2, ast.Assign) and any(
                                        isinstance(t, ast.Name) and t.id == p for t in s2.targets)]
                                    returns = conv_branch and isinstance(conv_branch[-1], (ast.Return, ast.Raise))
                                    if assigns or returns:
                                        ok = f"non-tensor case converted / returned under `{n2.label[:60]}`"
                    sample = {"method": f"{c.name}.{m}", "parameter": p, "dereference": norm(d), "protected_by": ok}
                    if ok:
                        rep.ok("C02.S", sample)
                    else:
                        rep.bad("C02.S", Finding(
                            PROP, "C02.S", f"{c.name}.{m}", f"{norm(d)}",
                            f"{c.name}.{m} declares `{p}: {ann[:70]}` (a python number is allowed) but evaluates `{norm(d)}` "
                            "without a type test or conversion: a float operand fails with an AttributeError instead of "
                            "being treated as a constant", fn.loc(d)))
    if n < 10:
        rep.error(f"only {n} float-annotated operands of arithmetic methods found (expected >= 10)")


SCALAR_CONVERTERS = {"torch.tensor", "torch.as_tensor", "torch.asarray", "torch.scalar_tensor", "torch.full"}


def rule_scalar_dtype(idx: ProgramIndex, rep: Report):
    """A python-scalar operand that is turned into a tensor inside an arithmetic method takes the OPERATOR's dtype:
    torch.tensor(0.1) / torch.as_tensor(0.1) without dtype= is float32 whatever the operator is."""
    rep.rule("C02.S2", "conversions of python-scalar operands carry the operator's dtype", floor=2)
    n = 0
    for c in idx.operator_classes():
        for m in ARITH_METHODS:
            fn = c.methods.get(m)
            if fn is None:
                continue
            scalar_params = {a.arg for a in list(fn.node.args.args)[1:] if a.annotation is not None and "float" in norm(a.annotation)}
            if not scalar_params:
                continue
            # the method and the private helpers of self / of the module that it hands the scalar operand to
            scopes = [(fn, scalar_params, {"self"})]
            for x in walk_body(fn):
                if isinstance(x, ast.Call) and any(isinstance(a_, ast.Name) and a_.id in scalar_params for a_ in x.args):
                    callee = None
                    off = 0
                    if isinstance(x.func, ast.Attribute) and isinstance(x.func.value, ast.Name) and x.func.value.id == "self" \
                            and x.func.attr.startswith("_"):
                        callee, off = idx.resolve_method(c, x.func.attr), 1
                    elif isinstance(x.func, ast.Name) and x.func.id.startswith("_"):
                        callee = idx.function_of_expr(fn.module, x.func)
                        off = 0
                    if callee is not None:
                        ps = callee.params()[off:]
                        bound = {ps[i] for i, a_ in enumerate(x.args) if isinstance(a_, ast.Name) and a_.id in scalar_params and i < len(ps)}
                        # the names the operator itself goes by inside the helper (self for a method, the parameter `self` is
                        # passed for in a module-level helper)
                        ops = ({"self"} if off else set()) | {ps[i] for i, a_ in enumerate(x.args)
                                                               if isinstance(a_, ast.Name) and a_.id == "self" and i < len(ps)}
                        if bound:
                            scopes.append((callee, bound, ops))
            for (sfn, sparams, opnames) in scopes:
              for x in walk_body(sfn):
                  if not (isinstance(x, ast.Call) and dotted(x.func) in SCALAR_CONVERTERS and x.args):
                      continue
                  src = x.args[-1] if dotted(x.func) == "torch.full" and len(x.args) >= 2 else x.args[0]
                  if not (isinstance(src, ast.Name) and src.id in sparams):
                      continue
                  n += 1
                  dt = next((k.value for k in x.keywords if k.arg == "dtype"), None)
                  sample = {"method": f"{c.name}.{m}", "conversion": short(x, 70)}
                  derived = dt is not None and any(isinstance(y, ast.Name) and y.id in opnames for y in ast.walk(dt))
                  if derived:
                      rep.ok("C02.S2", sample)
                  else:
                      rep.bad("C02.S2", Finding(
                          PROP, "C02.S2", f"{c.name}.{m}", norm(x),
                          f"{c.name}.{m}: `{short(x, 70)}` turns the python-scalar operand `{src.id}` into a tensor "
                          + ("without dtype=" if dt is None else f"with dtype={norm(dt)}") + ": the constant is rounded to torch's "
                          "default dtype (float32), so a float64 operator times 0.1 is off by 1e-8 relative", sfn.loc(x)), sample)
    if n < 2:
        rep.error(f"only {n} scalar-operand conversions found in arithmetic methods (expected >= 2)")


# private hook -> (public wrappers that establish its precondition, the precondition in words)
LAYERED_HOOKS = {
    "_mul_constant": (("mul",), "the operand is a single constant or a batch of constants whose batch shape equals the "
                                 "broadcast batch shape (LinearOperator.mul checks both)"),
}


def rule_open_keywords(idx: ProgramIndex, rep: Report):
    """Open keyword plumbing: a constructor that takes ``**params``, splits them into dictionaries, hands every part to
    ``super().__init__(..., **part_a, **part_b)`` and keeps the parts as attributes (``self.part_a = part_a``) must get every
    part back at each of its rebuild sites - a ``**`` expansion that derives from ``self.part_x`` (directly, through a local
    computed from it, or through the parameter of a private helper whose callers pass such a value) or from ``self._kwargs``."""
    rep.rule("C02.Q", "rebuild sites hand back every part of the open keyword parameters (**params) of the constructor", floor=1)
    for c in idx.operator_classes():
        init = c.methods.get("__init__")
        if init is None or init.node.args.kwarg is None:
            continue
        sup = [n for n in walk_body(init) if isinstance(n, ast.Call) and isinstance(n.func, ast.Attribute) and n.func.attr == "__init__"
               and isinstance(n.func.value, ast.Call) and isinstance(n.func.value.func, ast.Name) and n.func.value.func.id == "super"]
        star_names = {k.value.id for n in sup for k in n.keywords if k.arg is None and isinstance(k.value, ast.Name)}
        parts = {}
        for n in walk_body(init):
            if isinstance(n, ast.Assign) and len(n.targets) == 1 and isinstance(n.targets[0], ast.Attribute) \
                    and isinstance(n.targets[0].value, ast.Name) and n.targets[0].value.id == "self" \
                    and isinstance(n.value, ast.Name) and n.value.id in star_names and n.value.id != init.node.args.kwarg.arg:
                parts[n.targets[0].attr] = n.value.id  # (the ** parameter kept whole is a constructor flag of C02.R)
        if not parts:
            continue

        def classify(fn: FunctionInfo, e: ast.AST, depth: int = 0) -> Set[str]:
            """Which parts the value of a ** expansion carries ('?' = cannot tell: counts as everything)."""
            txt = norm(e)
            if "_kwargs" in txt:
                return set(parts)
            hit = {p_ for p_ in parts if f"self.{p_}" in txt}
            if hit:
                return hit
            if isinstance(e, ast.Name):
                defs = [n.value for n in walk_body(fn) if isinstance(n, ast.Assign) and any(
                    isinstance(t, ast.Name) and t.id == e.id for t in n.targets)]
                defs += [n.iter for n in walk_body(fn) if isinstance(n, ast.For) and any(isinstance(x, ast.Name) and x.id == e.id for x in ast.walk(n.target))]
                out: Set[str] = set()
                for d in defs:
                    out |= {p_ for p_ in parts if f"self.{p_}" in norm(d)}
                    if "_kwargs" in norm(d):
                        out |= set(parts)
                if out:
                    return out
                if defs:
                    return {"?"}
                if e.id in fn.params() and depth < 2 and fn.name.startswith("_") and not fn.name.startswith("__"):
                    pos = fn.params().index(e.id) - 1
                    out = set()
                    n_sites = 0
                    for g in c.methods.values():
                        for call in walk_body(g):
                            if isinstance(call, ast.Call) and isinstance(call.func, ast.Attribute) and call.func.attr == fn.name \
                                    and isinstance(call.func.value, ast.Name) and call.func.value.id == "self":
                                arg = call.args[pos] if 0 <= pos < len(call.args) else next(
                                    (k.value for k in call.keywords if k.arg == e.id), None)
                                if arg is None:
                                    return {"?"}
                                n_sites += 1
                                out |= classify(g, arg, depth + 1)
                    return out if n_sites else {"?"}
            return {"?"}

        for mname, fn in c.methods.items():
            if mname == "__init__":
                continue
            for call, kind in rebuild_calls(fn, c):
                stars = [k.value for k in call.keywords if k.arg is None]
                covered: Set[str] = set()
                for e in stars:
                    covered |= classify(fn, e)
                sample = {"class": c.name, "site": f"{c.name}.{mname}", "parts": sorted(parts), "handed_back": sorted(covered)}
                missing = sorted(set(parts) - covered) if "?" not in covered else []
                if missing:
                    rep.bad("C02.Q", Finding(
                        PROP, "C02.Q", f"{c.name}.{mname}", f"rebuild does not hand back {missing}",
                        f"{c.name}.__init__ splits its open keyword parameters (**{init.node.args.kwarg.arg}) into {sorted(parts)} and keeps "
                        f"them as attributes; the rebuild `{short(call, 70)}` in {mname} passes no ** expansion that derives from "
                        f"{', '.join('self.' + m_ for m_ in missing)}: the new operator is built without these parameters (a kernel "
                        "evaluated with default hyper-parameters) and denotes a different matrix", fn.loc(call)), sample)
                else:
                    rep.ok("C02.Q", sample)


def derive_layered_hooks(idx: ProgramIndex) -> Dict[str, str]:
    """canonical hook name -> the name it has in this tree.  The hook is the private method the public wrapper of the operator
    base class calls on ``self`` inside its ``torch.is_tensor(<operand>)`` branch (where the precondition has been established);
    the pinned name is used when the derivation does not single out exactly one method."""
    out: Dict[str, str] = {}
    base = idx.operator_base()
    for hook, (wrappers, _pre) in LAYERED_HOOKS.items():
        found: Set[str] = set()
        for w in wrappers:
            fn = base.methods.get(w)
            if fn is None:
                continue
            for br in walk_body(fn):
                if isinstance(br, ast.If) and isinstance(br.test, ast.Call) and dotted(br.test.func) == "torch.is_tensor":
                    for st in br.body:
                        for x in ast.walk(st):
                            if isinstance(x, ast.Call) and isinstance(x.func, ast.Attribute) and isinstance(x.func.value, ast.Name) \
                                    and x.func.value.id == "self" and x.func.attr.startswith("_") and not x.func.attr.startswith("__") \
                                    and x.func.attr in base.methods:
                                found.add(x.func.attr)
        out[hook] = next(iter(found)) if len(found) == 1 else hook
    return out


def _canonical_hook_name(idx: ProgramIndex, mname: str) -> str:
    """A rewrite hook is reported under its canonical (pinned) name, so that a finding about it is identified by the hook's role
    and not by the current spelling of a private method."""
    cache = idx.__dict__.setdefault("_c02_hooks", None) or derive_layered_hooks(idx)
    idx.__dict__["_c02_hooks"] = cache
    for canon, cur in cache.items():
        if mname == cur:
            return canon
    return mname


def rule_hook_layering(idx: ProgramIndex, rep: Report):
    """Who may call a private hook whose precondition is established by its public wrapper."""
    rep.rule("C02.H", "private rewrite hooks are reached only through the public method that checks their precondition", floor=8)
    current = derive_layered_hooks(idx)
    rep.analysed["layered_hooks"] = current
    for hook_, (wrappers, pre) in LAYERED_HOOKS.items():
        hook = current[hook_]
        n = 0
        for fn in idx.functions:
            if fn.cls is None:
                continue
            for x in walk_body(fn):
                if isinstance(x, ast.Call) and isinstance(x.func, ast.Attribute) and x.func.attr == hook:
                    n += 1
                    site = f"{fn.cls.name}.{fn.name}"
                    if fn.name == hook or fn.name in wrappers:
                        rep.ok("C02.H", {"hook": hook, "caller": site, "call": short(x, 60)})
                    else:
                        rep.bad("C02.H", Finding(
                            PROP, "C02.H", site, norm(x),
                            f"{site} calls the private hook `{short(x, 60)}` directly; only {', '.join(wrappers)}() and the "
                            f"definitions of {hook} itself may, because the hook assumes that {pre}. Reached from here with "
                            "a batched constant it returns an operator whose shape disagrees with its dense value", fn.loc(x)))
        if n < 8:
            rep.error(f"only {n} call sites of {hook} found (expected >= 8)")


def run(idx: ProgramIndex, rep: Report, tier: str, selftest: bool = True):
    rep.extra["explanation"] = (
        "Table agreement between rebuild sites and constructor signatures, resolved per concrete class through the "
        "statically computed MRO: every self.__class__(...)/type(self)(...) call of every method as seen from each of "
        "the 36 operator classes (several hundred (class, site) pairs, including inherited sites the subclass never "
        "overrides) must bind to that class's __init__ and pass its value-bearing flags (flags whose derived attribute is "
        "read outside __init__: upper, dim, batch_repeat, ...), explicitly or through **self._kwargs when the "
        "constructor record (C14) really contains the flag. Plus a stated-belief-vs-use rule for python-scalar operands. "
        "Decides a necessary condition for rewrites (expand, permute, index, scale, transpose, jitter, abs/exp/...) to "
        "denote the same matrix, for every class x rewrite cell of the dispatch table at once. NOT decided: values, "
        "broadcasting arithmetic of constants, argument TYPES at rebuild sites (e.g. a tensor handed to a constructor "
        "that requires operators)."
    )
    rep.assumptions += [
        "a constructor flag is value bearing iff an attribute derived from it in __init__ is read by a method other than "
        "__init__ (reviewed exclusions: " + ", ".join(sorted(NON_VALUE_FLAGS)) + ")",
        "a None default completed inside __init__ from other parameters is an optional operand, not a mode flag",
    ]
    rule_rebuild(idx, rep)
    rule_scalar(idx, rep)
    rule_scalar_dtype(idx, rep)
    rule_hook_layering(idx, rep)
    rule_open_keywords(idx, rep)
    from ..recordmut import report_denotation_container_mutations

    from .side import check_sides

    rep.rule("C02.O", "special-case products of two operators keep the operand order (self on the left in matmul)", floor=15)
    check_sides(idx, rep, PROP, "C02.O")
    rep.rule("C02.D", "a rewrite never mutates a container-valued constructor attribute of the operator it rewrites", floor=1)
    report_denotation_container_mutations(idx, rep, PROP, "C02.D")
    if selftest:
        from ..selftest import run_fixtures

        run_fixtures(rep, PROP)
