"""C04 - solve returns A^{-1} B whichever algorithm is selected (structural clauses).

    L  the left factor of ``solve(right_tensor, left_tensor)`` / ``_inv_matmul`` is applied EXACTLY ONCE on every path
       on which it is given (applied = multiplied from the left, or handed to a delegate that applies it)
    O  triangular kernels are given the orientation of the factor they receive: the ``upper=`` argument of
       torch.linalg.solve_triangular / torch.cholesky_solve / <factor>._cholesky_solve / TriangularLinearOperator(...) /
       CholLinearOperator(...) / KroneckerProductTriangularLinearOperator(...) agrees with the orientation tag of the
       factor under every assignment of the boolean atoms ``upper`` / ``self.upper``
"""
from __future__ import annotations

import ast
from typing import Dict, List, Optional, Set

from ..cfg import CFG
from ..index import AnalysisError, FunctionInfo, ProgramIndex, dotted, norm, short, walk_body
from ..orient import D, T, evaluate, tag_of_bool
from ..report import Finding, Report

PROP = "C04"
LEFT_NAMES = ("left_tensor",)
SCALAR_ATTRS = {"shape", "dim", "ndim", "size", "dtype", "device", "numel", "ndimension", "requires_grad"}


def fname(fn: FunctionInfo) -> str:
    return f"{fn.cls.name}.{fn.name}" if fn.cls else fn.qualname.replace("linear_operator.", "", 1)


def left_events(node_ast: ast.AST, name: str, holders: Optional[Set[str]] = None) -> List[ast.AST]:
    """Applications of the left factor inside one statement / test.  `holders`: locals bound to a tuple / list display that
    contains the factor (solve_tensors = (left, right) if has_left else (right,)); handing such a holder to a call - starred
    or not - hands the factor to that delegate."""
    out: List[ast.AST] = []
    holders = holders or set()
    for x in ast.walk(node_ast):
        if isinstance(x, ast.Call) and holders:
            via = [a for a in x.args if (isinstance(a, ast.Starred) and isinstance(a.value, ast.Name) and a.value.id in holders)
                   or (isinstance(a, ast.Name) and a.id in holders)]
            if via and (dotted(x.func) or "") not in ("len", "isinstance", "tuple", "list"):
                out.append(x)
                continue
        if isinstance(x, ast.BinOp) and isinstance(x.op, ast.MatMult):
            if any(isinstance(y, ast.Name) and y.id == name for y in ast.walk(x.left)):
                out.append(x)
        elif isinstance(x, ast.Call):
            direct = [a for a in x.args if isinstance(a, ast.Name) and a.id == name]
            direct += [k.value for k in x.keywords if isinstance(k.value, ast.Name) and k.value.id == name]
            if direct:
                d = dotted(x.func) or ""
                if d in ("isinstance", "torch.is_tensor", "len", "hasattr", "print", "str", "repr"):
                    continue
                out.append(x)
            elif (isinstance(x.func, ast.Attribute) and isinstance(x.func.value, ast.Name) and x.func.value.id == name
                  and x.func.attr in ("matmul", "mm", "bmm", "__matmul__")):
                out.append(x)
    return out


def rule_left(idx: ProgramIndex, rep: Report):
    rep.rule("C04.L", "the left factor is applied exactly once on every path on which it is given", floor=8)
    defs: List[FunctionInfo] = []
    for c in idx.operator_classes():
        for m in ("solve", "_inv_matmul"):
            fn = c.methods.get(m)
            if fn is not None and any(p in LEFT_NAMES for p in fn.params()):
                defs.append(fn)
    if len(defs) < 8:
        raise AnalysisError(f"only {len(defs)} solve/_inv_matmul definitions with a left factor found (expected >= 8)")
    for fn in defs:
        name = next(p for p in fn.params() if p in LEFT_NAMES)
        cfg = CFG(fn)
        holders: Set[str] = set()
        for n_ in walk_body(fn):
            if isinstance(n_, ast.Assign) and len(n_.targets) == 1 and isinstance(n_.targets[0], ast.Name):
                vals = [n_.value.body, n_.value.orelse] if isinstance(n_.value, ast.IfExp) else [n_.value]
                if any(isinstance(v_, (ast.Tuple, ast.List)) and any(isinstance(e_, ast.Name) and e_.id == name for e_ in v_.elts) for v_ in vals):
                    holders.add(n_.targets[0].id)

        def prune(a: int, b: int, pol: Optional[bool]) -> bool:
            na = cfg.nodes[a]
            if na.kind != "test" or pol is None:
                return False
            if na.label == f"{name} is None":
                return pol is True
            if na.label == f"{name} is not None":
                return pol is False
            return False

        n_paths = 0
        bad: Dict[int, List[int]] = {}
        for path in cfg.acyclic_paths(prune=prune, limit=5000):
            n_paths += 1
            cnt = 0
            for nid in path:
                nd = cfg.nodes[nid]
                if nd.ast is None or nd.kind in ("entry", "exit", "raise", "except"):
                    continue
                a = nd.ast
                if nd.kind == "iter":
                    a = a.iter
                elif nd.kind == "with":
                    continue
                cnt += len(left_events(a, name, holders))
            if cnt != 1 and cnt not in bad:
                bad[cnt] = path
        if n_paths == 0:
            rep.ok("C04.L", {"definition": fname(fn), "paths": 0, "note": "no normal exit (raises)"})
            continue
        if not bad:
            rep.ok("C04.L", {"definition": fname(fn), "left_factor": name, "paths_with_left_factor": n_paths,
                             "applications_per_path": 1})
        for cnt, path in sorted(bad.items()):
            sites = []
            for nid in path:
                nd = cfg.nodes[nid]
                if nd.ast is not None and nd.kind in ("stmt", "test"):
                    for ev in left_events(nd.ast, name, holders):
                        sites.append(f"L{nd.lineno}: {short(ev, 70)}")
            how = "never applied (dropped)" if cnt == 0 else f"applied {cnt} times"
            rep.bad("C04.L", Finding(
                PROP, "C04.L", fname(fn), f"{name} applied {cnt}x: " + " ; ".join(s.split(': ', 1)[1] for s in sites),
                f"{fname(fn)}: on a path where `{name}` is given it is {how}: {'; '.join(sites) or 'no application'} - "
                f"solve must return L A^-1 B with the left factor applied exactly once", fn.loc(),
                {"path": cfg.describe(path)}))


# sinks whose mismatch is excused: (function, what) -> reason
ORIENT_EXCEPTIONS: Dict[tuple, str] = {}


def rule_orientation(idx: ProgramIndex, rep: Report):
    rep.rule("C04.O", "triangular kernels receive the orientation of the factor they are given", floor=40)
    decided = 0
    for fn in idx.functions:
        if isinstance(fn.node, ast.Lambda):
            continue
        src = fn.module.source
        # cheap pre-filter
        seg = ast.get_source_segment(src, fn.node) or ""
        if "upper" not in seg and "solve_triangular" not in seg and "cholesky_solve" not in seg:
            continue
        res = evaluate(idx, fn)
        seen = set()
        for s in res.sinks:
            exp = tag_of_bool(s.expected)
            key = (id(s.node), tuple(sorted(s.sigma.items())))
            if key in seen:
                continue
            seen.add(key)
            sample = {"function": fname(fn), "sink": s.what, "call": short(s.node, 90), "assignment": s.sigma,
                      "upper_argument": exp, "factor_orientation": s.actual}
            if s.actual in (T, D) or exp == T:
                rep.ok("C04.O", {**sample, "verdict": "orientation of the factor unknown / diagonal: no obligation"})
                continue
            decided += 1
            if exp == s.actual:
                rep.ok("C04.O", sample)
            else:
                names = {"L": "lower", "U": "upper"}
                rep.bad("C04.O", Finding(
                    PROP, "C04.O", fname(fn), f"{s.what} receives a factor of the other orientation",
                    f"{fname(fn)}: under {s.sigma or 'every assignment'} the factor passed to {s.what} is "
                    f"{names[s.actual]}-triangular but the call says upper={s.expected}: the kernel reads the wrong "
                    "triangle (solves with this factor are wrong while its dense value is right)", fn.loc(s.node)))
    rep.extra["orientation_sinks_decided"] = decided
    if decided < 20:
        rep.error(f"only {decided} orientation sinks could be decided (expected >= 20): tag rules blind")


SIZE_MARKERS = ("size(", "shape[", "max_cholesky_size", "numel(")


def _size_dispatching(fn: FunctionInfo) -> Optional[str]:
    """The parameter p (default None) of fn whose absence makes the function CHOOSE its algorithm by a size comparison - in
    its own body (if / conditional expression / table) or in a helper of the class whose result is bound to p (the
    decomposition dispatchers: exact below settings.max_cholesky_size, truncated Lanczos above)."""
    dfl = fn.defaults()
    for p in fn.params():
        d = dfl.get(p)
        if not (isinstance(d, ast.Constant) and d.value is None):
            continue
        tested = [n for n in walk_body(fn) if isinstance(n, ast.Compare) and norm(n) in (f"{p} is None", f"{p} is not None")]
        if not tested:
            continue
        # what p is bound to inside the function
        bound = [x.value for x in walk_body(fn) if isinstance(x, ast.Assign) and any(isinstance(t, ast.Name) and t.id == p for t in x.targets)]
        # locals the bound values are computed from (is_small = self.size(-1) <= ...; method = TABLE[is_small])
        seen_names: Set[str] = set()
        for _ in range(3):
            for v in list(bound):
                for x in ast.walk(v):
                    if isinstance(x, ast.Name) and x.id not in seen_names and x.id != p:
                        seen_names.add(x.id)
                        bound += [y.value for y in walk_body(fn) if isinstance(y, ast.Assign)
                                  and any(isinstance(t, ast.Name) and t.id == x.id for t in y.targets)]
        regions: List[ast.AST] = list(bound)
        for v in bound:
            for c in ast.walk(v):
                if isinstance(c, ast.Call) and isinstance(c.func, ast.Attribute) and isinstance(c.func.value, ast.Name) \
                        and c.func.value.id == "self" and fn.cls is not None:
                    h = fn.cls.methods.get(c.func.attr)
                    if h is not None:
                        regions.append(h.node)
        # an if-statement that assigns p in its branches
        for n in walk_body(fn):
            if isinstance(n, ast.If) and any(isinstance(x, ast.Assign) and any(isinstance(t, ast.Name) and t.id == p for t in x.targets)
                                             for b_ in (n.body, n.orelse) for st in b_ for x in ast.walk(st)):
                regions.append(n.test)
        for r in regions:
            for x in ast.walk(r):
                if isinstance(x, (ast.If, ast.IfExp)) and any(k in norm(x.test) for k in SIZE_MARKERS):
                    return p
                if isinstance(x, ast.Compare) and any(k in norm(x) for k in SIZE_MARKERS) and r in bound + [n_.test for n_ in walk_body(fn) if isinstance(n_, ast.If)]:
                    return p
            if isinstance(r, ast.expr) and any(k in norm(r) for k in SIZE_MARKERS) and not isinstance(r, ast.Call):
                return p
    return None


SAME_OBJECT_CONVERSIONS = {"to", "double", "float", "half", "type", "detach", "clone", "evaluate_kernel", "cpu", "cuda", "contiguous"}


def rule_direct_routes(idx: ProgramIndex, rep: Report):
    """A solve-family definition that decomposes `self` must not let the decomposition pick its algorithm by SIZE: calling
    self.diagonalization() / self.root_decomposition() ... without method= where the method resolves, on that class, to a
    size-dispatching definition turns the direct solve into a truncated Lanczos approximation above max_cholesky_size."""
    rep.rule("C04.D", "direct solve routes do not hand the choice of decomposition to a size threshold", floor=20)
    dispatchers = {}
    for fn in idx.operator_base().methods.values():
        p = _size_dispatching(fn)
        if p is not None:
            dispatchers[fn.name] = p
    rep.analysed["size_dispatching_decompositions"] = dict(dispatchers)
    if len(dispatchers) < 1:
        raise AnalysisError(f"size-dispatching decompositions not recognised on the base class (found {sorted(dispatchers)})")
    for c in idx.operator_classes():
        for mname, fn in c.methods.items():
            if not ("solve" in mname or mname in ("_inv_matmul", "inv_matmul")):
                continue
            sites = []
            for n in walk_body(fn):
                if not (isinstance(n, ast.Call) and isinstance(n.func, ast.Attribute) and n.func.attr in dispatchers):
                    continue
                recv = n.func.value
                while isinstance(recv, ast.Call) and isinstance(recv.func, ast.Attribute) and recv.func.attr in SAME_OBJECT_CONVERSIONS:
                    recv = recv.func.value
                if not (isinstance(recv, ast.Name) and recv.id == "self"):
                    continue
                p = dispatchers[n.func.attr]
                if n.args or any(k.arg == p for k in n.keywords):
                    continue
                target = idx.resolve_method(c, n.func.attr)
                if target is not None and _size_dispatching(target) is not None:
                    sites.append(n)
            sample = {"definition": f"{c.name}.{mname}", "size_dispatched_decompositions_of_self": len(sites)}
            if not sites:
                rep.ok("C04.D", sample)
            for n in sites:
                rep.bad("C04.D", Finding(PROP, "C04.D", f"{c.name}.{mname}", norm(n),
                                         f"{c.name}.{mname} decomposes the operator with `{short(n, 60)}`, which on {c.name} resolves to the "
                                         "size-dispatching base definition: above settings.max_cholesky_size the 'direct' solve is a "
                                         "truncated Lanczos approximation, so the answer depends on the algorithm the threshold selects",
                                         fn.loc(n)), sample)


def run(idx: ProgramIndex, rep: Report, tier: str, selftest: bool = True):
    rep.extra["explanation"] = (
        "Two structural necessary conditions of 'solve returns L A^-1 B'. (L) For every solve/_inv_matmul definition "
        "that takes a left factor, all acyclic CFG paths on which the factor is given (branches testing it for None "
        "pruned) are enumerated and the application events of the factor - left multiplication or handing it to a "
        "delegate - are counted: exactly one per path. (O) A finite-domain abstract interpretation assigns orientation "
        "tags (lower / upper / diagonal / unknown) to triangular factors, evaluated under every assignment of the "
        "boolean atoms `upper` and `self.upper`; at every consumer of an orientation (torch.linalg.solve_triangular, "
        "torch.cholesky_solve, _cholesky_solve, TriangularLinearOperator / CholLinearOperator / "
        "KroneckerProductTriangularLinearOperator constructors) a known tag must agree with the upper= argument. "
        "NOT decided: accuracy, tolerance, the CG/Cholesky selection thresholds."
    )
    rep.assumptions += [
        "torch.linalg.cholesky* / psd_safe_cholesky(upper=u) return the u-oriented factor; .mT / _transpose_nonbatch / "
        "transpose(-1,-2) flip it; inverse, dense conversion, batch repetition and block wrapping keep it",
        "class invariants: a (Kronecker)TriangularLinearOperator's matrix has orientation self.upper; the root of a "
        "CholLinearOperator has orientation self.upper; diagonal classes have both",
        "the upper= argument of _cholesky_solve / solve_triangular on a triangular operator names its own orientation",
    ]
    rule_left(idx, rep)
    rule_orientation(idx, rep)
    # ---------------------------------------------------------------- T
    # the iterative route: a CG solve either meets cg_tolerance (measured on the true residual) or warns
    from .c08 import stopping_rules_for

    rep.rule("C04.T", "the CG route stops on the true residual norm, under the tolerance test, and warns otherwise", floor=5)
    stopping_rules_for(idx, rep, PROP, "C04.T")

    # ---------------------------------------------------------------- D
    rule_direct_routes(idx, rep)
    # ---------------------------------------------------------------- S
    # a solve-family definition that takes a specification-bearing parameter (upper, left_tensor ...) reads or forwards it
    from .c06 import rule_spec_params

    rule_spec_params(idx, rep, prop=PROP, rule="C04.S", only=lambda m: "solve" in m or m in ("_inv_matmul", "inv_matmul"), floor=15)

    if selftest:
        from ..selftest import run_fixtures

        run_fixtures(rep, PROP)
