"""C13 - no operation mutates caller-owned tensors or an existing operator's matrix.

Decided by the ownership / may-alias dataflow of :mod:`lo_static.own` over every function of the package:
every in-place write (tensor ``x.op_()`` methods, ``out=`` keywords, subscript stores, augmented assignments,
and the in-place API of operators applied to caller-owned operators) must target storage that the function
owns.  A write whose target may alias a parameter, an attribute of ``self``, a tensor saved on an autograd
ctx or a module global is a violation, except (i) explicit ``out=`` buffers, (ii) the in-place API methods the
property names (``detach_`` / ``requires_grad_``) and (iii) private module-level helpers, whose obligation is
discharged at every call site instead.

Second rule (shared with C12): attributes that ``__init__`` derives from constructor parameters (the
operator's denotation) are never re-assigned outside ``__init__``.
"""
from __future__ import annotations

import ast
from typing import Dict, List

from ..ctor import ctor_record
from ..index import AnalysisError, ProgramIndex, norm, short, walk_body
from ..own import OBJ, Engine, Sink, is_private_helper
from ..report import Finding, Report

PROP = "C13"

# per-symbol suppressions (function qualname suffix, sink, target text) -> reason.  Expected to stay empty.
SUPPRESS: Dict[tuple, str] = {}


def _origin_text(o) -> str:
    if o[0] == "P":
        owner = o[1].rsplit(".", 1)[-1]
        return f"parameter `{o[2]}` of {owner}" + (" (tensors held by it)" if len(o) > 3 and o[3] == "o" else "")
    if o[0] == "SELF":
        return "an attribute of self (operator-owned storage)"
    if o[0] == "CTX":
        return "a tensor saved on the autograd ctx"
    if o[0] == "GLOBAL":
        return f"module global `{o[1]}`"
    return str(o)


def fname(fn) -> str:
    return fn.qualname.replace("linear_operator.", "", 1)


def census(idx: ProgramIndex) -> Dict[str, int]:
    """Syntactic in-place candidates, counted independently of the dataflow engine (floor / blindness check)."""
    c = {"inplace_method_calls": 0, "out_keywords": 0, "subscript_stores": 0, "augmented_assignments": 0}
    for fn in idx.functions:
        for n in walk_body(fn):
            if isinstance(n, ast.Call):
                if isinstance(n.func, ast.Attribute):
                    m = n.func.attr
                    if m.endswith("_") and not m.startswith("_") and not m.endswith("__"):
                        c["inplace_method_calls"] += 1
                if any(k.arg == "out" for k in n.keywords):
                    c["out_keywords"] += 1
            elif isinstance(n, ast.Assign):
                for t in n.targets:
                    for x in ast.walk(t):
                        if isinstance(x, ast.Subscript) and isinstance(x.ctx, ast.Store):
                            c["subscript_stores"] += 1
            elif isinstance(n, ast.AugAssign):
                c["augmented_assignments"] += 1
    return c


def write_findings_for(idx: ProgramIndex, rep: Report, prop: str, rule: str, pred, prefix: str = "") -> int:
    """Re-emit, under another property's rule id, the in-place-write findings (rule W) selected by pred(finding).  Used by
    C12 (writes into operator-held / cached storage make later answers depend on this call) and C01 (a product kernel that
    overwrites its operand)."""
    sub = Report(PROP, "quick", rep.root)
    sub.quiet = True
    run(idx, sub, "quick", selftest=False, only_w=True)
    st = sub.rules.get("C13.W")
    n = 0
    known = {k for k in sub.known_keys()} if hasattr(sub, "known_keys") else set()
    for f in sub.findings:
        if f.rule != "C13.W" or not pred(f):
            continue
        n += 1
        rep.bad(rule, Finding(prop, rule, f.function, f.construct, (prefix + f.message), f.loc))
    rep.count(rule, max((st.instances if st else 0) - n, 0))
    for e in sub.errors:
        rep.error(f"ownership analysis: {e}")
    return n


def run(idx: ProgramIndex, rep: Report, tier: str, selftest: bool = True, only_w: bool = False):
    rep.extra["explanation"] = (
        "Interprocedural ownership / may-alias analysis (forward dataflow over every statement of all functions and "
        "lambdas of the package, union join, loops to fixpoint; callee summaries RET = what the result may alias and "
        "MUT = which parameters a private helper writes, computed as a whole-package fixpoint; calls resolved through "
        "imports, the statically computed MRO and class-hierarchy analysis; values carry two facets - storage shared "
        "if the value is a tensor, tensors held if it is an operator - and light type inference from the package's "
        "jaxtyping annotations, isinstance/is_tensor guards and tensor-only method use). Every syntactic in-place "
        "site (x.op_(), out=, x[i] = v, x op= v, operator requires_grad_/detach_) is classified: the obligation is "
        "that its target has EMPTY provenance (locally allocated / cloned). The verdict holds for every layout of "
        "the inputs (contiguous, expanded, transposed, shared storage), because contiguous()/reshape()/to()/expand() "
        "are never assumed to copy, and for every path (early exits included), which is what the tests - that never "
        "look at their inputs after the call - cannot reach. Nothing is executed."
    )
    rep.assumptions += [
        "A1: the classification of the torch API in lo_static/torch_tables.py (fresh / view / may-return-self / in-place)",
        "A2: a caller-supplied closure (matmul_closure, preconditioner, covar_func) returns a tensor that is fresh or "
        "aliases its argument; it does not hand out storage it retains",
        "A3: no reflection beyond getattr(cls, TABLE[func]) in __torch_function__, the deprecation shim and "
        "getattr(torch.sparse, name)",
        "A4: torch.autograd.Function.apply returns new tensor objects (that may share storage with what forward returns)",
        "A5: a name on which a tensor-only method is used holds tensors throughout its function; parameters of "
        "Function.backward are tensors; jaxtyping annotations are truthful about Tensor vs LinearOperator",
        "A6: indexing an untyped arithmetic result yields computed items, not views of its operands",
    ]
    eng = Engine(idx)
    eng.run()
    sinks = eng.all_sinks()
    cen = census(idx)
    rep.analysed.update({
        "functions_analysed": len(idx.functions), "fixpoint_iterations": eng.iterations,
        "function_analyses_run": eng.analysed_total, "call_sites": eng.n_calls_total // max(eng.iterations, 1),
        "syntactic_inplace_census": cen,
        "unclassified_api_names": dict(sorted(eng.unclassified.items(), key=lambda kv: -kv[1])[:40]),
        "private_helpers_with_MUT": {q.replace("linear_operator.", ""): s.mut for q, s in eng.summaries.items() if s.mut},
    })
    total_sites = sum(cen.values())
    rep.rule("C13.W", "every in-place write targets storage the function owns", floor=250)
    rep.rule("C13.D", "denotation attributes are never re-assigned outside __init__", floor=30)

    flagged_nodes = {}
    for s in sinks:
        flagged_nodes.setdefault((s.fn.qualname, id(s.node)), []).append(s)
    # discharged obligations = census sites without a flagged sink
    n_flagged_sites = len(flagged_nodes)
    for _ in range(max(total_sites - n_flagged_sites, 0)):
        pass
    rep.rules["C13.W"].instances += max(total_sites - n_flagged_sites, 0)
    rep.rules["C13.W"].discharged += max(total_sites - n_flagged_sites, 0)
    rep.rules["C13.W"].keys.update(f"site#{i}" for i in range(max(total_sites - n_flagged_sites, 0)))
    # a few discharged samples: in-place sites whose target is owned
    shown = 0
    for fn in idx.functions:
        if shown >= 6:
            break
        for n in walk_body(fn):
            if (isinstance(n, ast.Call) and isinstance(n.func, ast.Attribute) and n.func.attr.endswith("_")
                    and not n.func.attr.startswith("_") and (fn.qualname, id(n)) not in flagged_nodes
                    and fn.file.endswith(("linear_cg.py", "cholesky.py", "lanczos.py", "_pivoted_cholesky.py"))):
                rep.rules["C13.W"].samples.append({"function": fname(fn), "write": short(n, 100),
                                                   "target_provenance": "empty (owned)", "loc": fn.loc(n)})
                shown += 1
                break

    for s in sinks:
        fn = s.fn
        key = (fname(fn), s.what, s.target_text)
        sup = next((r for (q, w, t), r in SUPPRESS.items() if fname(fn).endswith(q) and w == s.what and t == s.target_text), None)
        origins = sorted({_origin_text(o) for o, k in s.target.prov})
        kinds = sorted({k for _, k in s.target.prov})
        # the construct names WHAT is written and WHOSE storage it may be (provenance), not the local spelling of the target:
        # renaming a local must not turn a recorded finding into a new one
        construct = f"{s.what} on what may be {' / '.join(origins)}"
        if s.via_call:
            construct = f"{s.what}: what may be {' / '.join(origins)}"
        sample = {"function": fname(fn), "write": construct, "provenance": origins, "kinds": kinds, "loc": fn.loc(s.node)}
        if sup:
            rep.ok("C13.W", {**sample, "suppressed": sup})
            continue
        how = "the very tensor object" if OBJ in kinds else "storage shared with"
        msg = (f"in-place write ({s.kind}) `{short(s.node, 90)}`: the target `{s.target_text}` may be {how} "
               f"{'; '.join(origins)} - the caller's tensor / the operator's matrix is modified")
        rep.bad("C13.W", Finding(PROP, "C13.W", fname(fn), construct, msg, fn.loc(s.node),
                                 {"provenance": origins, "kinds": kinds, "via": s.via_call}), sample)

    if total_sites < 250:
        rep.error(f"only {total_sites} syntactic in-place sites found (expected >= 250): census blind")

    # ---- C13.D: denotation attributes -------------------------------------------------------------------------
    for c in idx.operator_classes():
        rec = ctor_record(idx, c)
        if rec.init is None:
            continue
        denot = {a for a, src in rec.attr_sources.items() if src}
        for mname, fn in c.methods.items():
            if mname == "__init__":
                continue
            for n in walk_body(fn):
                targets = []
                if isinstance(n, ast.Assign):
                    targets = n.targets
                elif isinstance(n, (ast.AugAssign, ast.AnnAssign)):
                    targets = [n.target]
                for t in targets:
                    for x in ast.walk(t):
                        if (isinstance(x, ast.Attribute) and isinstance(x.ctx, ast.Store) and isinstance(x.value, ast.Name)
                                and x.value.id == (fn.params()[0] if fn.params() else "self")
                                and not fn.is_staticmethod() and not fn.is_classmethod() and x.attr in denot):
                            rep.bad("C13.D", Finding(
                                PROP, "C13.D", f"{c.name}.{mname}", norm(n),
                                f"{c.name}.{mname} re-assigns `self.{x.attr}`, which __init__ derives from constructor "
                                f"parameter(s) {sorted(rec.attr_sources[x.attr])}: the matrix an existing operator "
                                "represents changes", fn.loc(n)))
        for a in sorted(denot):
            rep.ok("C13.D", {"class": c.name, "attribute": a, "from": sorted(rec.attr_sources[a])})
    # the findings above were counted as instances by rep.bad; discharged ones by rep.ok (one per attribute)

    from ..recordmut import report_record_mutations

    report_record_mutations(idx, rep, PROP, "C13.R")
    from ..recordmut import report_denotation_container_mutations

    report_denotation_container_mutations(idx, rep, PROP, "C13.D")
    if selftest:
        from ..selftest import run_fixtures

        run_fixtures(rep, PROP)
