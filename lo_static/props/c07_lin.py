"""C07.L / C07.P9 - the backward of an autograd Function is a vector-Jacobian product: LINEAR in every upstream
gradient, and the contributions of distinct upstream gradients add up independently.

The repository's gradient tests call ``.sum().backward()`` (upstream gradient = 1) on one output at a time, so a
backward that is quadratic in the upstream gradient (g*g == g for g == 1), that ignores it (1 * x == x), or that only
honours one of two upstream gradients at a time passes all of them.

L0  every non-None entry of a returned gradient tuple value-depends on at least one upstream gradient, and every
    (named) upstream gradient reaches at least one returned entry (reaching definitions, value reads only).
L2  degree analysis: abstract every value to its polynomial degree in one upstream gradient g (0, 1, >=2, unknown).
    Additive / shape / linear ops keep the degree, bilinear ops (``*``, ``@``, mul, matmul, ``_bilinear_derivative`` -
    pairwise on the segments of a ``torch.cat`` when both operands are concatenations of the same length) add degrees,
    everything not in the tables is *unknown*.  A bilinear site whose two operands both have a known degree >= 1 in the
    same g is reported.  Unknown never reports, so the rule cannot fire on an op it does not understand.
P9  a value use of upstream gradient g_i that can only be reached through the "g_j is absent" branch of a presence test
    of another upstream gradient g_j (the ``elif`` shape) while nothing reachable through the "present" branch uses
    g_i: when both are present, g_i's contribution is dropped.
"""
from __future__ import annotations

import ast
from typing import Dict, List, Optional, Set, Tuple

import networkx as nx

from ..deps import META_ATTRS, ReachingDefs, value_reads
from ..index import ClassInfo, FunctionInfo, ProgramIndex, dotted, walk_body
from ..report import Finding, Report

PROP = "C07"

LINEAR_ATTRS = {"mT", "mH", "T", "H", "real", "data"}
LINEAR_METHODS = {
    "unsqueeze", "unsqueeze_", "squeeze", "squeeze_", "view", "view_as", "reshape", "permute", "contiguous", "transpose",
    "transpose_", "t", "sum", "mean", "narrow", "expand", "expand_as", "clone", "neg", "neg_", "to", "type_as", "float",
    "double", "half", "select", "flatten", "diag_embed", "diagonal", "index_select", "detach", "repeat", "movedim",
    "chunk", "split", "unbind", "cumsum", "tril", "triu", "type", "cpu", "cuda", "requires_grad_", "flip", "roll",
    "__getitem__", "gather", "masked_select", "conj", "clone", "unfold",
}
ADD_METHODS = {"add", "add_", "sub", "sub_", "__add__", "__sub__", "__radd__", "__rsub__"}
MUL_METHODS = {"mul", "mul_", "matmul", "__matmul__", "__mul__", "__rmul__", "bmm", "mm", "mv", "dot", "__rmatmul__",
               "_matmul", "_t_matmul", "rmatmul"}
DIV_METHODS = {"div", "div_", "true_divide", "__truediv__"}
TORCH_ZERO = {"zeros", "ones", "zeros_like", "ones_like", "eye", "empty", "empty_like", "full", "full_like", "arange",
              "tensor", "Size", "is_tensor", "numel"}
TORCH_LINEAR = {"sum", "mean", "diag_embed", "diagonal", "transpose", "squeeze", "unsqueeze", "neg", "tril", "triu",
                "flatten", "reshape", "clone", "narrow", "index_select", "movedim", "permute", "flip", "cumsum"}
TORCH_MUL = {"mul", "matmul", "bmm", "mm", "mv", "dot"}
TORCH_ADD = {"add", "sub"}

UNK = None  # unknown degree


def _cap(d: int) -> int:
    return 2 if d >= 2 else d


def collapse(v):
    """Degree of a collection / concatenation = the largest degree of a member (unknown if any member is unknown)."""
    if isinstance(v, tuple):
        vals = [collapse(x) for x in v[1]]
        if any(x is UNK for x in vals):
            return UNK
        return max(vals) if vals else 0
    return v


def join(a, b):
    if isinstance(a, tuple) and isinstance(b, tuple) and a[0] == b[0] and len(a[1]) == len(b[1]):
        return (a[0], tuple(join(x, y) for x, y in zip(a[1], b[1])))
    a, b = collapse(a), collapse(b)
    if a is UNK or b is UNK:
        return UNK
    return max(a, b)


def is_presence_test(e: ast.AST, names: Set[str]) -> Optional[Tuple[str, bool]]:
    """``g is None`` -> (g, True: the TRUE branch is the absent one); ``g is not None`` -> (g, False); through ``not``."""
    if isinstance(e, ast.UnaryOp) and isinstance(e.op, ast.Not):
        r = is_presence_test(e.operand, names)
        return (r[0], not r[1]) if r else None
    if isinstance(e, ast.Compare) and len(e.ops) == 1 and isinstance(e.left, ast.Name) and e.left.id in names \
            and isinstance(e.comparators[0], ast.Constant) and e.comparators[0].value is None:
        if isinstance(e.ops[0], ast.Is):
            return (e.left.id, True)
        if isinstance(e.ops[0], ast.IsNot):
            return (e.left.id, False)
    return None


def value_uses(a: ast.AST, name: str) -> bool:
    """Does the statement / expression read the VALUE of `name` (metadata accesses and None-tests excluded)?"""
    stack = [a]
    while stack:
        x = stack.pop()
        if isinstance(x, (ast.FunctionDef, ast.AsyncFunctionDef, ast.Lambda, ast.ClassDef)) and x is not a:
            continue
        if isinstance(x, ast.Attribute) and x.attr in META_ATTRS:
            continue
        if isinstance(x, ast.Compare) and is_presence_test(x, {name}):
            continue
        if isinstance(x, ast.Name) and x.id == name and isinstance(x.ctx, ast.Load):
            return True
        stack.extend(ast.iter_child_nodes(x))
    return False


class Degree:
    """Degree of every value of one backward function in ONE upstream gradient g."""

    def __init__(self, fn: FunctionInfo, rd: ReachingDefs, g: str, params: List[str]):
        self.fn, self.rd, self.g, self.params = fn, rd, g, set(params)
        self.cfg = rd.cfg
        self.memo: Dict[tuple, object] = {}
        self.busy: Set[tuple] = set()
        self.sites: Dict[Tuple[int, int], dict] = {}
        self._entry_cache: Dict[Tuple[str, int], bool] = {}

    # ---------------------------------------------------------------- names
    def _entry_reaches(self, name: str, nid: int) -> bool:
        """Can the value the parameter had on entry still be in `name` at node nid (no strong redefinition on some path)?"""
        k = (name, nid)
        if k not in self._entry_cache:
            strong = {m for m, ds in self.rd.defs.items() if any(n == name and s for n, _, s in ds)}
            if not strong:
                self._entry_cache[k] = True
            else:
                h = self.cfg.g.copy()
                h.remove_nodes_from([m for m in strong if m != nid])
                self._entry_cache[k] = nid in h and self.cfg.entry in h and nx.has_path(h, self.cfg.entry, nid)
        return self._entry_cache[k]

    def name(self, nm: str, nid: int):
        cands = self.rd.IN.get(nid, {}).get(nm, frozenset())
        out = None
        first = True
        if nm in self.params and self._entry_reaches(nm, nid):
            out, first = (1 if nm == self.g else 0), False
        for (m, i) in sorted(cands):
            d = self.definition(m, i)
            out = d if first else join(out, d)
            first = False
        if first:
            return 0  # free name: global / module / closure constant
        return out

    def definition(self, m: int, i: int):
        k = (m, i)
        if k in self.memo:
            return self.memo[k]
        if k in self.busy:
            return 0  # least fixpoint through loops: never raises a degree by itself
        self.busy.add(k)
        try:
            d = self._definition(m, i)
        finally:
            self.busy.discard(k)
        self.memo[k] = d
        return d

    def _definition(self, m: int, i: int):
        name, readset, strong = self.rd.defs[m][i]
        node = self.cfg.nodes[m]
        a = node.ast
        if node.kind == "iter" and isinstance(a, ast.For):
            return collapse(self.expr(a.iter, m))
        for st in ([a] if not isinstance(a, ast.stmt) else [a]):
            if isinstance(st, ast.Assign):
                for t in st.targets:
                    if isinstance(t, ast.Name) and t.id == name:
                        return self.expr(st.value, m)
                    if isinstance(t, (ast.Tuple, ast.List)):
                        names = [e.id if isinstance(e, ast.Name) else (e.value.id if isinstance(e, ast.Starred) and isinstance(e.value, ast.Name) else None) for e in t.elts]
                        if name in names:
                            if isinstance(st.value, (ast.Tuple, ast.List)) and len(st.value.elts) == len(t.elts) \
                                    and not any(isinstance(e, ast.Starred) for e in list(t.elts) + list(st.value.elts)):
                                return self.expr(st.value.elts[names.index(name)], m)
                            return collapse(self.expr(st.value, m))
                    if isinstance(t, (ast.Subscript, ast.Attribute)) and _root(t) == name:
                        return join(self.name(name, m), self.expr(st.value, m))
            if isinstance(st, ast.AugAssign) and _root(st.target) == name:
                prev = self.name(name, m) if isinstance(st.target, ast.Name) else self.name(name, m)
                return self.binop(st.op, prev, self.expr(st.value, m), st, m)
            if isinstance(st, ast.AnnAssign) and st.value is not None and isinstance(st.target, ast.Name) and st.target.id == name:
                return self.expr(st.value, m)
            if isinstance(st, ast.Expr):
                return self._weak(st.value, name, m)
            if isinstance(st, (ast.Assign, ast.Return)) and st.value is not None:
                # an in-place call nested in a larger statement:  y = x.mul_(g)
                return self._weak(st.value, name, m)
        return UNK if self._touches(readset, m) else 0

    def _weak(self, e: ast.AST, name: str, m: int):
        """Degree of `name` after the in-place call(s) on it inside expression e."""
        best = None
        for c in ast.walk(e):
            if isinstance(c, ast.Call) and isinstance(c.func, ast.Attribute) and _view_root(c.func.value) == name \
                    and (c.func.attr.endswith("_") or c.func.attr in ("append", "extend", "insert")):
                # the outermost in-place call on the chain carries the whole effect
                if best is None or any(x is best for x in ast.walk(c)):
                    best = c
            if isinstance(c, ast.Call):
                for kw in c.keywords:
                    if kw.arg == "out" and _root(kw.value) == name:
                        return join(self.name(name, m), self.expr(c, m))
        if best is not None:
            return self.expr(best, m)
        if any(isinstance(c, ast.Call) and isinstance(c.func, ast.Attribute) and c.func.attr.endswith("_") and _root(c.func.value) == name
               and _view_root(c.func.value) is None for c in ast.walk(e)):
            # x.mul(a).mul_(b): the in-place call acts on the fresh result of an out-of-place call, x itself is unchanged
            return self.name(name, m)
        return UNK if self._touches(value_reads(e), m) else self.name(name, m)

    def _touches(self, names, m: int) -> bool:
        return self.g in self.rd.closure(m, [n for n in names])

    # ---------------------------------------------------------------- expressions
    def mul(self, a, b, site: ast.AST, m: int, pairwise: bool = False):
        if pairwise and isinstance(a, tuple) and isinstance(b, tuple) and a[0] == b[0] == "cat" and len(a[1]) == len(b[1]):
            return ("cat", tuple(self.mul(x, y, site, m) for x, y in zip(a[1], b[1])))
        if isinstance(a, tuple) and not isinstance(b, tuple) and collapse(b) == 0:
            return a
        if isinstance(b, tuple) and not isinstance(a, tuple) and collapse(a) == 0:
            return b
        a, b = collapse(a), collapse(b)
        if a is UNK or b is UNK:
            return UNK
        if a >= 1 and b >= 1:
            key = (getattr(site, "lineno", 0), getattr(site, "col_offset", 0))
            self.sites.setdefault(key, {"node": site, "cfg": m})
        return _cap(a + b)

    def binop(self, op: ast.operator, a, b, site: ast.AST, m: int):
        if isinstance(op, (ast.Add, ast.Sub)):
            return join(a, b)
        if isinstance(op, (ast.Mult, ast.MatMult)):
            return self.mul(a, b, site, m)
        if isinstance(op, (ast.Div, ast.FloorDiv)):
            return a if collapse(b) == 0 else UNK
        if isinstance(op, ast.Pow):
            ca, cb = collapse(a), collapse(b)
            if ca == 0 and cb == 0:
                return 0
            return UNK
        return UNK if (collapse(a) != 0 or collapse(b) != 0) else 0

    def expr(self, e: ast.AST, m: int):
        if isinstance(e, ast.Constant):
            return 0
        if isinstance(e, ast.Name):
            return self.name(e.id, m)
        if isinstance(e, ast.Starred):
            return self.expr(e.value, m)
        if isinstance(e, ast.Attribute):
            if e.attr in META_ATTRS:
                return 0
            d = dotted(e)
            if d and d.split(".")[0] == "ctx":
                return 0
            if e.attr in LINEAR_ATTRS:
                return self.expr(e.value, m)
            return self._fallback(e, m)
        if isinstance(e, ast.Subscript):
            if collapse(self.expr(e.slice, m)) not in (0,):
                return UNK
            v = self.expr(e.value, m)
            return collapse(v)
        if isinstance(e, ast.Slice):
            parts = [self.expr(x, m) for x in (e.lower, e.upper, e.step) if x is not None]
            return 0 if all(collapse(p) == 0 for p in parts) else UNK
        if isinstance(e, ast.UnaryOp):
            if isinstance(e.op, ast.Not):
                return 0
            return self.expr(e.operand, m)
        if isinstance(e, (ast.Compare, ast.BoolOp)):
            return 0
        if isinstance(e, ast.BinOp):
            if isinstance(e.op, ast.Mult) and (isinstance(e.left, (ast.List, ast.Tuple)) or isinstance(e.right, (ast.List, ast.Tuple))):
                return collapse(self.expr(e.left, m)) if isinstance(e.left, (ast.List, ast.Tuple)) else collapse(self.expr(e.right, m))
            if isinstance(e.op, ast.Pow) and isinstance(e.right, ast.Constant) and isinstance(e.right.value, int):
                base = collapse(self.expr(e.left, m))
                if base is UNK:
                    return UNK
                if e.right.value == 1:
                    return base
                if e.right.value >= 2 and base >= 1:
                    return self.mul(base, base, e, m)
                return 0 if base == 0 else UNK
            return self.binop(e.op, self.expr(e.left, m), self.expr(e.right, m), e, m)
        if isinstance(e, ast.IfExp):
            return join(self.expr(e.body, m), self.expr(e.orelse, m))
        if isinstance(e, (ast.List, ast.Tuple)):
            return ("list", tuple(collapse(self.expr(x, m)) for x in e.elts))
        if isinstance(e, ast.Call):
            return self.call(e, m)
        return self._fallback(e, m)

    def _fallback(self, e: ast.AST, m: int):
        return UNK if self._touches(value_reads(e), m) else 0

    def _args_zero(self, args, m: int) -> bool:
        return all(collapse(self.expr(a, m)) == 0 for a in args)

    def call(self, e: ast.Call, m: int):
        f = e.func
        kwvals = [k.value for k in e.keywords]
        if isinstance(f, ast.Attribute):
            d = dotted(f) or ""
            head = d.split(".")[0]
            meth = f.attr
            if head == "torch" and d.count(".") >= 1 and not isinstance(f.value, ast.Call):
                return self.torch_call(e, meth, m)
            if meth in META_ATTRS or meth in ("item", "tolist", "nonzero", "any", "all", "isnan", "isinf", "ne", "eq", "lt", "gt",
                                              "le", "ge", "bool", "long", "int", "argmax", "argmin", "sign"):
                return 0
            recv = self.expr(f.value, m)
            if meth == "_bilinear_derivative" and len(e.args) >= 2:
                bargs = e.args[1:] if (len(e.args) >= 3 and isinstance(e.args[0], ast.Name) and e.args[0].id == "self") else e.args
                return collapse(self.mul(self.expr(bargs[0], m), self.expr(bargs[1], m), e, m, pairwise=True))
            if meth in LINEAR_METHODS:
                if not self._args_zero(list(e.args) + kwvals, m):
                    return UNK
                return recv if isinstance(recv, tuple) and recv[0] == "cat" and meth in ("contiguous", "clone", "neg", "neg_", "to", "type_as", "detach") else collapse(recv)
            if meth in ADD_METHODS and e.args:
                other = self.expr(e.args[0], m)
                for k in e.keywords:
                    if k.arg == "alpha":
                        other = self.mul(other, self.expr(k.value, m), e, m)
                return join(recv, other)
            if meth in MUL_METHODS and e.args:
                return self.mul(recv, self.expr(e.args[0], m), e, m)
            if meth in DIV_METHODS and e.args:
                return recv if self._args_zero(e.args, m) else UNK
            if meth in ("square", "square_"):
                r = collapse(recv)
                return UNK if r is UNK else (self.mul(r, r, e, m) if r >= 1 else 0)
            if meth in ("pow", "pow_") and e.args and isinstance(e.args[0], ast.Constant) and isinstance(e.args[0].value, int):
                r = collapse(recv)
                if r is UNK:
                    return UNK
                if e.args[0].value == 1:
                    return r
                return self.mul(r, r, e, m) if (r >= 1 and e.args[0].value >= 2) else (0 if r == 0 else UNK)
            if meth in ("masked_fill", "masked_fill_") and len(e.args) == 2:
                return join(recv, self.expr(e.args[1], m)) if self._args_zero(e.args[:1], m) else UNK
            if meth in ("addcmul", "addcmul_") and len(e.args) >= 2:
                return join(recv, self.mul(self.expr(e.args[0], m), self.expr(e.args[1], m), e, m))
            if meth in ("append", "extend", "insert") and e.args:
                return join(collapse(recv), collapse(self.expr(e.args[-1], m)))
            if meth in ("copy_",) and e.args:
                return collapse(self.expr(e.args[0], m))
            if meth in ("zero_", "fill_") :
                return 0 if self._args_zero(e.args, m) else UNK
            return self._fallback(e, m)
        if isinstance(f, ast.Name):
            if f.id in ("list", "tuple") and len(e.args) == 1:
                return collapse(self.expr(e.args[0], m))
            if f.id in ("len", "range", "isinstance", "int", "bool", "any", "all", "hasattr", "getattr"):
                return 0
            if f.id in ("sum",) and e.args:
                return collapse(self.expr(e.args[0], m))
        return self._fallback(e, m)

    def torch_call(self, e: ast.Call, name: str, m: int):
        args = list(e.args)
        if name in TORCH_ZERO:
            return 0
        if name in ("cat", "stack", "hstack", "vstack") and args:
            v = self.expr(args[0], m)
            rest = args[1:] + [k.value for k in e.keywords]
            if not self._args_zero(rest, m):
                return UNK
            if isinstance(v, tuple) and v[0] == "list" and name == "cat":
                return ("cat", v[1])
            return collapse(v)
        if name in TORCH_MUL and len(args) >= 2:
            return self.mul(self.expr(args[0], m), self.expr(args[1], m), e, m)
        if name in TORCH_ADD and len(args) >= 2:
            other = self.expr(args[1], m)
            for k in e.keywords:
                if k.arg == "alpha":
                    other = self.mul(other, self.expr(k.value, m), e, m)
            return join(self.expr(args[0], m), other)
        if name in TORCH_LINEAR and args:
            if not self._args_zero(args[1:] + [k.value for k in e.keywords], m):
                return UNK
            return collapse(self.expr(args[0], m))
        if name in ("div", "true_divide") and len(args) >= 2:
            return collapse(self.expr(args[0], m)) if self._args_zero(args[1:], m) else UNK
        if name == "einsum" and len(args) == 3:
            return self.mul(self.expr(args[1], m), self.expr(args[2], m), e, m)
        if name == "where" and len(args) == 3:
            return join(self.expr(args[1], m), self.expr(args[2], m)) if self._args_zero(args[:1], m) else UNK
        return self._fallback(e, m)


def _root(e: ast.AST) -> Optional[str]:
    while isinstance(e, (ast.Attribute, ast.Subscript, ast.Starred)):
        e = e.value
    if isinstance(e, ast.Call) and isinstance(e.func, ast.Attribute):
        return _root(e.func.value)
    return e.id if isinstance(e, ast.Name) else None


VIEW_METHODS = {"view", "view_as", "narrow", "unsqueeze", "squeeze", "transpose", "permute", "expand", "expand_as", "select",
                "diagonal", "t", "unbind", "chunk", "split", "detach", "reshape", "contiguous", "flatten", "movedim", "unfold"}


def _view_root(e: ast.AST) -> Optional[str]:
    """Root name of a receiver chain that may still share storage with it (views, in-place methods, subscripts)."""
    while True:
        if isinstance(e, (ast.Attribute, ast.Subscript, ast.Starred)):
            e = e.value
        elif isinstance(e, ast.Call) and isinstance(e.func, ast.Attribute) and (e.func.attr in VIEW_METHODS or e.func.attr.endswith("_")):
            e = e.func.value
        else:
            break
    return e.id if isinstance(e, ast.Name) else None


# ------------------------------------------------------------------------------------------------ leaves of a return
def _assigns_none(st: Optional[ast.AST], name: str) -> bool:
    if not isinstance(st, ast.Assign):
        return False
    v = st.value
    none_list = isinstance(v, ast.BinOp) and isinstance(v.op, ast.Mult) and any(
        isinstance(x, (ast.List, ast.Tuple)) and all(isinstance(y, ast.Constant) and y.value is None for y in x.elts) for x in (v.left, v.right))
    if not ((isinstance(v, ast.Constant) and v.value is None) or none_list):
        return False
    return any(isinstance(t, ast.Name) and t.id == name for t in st.targets)


def return_leaves(fn: FunctionInfo, rd: ReachingDefs, r: ast.Return) -> List[ast.AST]:
    nid = rd.node_of(r)
    out: List[ast.AST] = []

    def single_def_value(name: str, at: int) -> Optional[Tuple[ast.AST, int]]:
        cands = rd.IN.get(at, {}).get(name, frozenset())
        if len(cands) != 1:
            return None
        (m, i), = cands
        a = rd.cfg.nodes[m].ast
        if isinstance(a, ast.Assign) and len(a.targets) == 1 and isinstance(a.targets[0], ast.Name) and a.targets[0].id == name:
            return a.value, m
        return None

    def go(e: ast.AST, at: int, depth: int) -> None:
        if isinstance(e, ast.Constant) and e.value is None:
            return
        if isinstance(e, (ast.List, ast.Tuple)):
            for x in e.elts:
                go(x, at, depth)
            return
        if isinstance(e, ast.Starred):
            return go(e.value, at, depth)
        if isinstance(e, ast.BinOp) and isinstance(e.op, ast.Add):
            go(e.left, at, depth)
            go(e.right, at, depth)
            return
        if isinstance(e, ast.BinOp) and isinstance(e.op, ast.Mult) and any(
                isinstance(s, (ast.List, ast.Tuple)) and all(isinstance(x, ast.Constant) and x.value is None for x in s.elts)
                for s in (e.left, e.right)):
            return
        if isinstance(e, ast.Call) and isinstance(e.func, ast.Name) and e.func.id in ("list", "tuple") and len(e.args) == 1:
            return go(e.args[0], at, depth)
        if isinstance(e, ast.Name) and depth < 4:
            sd = single_def_value(e.id, at)
            if sd is not None and isinstance(sd[0], (ast.List, ast.Tuple, ast.BinOp)) or (
                    sd is not None and isinstance(sd[0], ast.Call) and isinstance(sd[0].func, ast.Name) and sd[0].func.id in ("list", "tuple")):
                return go(sd[0], sd[1], depth + 1)
        if isinstance(e, ast.Name):
            # a name that can only hold None here (rhs_grad = None on the early-return path) is a None entry
            cands = rd.IN.get(at, {}).get(e.id, frozenset())
            if cands and all(_assigns_none(rd.cfg.nodes[m2].ast, e.id) for (m2, _i) in cands):
                return
        out.append((e, at))

    if r.value is not None and nid is not None:
        go(r.value, nid, 0)
    return out


# ------------------------------------------------------------------------------------------------ driver
def check_linearity(idx: ProgramIndex, rep: Report, classes: List[ClassInfo], rule_l: str = "C07.L", rule_i: str = "C07.P9") -> Tuple[int, int]:
    n_l = n_i = 0
    for c in classes:
        fn = c.methods.get("backward")
        if fn is None:
            continue
        a = fn.node.args
        params = [x.arg for x in a.posonlyargs + a.args] + ([a.vararg.arg] if a.vararg else [])
        grads = [p for p in params[1:] if not p.startswith("_")]
        if not grads:
            continue
        who = f"{c.name}.backward"
        try:
            from ..inline import inline_helpers

            fn, _inl = inline_helpers(idx, fn)  # same-module helpers are analysed as part of the body
        except Exception:  # pragma: no cover - an un-inlinable shape is analysed as written
            pass
        rd = ReachingDefs(fn, reads=value_reads)
        returns = [r for r in walk_body(fn) if isinstance(r, ast.Return) and r.value is not None]
        # ---- L0: dependence of the returned entries
        reached: Set[str] = set()
        # a nested reverse pass (x.backward(gradient=g), torch.autograd.grad(..., grad_outputs=g)) deposits its result in
        # the `.grad` attributes: entries read from `.grad` depend on whatever that call was given
        through_autograd: Set[str] = set()
        for x in walk_body(fn):
            if isinstance(x, ast.Call) and isinstance(x.func, ast.Attribute) and (
                    x.func.attr == "backward" or (dotted(x.func) or "").startswith("torch.autograd.")):
                at0 = rd.node_of(x)
                if at0 is not None:
                    names = set()
                    for v in list(x.args) + [k.value for k in x.keywords]:
                        names |= value_reads(v)
                    through_autograd |= {g for g in grads if g in rd.closure(at0, names)}
        for r in returns:
            for leaf, at in return_leaves(fn, rd, r):
                clo = rd.closure(at, value_reads(leaf))
                deps = sorted(g for g in grads if g in clo)
                if not deps and any(isinstance(x, ast.Attribute) and x.attr == "grad" for x in ast.walk(leaf)):
                    deps = sorted(through_autograd)
                reached |= set(deps)
                n_l += 1
                txt = ast.unparse(leaf)[:60]
                sample = {"function": who, "returned_entry": txt, "depends_on_upstream": deps, "clause": "L0"}
                if not deps:
                    rep.bad(rule_l, Finding(PROP, rule_l, who, f"returned entry `{txt}` independent of every upstream gradient",
                                            f"{who}: the returned gradient entry `{txt}` does not depend on any upstream gradient "
                                            f"({', '.join(grads)}): a vector-Jacobian product is linear in the upstream gradient, so a "
                                            "constant entry is right only for the all-ones gradient the tests feed in",
                                            fn.loc(r)), sample)
                else:
                    rep.ok(rule_l, sample)
        for g in grads:
            n_l += 1
            sample = {"function": who, "upstream": g, "reaches_a_returned_entry": g in reached, "clause": "L0"}
            if returns and g not in reached:
                rep.bad(rule_l, Finding(PROP, rule_l, who, f"upstream gradient `{g}` reaches no returned entry",
                                        f"{who}: the upstream gradient `{g}` is not read (by value) by anything that is returned; the "
                                        "gradient flowing into that output is dropped", fn.loc(fn.node)), sample)
            else:
                rep.ok(rule_l, sample)
        # ---- L2: degree
        for g in grads:
            dg = Degree(fn, rd, g, params)
            for nid, node in rd.cfg.nodes.items():
                st = node.ast
                if st is None or node.kind not in ("stmt", "test"):
                    continue
                if isinstance(st, (ast.FunctionDef, ast.AsyncFunctionDef, ast.ClassDef)):
                    continue
                vals = []
                if isinstance(st, (ast.Assign, ast.AugAssign, ast.AnnAssign, ast.Return, ast.Expr)):
                    if getattr(st, "value", None) is not None:
                        vals.append(st.value)
                for v in vals:
                    try:
                        dg.expr(v, nid)
                    except RecursionError:
                        pass
            n_l += 1
            degs = {}
            for r in returns:
                for leaf, at in return_leaves(fn, rd, r):
                    d = collapse(dg.expr(leaf, at))
                    degs[ast.unparse(leaf)[:40]] = "unknown" if d is UNK else d
            sample = {"function": who, "upstream": g, "clause": "L2", "bilinear_sites_with_both_operands_depending_on_it": len(dg.sites),
                      "degree_of_returned_entries": degs}
            if dg.sites:
                for key, s in sorted(dg.sites.items()):
                    txt = ast.unparse(s["node"])[:70]
                    rep.bad(rule_l, Finding(PROP, rule_l, who, f"product of degree 2 in `{g}`",
                                            f"{who}: both operands of `{txt}` depend on the upstream gradient `{g}`; the result is "
                                            "quadratic in it, while a backward pass is linear in the upstream gradient (g*g == g only "
                                            "for the all-ones gradient the tests use)", fn.loc(s["node"])), dict(sample, site=txt))
            else:
                rep.ok(rule_l, sample)
        # ---- P9: independent accumulation
        if len(grads) >= 2:
            cfg = rd.cfg
            gs = set(grads)
            for nid, node in cfg.nodes.items():
                if node.kind != "test" or node.ast is None:
                    continue
                pt = is_presence_test(node.ast, gs)
                if pt is None:
                    continue
                gj, true_is_absent = pt
                succ_abs = [s for s in cfg.g.successors(nid) if cfg.g[nid][s].get("pol") is true_is_absent]
                succ_pre = [s for s in cfg.g.successors(nid) if cfg.g[nid][s].get("pol") is (not true_is_absent)]
                if not succ_abs or not succ_pre:
                    continue
                h = cfg.g.copy()
                h.remove_node(nid)
                d_abs = set().union(*[{s} | nx.descendants(h, s) for s in succ_abs if s in h])
                d_pre = set().union(*[{s} | nx.descendants(h, s) for s in succ_pre if s in h])
                for gi in grads:
                    if gi == gj:
                        continue
                    n_i += 1

                    def uses(region):
                        return sorted(x for x in region if cfg.nodes[x].ast is not None and cfg.nodes[x].kind in ("stmt", "test", "iter", "with")
                                      and value_uses(cfg.nodes[x].ast, gi))
                    only_abs = uses(d_abs - d_pre)
                    pre = uses(d_pre)
                    sample = {"function": who, "presence_test": ast.unparse(node.ast), "other_gradient": gi,
                              "uses_only_when_absent": len(only_abs), "uses_when_present": len(pre)}
                    if only_abs and not pre:
                        rep.bad(rule_i, Finding(PROP, rule_i, who, f"`{gi}` only contributes when `{gj}` is absent",
                                                f"{who}: `{gi}` is read only on the branch where `{gj}` is None "
                                                f"(line {cfg.nodes[only_abs[0]].lineno}); when both outputs receive a gradient, the "
                                                f"contribution of `{gi}` is dropped (the tests differentiate one output at a time)",
                                                fn.loc(node.ast)), sample)
                    else:
                        rep.ok(rule_i, sample)
    return n_l, n_i


# ------------------------------------------------------------------------------------------------ C07.B
def _is_zero_factory(e: ast.AST) -> bool:
    return isinstance(e, ast.Call) and (dotted(e.func) or "").split(".")[-1] in ("zeros_like", "zeros", "zeros_", "new_zeros")


def check_bilinear_degree(idx: ProgramIndex, rep: Report, rule: str = "C07.B") -> int:
    """``_bilinear_derivative(left_vecs, right_vecs)`` is d(left^T A right)/d(representation): BILINEAR - every returned
    entry that is not None / an explicit zero depends on both arguments, and no product has both operands depending on
    the same one (degree 2 in left and 0 in right is the copy-and-paste slip `left` for `right`, which symmetric test
    inputs left == right cannot see)."""
    n = 0
    for c in idx.operator_classes():
        fn = c.methods.get("_bilinear_derivative")
        if fn is None:
            continue
        a = fn.node.args
        params = [x.arg for x in a.posonlyargs + a.args]
        if len(params) < 3:
            continue
        ups = params[1:3]
        who = f"{c.name}._bilinear_derivative"
        rd = ReachingDefs(fn, reads=value_reads)
        returns = [r for r in walk_body(fn) if isinstance(r, ast.Return) and r.value is not None]
        for r in returns:
            for leaf, at in return_leaves(fn, rd, r):
                if _is_zero_factory(leaf):
                    continue
                clo = rd.closure(at, value_reads(leaf))
                missing = [g for g in ups if g not in clo]
                n += 1
                txt = ast.unparse(leaf)[:60]
                sample = {"function": who, "returned_entry": txt, "depends_on": [g for g in ups if g in clo], "clause": "B0"}
                if missing:
                    rep.bad(rule, Finding(PROP, rule, who, f"returned entry `{txt}` independent of {', '.join(missing)}",
                                          f"{who}: the returned entry `{txt}` does not depend on `{', '.join(missing)}`; the derivative of "
                                          "left^T A right is bilinear in the two vector arguments, so every non-zero entry reads both "
                                          "(invisible when the tests pass left == right)", fn.loc(r)), sample)
                else:
                    rep.ok(rule, sample)
        for g in ups:
            dg = Degree(fn, rd, g, params)
            for nid, node in rd.cfg.nodes.items():
                st = node.ast
                if st is None or node.kind not in ("stmt", "test") or isinstance(st, (ast.FunctionDef, ast.AsyncFunctionDef, ast.ClassDef)):
                    continue
                if isinstance(st, (ast.Assign, ast.AugAssign, ast.AnnAssign, ast.Return, ast.Expr)) and getattr(st, "value", None) is not None:
                    try:
                        dg.expr(st.value, nid)
                    except RecursionError:
                        pass
            n += 1
            degs = {}
            for r in returns:
                for leaf, at in return_leaves(fn, rd, r):
                    d = collapse(dg.expr(leaf, at))
                    degs[ast.unparse(leaf)[:40]] = "unknown" if d is UNK else d
            sample = {"function": who, "argument": g, "clause": "B2", "degree_of_returned_entries": degs,
                      "products_with_both_operands_depending_on_it": len(dg.sites)}
            if dg.sites:
                for key, sx in sorted(dg.sites.items()):
                    txt = ast.unparse(sx["node"])[:70]
                    rep.bad(rule, Finding(PROP, rule, who, f"product of degree 2 in `{g}`",
                                          f"{who}: both operands of `{txt}` depend on `{g}`; the result is quadratic in it although the "
                                          "derivative is linear in each of the two vector arguments", fn.loc(sx["node"])), dict(sample, site=txt))
            else:
                rep.ok(rule, sample)
    return n


# ------------------------------------------------------------------------------------------------ C07.P10
def check_gated_normalisation(idx: ProgramIndex, rep: Report, classes: List[ClassInfo], rule: str = "C07.P10") -> int:
    """``ctx.needs_input_grad`` decides WHICH gradients are computed, never how an upstream gradient is read.  A re-binding of
    an upstream gradient (``g = g.unsqueeze(-2)``: the reshape that makes it broadcast against the saved tensors) that is
    control dependent on a needs_input_grad test, while a value use of ``g`` can be reached around it, leaves that use with
    the un-normalised gradient for some requires_grad subsets (the suite sets requires_grad on everything)."""
    n = 0
    for c in classes:
        fn = c.methods.get("backward")
        if fn is None:
            continue
        a = fn.node.args
        params = [x.arg for x in a.posonlyargs + a.args]
        grads = [p for p in params[1:] if not p.startswith("_")]
        if not grads:
            continue
        try:
            from ..inline import inline_helpers

            fn, _inl = inline_helpers(idx, fn)
        except Exception:
            pass
        from ..cfg import CFG

        cfg = CFG(fn)
        who = f"{c.name}.backward"
        for g in grads:
            rebinds = [nd for nd in cfg.stmt_nodes() if nd.kind == "stmt" and isinstance(nd.ast, ast.Assign)
                       and any(isinstance(t, ast.Name) and t.id == g for t in nd.ast.targets) and value_uses(nd.ast.value, g)]
            for rb in rebinds:
                n += 1
                gates = [cfg.nodes[d] for d in cfg.dominators(rb.id) if cfg.nodes[d].kind == "test"
                         and "needs_input_grad" in ast.unparse(cfg.nodes[d].ast) and cfg.branch_taken(d, rb.id) is not None]
                sample = {"function": who, "upstream": g, "rebinding": ast.unparse(rb.ast)[:70], "gated_by_needs_input_grad": bool(gates)}
                bad_use = None
                for t in gates:
                    pol = cfg.branch_taken(t.id, rb.id)
                    # nodes reachable through the OTHER branch of the needs_input_grad test (the one that skips the re-shaping)
                    others = [s_ for s_ in cfg.g.successors(t.id) if cfg.g[t.id][s_].get("pol") is (not pol)]
                    skip = set()
                    for s_ in others:
                        skip |= {s_} | nx.descendants(cfg.g, s_)
                    for u in cfg.stmt_nodes():
                        if u.id == rb.id or u.ast is None or u.id not in skip or not value_uses(u.ast, g):
                            continue
                        if nx.has_path(cfg.g, rb.id, u.id):  # and the re-shaped value reaches the same use
                            bad_use = (t, u)
                            break
                    if bad_use:
                        break
                if bad_use:
                    t, u = bad_use
                    rep.bad(rule, Finding(PROP, rule, who, f"`{ast.unparse(rb.ast)[:60]}` under `{ast.unparse(t.ast)[:50]}`",
                                          f"{who}: the upstream gradient `{g}` is re-shaped by `{ast.unparse(rb.ast)[:60]}` only when "
                                          f"`{ast.unparse(t.ast)[:50]}` holds, but `{ast.unparse(u.ast)[:60]}` (line {u.lineno}) uses it on a path "
                                          "that skips the re-shaping: for the requires_grad subsets that take that path the gradient is "
                                          "combined with the saved tensors in the wrong layout (silently, when the sizes happen to broadcast)",
                                          fn.loc(rb.ast)), sample)
                else:
                    rep.ok(rule, sample)
    return n
