"""C06 - every factorization returned really factorizes the operator (structural clauses).

    R  ``cholesky(upper)`` and every ``_cholesky(self, upper=False)`` definition return a factor whose orientation tag
       equals the requested one under every assignment of ``upper`` / ``self.upper`` (finite-domain abstract
       interpretation, see lo_static/orient.py); diagonal results satisfy both; definitions that only raise are exempt
    S  spec-bearing parameters are consulted: a parameter that changes the SPECIFICATION of the result
       (upper, left_tensor / lhs, eigenvectors, reduce_inv_quad, logdet, dim of sum / prod, alpha) is read or forwarded
       somewhere in every definition that takes it, unless the definition only raises or is listed with a reason
    M  method-name tables agree: every string ``_choose_root_method`` can return is handled by ``root_decomposition`` and
       by ``root_inv_decomposition``; both (and ``diagonalization``) reject unknown names with ``raise RuntimeError``
"""
from __future__ import annotations

import ast
from typing import Dict, List, Optional, Set

from ..index import AnalysisError, FunctionInfo, ProgramIndex, dotted, norm, short, walk_body
from ..orient import D, L, T, U, evaluate, tag_of_bool
from ..report import Finding, Report

PROP = "C06"

SPEC_PARAMS = ["upper", "left_tensor", "lhs", "eigenvectors", "reduce_inv_quad", "logdet", "dim", "alpha"]
# (class, method, parameter) -> reason the parameter may be ignored
DEAD_PARAM_EXCEPTIONS = {
    ("DiagLinearOperator", "_cholesky", "upper"): "a diagonal factor is its own transpose",
    ("IdentityLinearOperator", "_cholesky", "upper"): "a diagonal factor is its own transpose",
    ("DiagLinearOperator", "solve_triangular", "upper"): "a diagonal matrix has no orientation",
    ("ConstantDiagLinearOperator", "solve_triangular", "upper"): "a diagonal matrix has no orientation",
    ("DiagLinearOperator", "_cholesky_solve", "upper"): "a diagonal factor is its own transpose",
    ("IdentityLinearOperator", "_cholesky_solve", "upper"): "a diagonal factor is its own transpose",
    ("IdentityLinearOperator", "_symeig", "eigenvectors"): "returns the superset (values and vectors)",
}
def fname(fn: FunctionInfo) -> str:
    return f"{fn.cls.name}.{fn.name}" if fn.cls is not None else fn.qualname.replace("linear_operator.", "", 1)


def _one_by_one_guard(fn: FunctionInfo, ret: ast.AST) -> Optional[str]:
    """The test `<x>.size(-1) == 1` / `<x>.shape[-1] == 1` on whose TRUE branch the return sits (a 1x1 matrix is its own
    transpose, so the orientation label of a 1x1 factor cannot matter)."""
    import re as _re

    from ..cfg import CFG

    cfg = CFG(fn)
    nd = cfg.node_of(ret)
    if nd is None:
        return None
    pat = r"[\w\.]+\.(size\(-1\)|shape\[-1\]|size\(-2\)|shape\[-2\]) == 1"
    for d in cfg.dominators(nd.id):
        dn = cfg.nodes[d]
        if dn.kind != "test" or cfg.branch_taken(d, nd.id) is not True:
            continue
        t = dn.ast
        if isinstance(t, ast.Name):
            # a flag holding the test: is_scalar = evaluated_mat.size(-1) == 1
            defs = [x.value for x in walk_body(fn) if isinstance(x, ast.Assign) and len(x.targets) == 1
                    and isinstance(x.targets[0], ast.Name) and x.targets[0].id == t.id]
            if len(defs) == 1:
                t = defs[0]
        if _re.fullmatch(pat, norm(t)):
            return norm(t)
    return None


def rule_orientation(idx: ProgramIndex, rep: Report):
    rep.rule("C06.R", "the cholesky family returns the orientation it is asked for", floor=20)
    defs = [f for f in idx.implementations("_cholesky") + idx.implementations("cholesky")
            if f.cls is not None and idx.operator_base() in f.cls.mro]
    fpsd = idx.func_by_qual.get("linear_operator.utils.cholesky.psd_safe_cholesky")
    if len(defs) < 10:
        raise AnalysisError(f"only {len(defs)} cholesky/_cholesky definitions found (expected >= 10)")
    for fn in defs:
        if "upper" not in fn.params():
            rep.bad("C06.R", Finding(PROP, "C06.R", fname(fn), f"def {fn.name}({', '.join(fn.params())})",
                                     f"{fname(fn)} does not take `upper`", fn.loc()))
            continue
        res = evaluate(idx, fn)
        if res.raises_only:
            rep.ok("C06.R", {"definition": fname(fn), "only_raises": True})
            continue
        if not res.returns:
            rep.bad("C06.R", Finding(PROP, "C06.R", fname(fn), "no return", f"{fname(fn)} returns nothing", fn.loc()))
            continue
        for sigma, tag, node in res.returns:
            want = tag_of_bool(sigma.get("upper", False))
            sample = {"definition": fname(fn), "assignment": sigma, "requested": want, "returned": tag,
                      "return": short(node, 80)}
            if tag == T:
                rep.ok("C06.R", {**sample, "verdict": "orientation not decidable by the tag rules (no obligation)"})
            elif tag == D or tag == want:
                rep.ok("C06.R", sample)
            else:
                guard = _one_by_one_guard(fn, node)
                if guard:
                    rep.ok("C06.R", {**sample, "exception": f"guarded by `{guard}`: a 1x1 factor is diagonal, its label is immaterial"})
                    continue
                rep.bad("C06.R", Finding(
                    PROP, "C06.R", fname(fn), f"[upper={sigma.get('upper')}] {norm(node)}",
                    f"{fname(fn)}: with {sigma} the returned factor is {'upper' if tag == U else 'lower'}-triangular "
                    f"but {'upper' if want == U else 'lower'} was requested (L L^T vs R^T R are confused)", fn.loc(node)))


def rule_spec_params(idx: ProgramIndex, rep: Report, prop: str = PROP, rule: str = "C06.S", only=None, floor: int = 100):
    rep.rule(rule, "spec-bearing parameters are read or forwarded in every definition that takes them", floor=floor)
    base = idx.operator_base()
    for c in idx.operator_classes():
        for mname, fn in c.methods.items():
            if only is not None and not only(mname):
                continue
            ps = [p for p in fn.all_param_names() if p in SPEC_PARAMS]
            if not ps:
                continue
            body = [s for s in fn.body() if not (isinstance(s, ast.Expr) and isinstance(s.value, ast.Constant))]
            only_raises = bool(body) and all(isinstance(s, ast.Raise) for s in body)
            used: Set[str] = set()
            for n in walk_body(fn):
                if isinstance(n, ast.Name) and isinstance(n.ctx, ast.Load):
                    used.add(n.id)
            # nested functions / lambdas closing over the parameter
            for ch in idx.functions:
                if ch.parent is fn:
                    for n in ast.walk(ch.node):
                        if isinstance(n, ast.Name):
                            used.add(n.id)
            for p in ps:
                sample = {"definition": f"{c.name}.{mname}", "parameter": p}
                if p in used or only_raises:
                    rep.ok(rule, sample)
                    continue
                exc = DEAD_PARAM_EXCEPTIONS.get((c.name, mname, p))
                if exc is None and p == "upper" and any(k.name == "DiagLinearOperator" for k in c.mro):
                    # structural: a diagonal matrix is its own transpose - the orientation of a diagonal factor cannot matter
                    exc = "a diagonal matrix has no orientation (class derives from DiagLinearOperator)"
                if exc:
                    rep.ok(rule, {**sample, "exception": exc})
                    continue
                rep.bad(rule, Finding(
                    prop, rule, f"{c.name}.{mname}", f"parameter {p} is never read",
                    f"{c.name}.{mname} takes `{p}`, which changes the specification of the result, but never reads or "
                    f"forwards it: every value of `{p}` gets the same answer", fn.loc()))


def _string_returns(fn: FunctionInfo) -> Set[str]:
    """String literals the function can return: `return "x"`, `return name` where name is the variable of an enclosing
    `for name in ("x", "y", ...)` or is assigned string literals only, and conditional expressions of those."""
    out = set()
    loop_vars: Dict[str, Set[str]] = {}
    assigned: Dict[str, Set[Optional[str]]] = {}
    def table_display(it: ast.AST) -> Optional[ast.AST]:
        """the tuple / list / set display a loop iterates: written in place, or a class-level / module-level constant"""
        if isinstance(it, (ast.Tuple, ast.List, ast.Set)):
            return it
        nm = None
        if isinstance(it, ast.Attribute) and isinstance(it.value, ast.Name) and it.value.id in ("self", "cls"):
            nm = it.attr
            for k in (fn.cls.mro if fn.cls is not None else []):
                if nm in k.class_attrs and isinstance(k.class_attrs[nm], (ast.Tuple, ast.List, ast.Set)):
                    return k.class_attrs[nm]
        if isinstance(it, ast.Name):
            gv = fn.module.globals_.get(it.id)
            if isinstance(gv, (ast.Tuple, ast.List, ast.Set)):
                return gv
        return None

    for n in walk_body(fn):
        disp = table_display(n.iter) if isinstance(n, ast.For) and isinstance(n.target, ast.Name) else None
        if disp is not None:
            vals = {e.value for e in disp.elts if isinstance(e, ast.Constant) and isinstance(e.value, str)}
            if len(vals) == len(disp.elts):
                loop_vars.setdefault(n.target.id, set()).update(vals)
        if isinstance(n, ast.Assign) and len(n.targets) == 1 and isinstance(n.targets[0], ast.Name):
            v = n.value
            assigned.setdefault(n.targets[0].id, set()).add(v.value if isinstance(v, ast.Constant) and isinstance(v.value, str) else None)

    def lits(e: ast.AST) -> Set[str]:
        if isinstance(e, ast.Constant) and isinstance(e.value, str):
            return {e.value}
        if isinstance(e, ast.IfExp):
            return lits(e.body) | lits(e.orelse)
        if isinstance(e, ast.Name):
            got = set(loop_vars.get(e.id, set()))
            a = assigned.get(e.id)
            if a and None not in a:
                got |= {x for x in a if x is not None}
            return got
        return set()

    for n in walk_body(fn):
        if isinstance(n, ast.Return) and n.value is not None:
            out |= lits(n.value)
    return out


def _string_tables(fn: FunctionInfo) -> Dict[str, Set[str]]:
    """Module-level / class-level names bound to a dict display with string keys (dispatch tables), or to a tuple /
    list / set of string literals, visible from fn."""
    out: Dict[str, Set[str]] = {}
    scopes = [fn.module.globals_]
    if fn.cls is not None:
        scopes.append(fn.cls.class_attrs)
    for sc in scopes:
        for name, v in sc.items():
            if isinstance(v, ast.Dict) and v.keys and all(isinstance(k, ast.Constant) and isinstance(k.value, str) for k in v.keys):
                out[name] = {k.value for k in v.keys}
            elif isinstance(v, (ast.Tuple, ast.List, ast.Set)) and v.elts:
                keys = set()
                for e in v.elts:
                    if isinstance(e, ast.Constant) and isinstance(e.value, str):
                        keys.add(e.value)
                    elif isinstance(e, (ast.Tuple, ast.List)) and e.elts and isinstance(e.elts[0], ast.Constant) and isinstance(e.elts[0].value, str):
                        keys.add(e.elts[0].value)
                if len(keys) == len(v.elts):
                    out[name] = keys
    return out


def _handled_literals(fn: FunctionInfo, var: str) -> Set[str]:
    out = set()
    # dispatch through a table of method names: TABLE[var], var in TABLE, TABLE.get(var), helper(TABLE, var)
    tables = _string_tables(fn)
    for n in walk_body(fn):
        if isinstance(n, (ast.Call, ast.Subscript, ast.Compare)):
            names = {x.id for x in ast.walk(n) if isinstance(x, ast.Name)} | {x.attr for x in ast.walk(n) if isinstance(x, ast.Attribute)}
            if var in names:
                for t in names & set(tables):
                    out |= tables[t]
    for n in walk_body(fn):
        if isinstance(n, ast.Compare) and isinstance(n.left, ast.Name) and n.left.id == var and len(n.ops) == 1:
            if isinstance(n.ops[0], ast.Eq) and isinstance(n.comparators[0], ast.Constant):
                out.add(n.comparators[0].value)
            if isinstance(n.ops[0], ast.In) and isinstance(n.comparators[0], (ast.Tuple, ast.List, ast.Set)):
                out |= {e.value for e in n.comparators[0].elts if isinstance(e, ast.Constant)}
    return out


def _rejects_unknown(fn: FunctionInfo, var: str) -> bool:
    """The if/elif chain on `var` ends in an else that raises RuntimeError / ValueError."""
    for n in walk_body(fn):
        if isinstance(n, ast.If) and var in norm(n.test):
            cur = n
            while len(cur.orelse) == 1 and isinstance(cur.orelse[0], ast.If):
                cur = cur.orelse[0]
            if cur.orelse and any(isinstance(s, ast.Raise) for s in cur.orelse):
                return True
    # table dispatch: the failed lookup raises, naming the offending value
    for n in walk_body(fn):
        if isinstance(n, ast.Raise) and n.exc is not None and any(k in norm(n.exc) for k in ("RuntimeError", "ValueError", "KeyError")) \
                and any(isinstance(x, ast.Name) and x.id == var for x in ast.walk(n.exc)):
            return True
    return False


def rule_method_tables(idx: ProgramIndex, rep: Report):
    rep.rule("C06.M", "method-name producers and consumers agree; unknown names are rejected", floor=8)
    base = idx.operator_base()
    chooser = base.methods.get("_choose_root_method")
    rd = base.methods.get("root_decomposition")
    rid = base.methods.get("root_inv_decomposition")
    dg = base.methods.get("diagonalization")
    if not all([chooser, rd, rid, dg]):
        raise AnalysisError("root decomposition entry points not found on LinearOperator")
    produced = set()
    for f in idx.implementations("_choose_root_method"):
        produced |= _string_returns(f)
    if len(produced) < 3:
        raise AnalysisError(f"_choose_root_method returns only {produced}")
    for consumer in (rd, rid):
        handled = _handled_literals(consumer, "method")
        for name in sorted(produced):
            sample = {"producer": "_choose_root_method", "method_name": name, "consumer": fname(consumer)}
            if name in handled:
                rep.ok("C06.M", sample)
            else:
                rep.bad("C06.M", Finding(
                    PROP, "C06.M", fname(consumer), f"method name {name!r} not handled",
                    f"_choose_root_method can return {name!r} but {fname(consumer)} has no branch for it: the "
                    "decomposition falls through to the error / a different method", consumer.loc()))
    for consumer in (rd, rid, dg):
        ok = _rejects_unknown(consumer, "method")
        if ok:
            rep.ok("C06.M", {"consumer": fname(consumer), "rejects_unknown_method": True})
        else:
            rep.bad("C06.M", Finding(PROP, "C06.M", fname(consumer), "if/elif chain on `method` without raising else",
                                     f"{fname(consumer)} does not reject unknown method names with an exception",
                                     consumer.loc()))
    # subclass overrides of root_decomposition take `method` and forward / handle it (checked by C06.S via 'method'? no:
    # `method` is not spec-bearing - any valid method yields a valid factorization)


def _literals_of_test(t: ast.AST, var: str) -> Set[str]:
    """Method names under which a test on `var` holds: var == "x", var in ("x", "y"), a == .. or b == .."""
    out: Set[str] = set()
    if isinstance(t, ast.BoolOp) and isinstance(t.op, ast.Or):
        for v in t.values:
            out |= _literals_of_test(v, var)
        return out
    if isinstance(t, ast.Compare) and isinstance(t.left, ast.Name) and t.left.id == var and len(t.ops) == 1:
        c = t.comparators[0]
        if isinstance(t.ops[0], ast.Eq) and isinstance(c, ast.Constant) and isinstance(c.value, str):
            out.add(c.value)
        if isinstance(t.ops[0], ast.In) and isinstance(c, (ast.Tuple, ast.List, ast.Set)):
            out |= {e.value for e in c.elts if isinstance(e, ast.Constant) and isinstance(e.value, str)}
    return out


def rule_request_forwarding(idx: ProgramIndex, rep: Report):
    """An explicit method request is not re-dispatched: inside a branch taken for method == "x", a call to ANOTHER
    dispatcher that itself has a branch for "x" must pass method= (else the callee picks by size / cache state)."""
    rep.rule("C06.M2", "explicit decomposition-method requests are forwarded, not re-dispatched by size", floor=2)
    base = idx.operator_base()
    dispatchers = {name: fn for name, fn in base.methods.items() if "method" in fn.params() and _handled_literals(fn, "method")}
    n = 0
    for fn in idx.functions:
        if "method" not in fn.params() or fn.cls is None:
            continue
        cfg = None
        for x in walk_body(fn):
            if not (isinstance(x, ast.Call) and isinstance(x.func, ast.Attribute) and x.func.attr in dispatchers
                    and isinstance(x.func.value, ast.Name) and x.func.value.id == "self" and x.func.attr != fn.name):
                continue
            callee = dispatchers[x.func.attr]
            if cfg is None:
                from ..cfg import CFG

                cfg = CFG(fn)
            node = cfg.node_of(x)
            if node is None:
                continue
            lits: Set[str] = set()
            for d in cfg.dominators(node.id):
                dn = cfg.nodes[d]
                if dn.kind == "test" and cfg.branch_taken(d, node.id) is True:
                    lits |= _literals_of_test(dn.ast, "method")
            if not lits:
                continue
            n += 1
            clash = sorted(lits & _handled_literals(callee, "method"))
            passes = any(k.arg == "method" for k in x.keywords) or len(x.args) > callee.params().index("method") - 1
            sample = {"caller": fname(fn), "under_method": sorted(lits), "call": short(x, 50), "callee_handles": clash}
            if clash and not passes:
                rep.bad("C06.M2", Finding(PROP, "C06.M2", fname(fn), f"{norm(x)} under method in {sorted(lits)}",
                                          f"{fname(fn)}: for the explicit request method={clash[0]!r} it calls `{short(x, 50)}` "
                                          f"without method=; {callee.name} has its own branch for {clash[0]!r} but, called like "
                                          "this, chooses by matrix size / settings - above max_cholesky_size the exact "
                                          "decomposition that was asked for is replaced by a truncated Lanczos one", fn.loc(x)), sample)
            else:
                rep.ok("C06.M2", sample)
    # the same obligation when the dispatch goes through a table  {"symeig": "_root_from_symeig", ...}: the helper registered
    # under key k runs for the explicit request method == k
    for scope in [base.module.globals_, base.class_attrs]:
        for tname, v in scope.items():
            if not (isinstance(v, ast.Dict) and v.keys and all(isinstance(k, ast.Constant) and isinstance(k.value, str) for k in v.keys)
                    and all(isinstance(x, ast.Constant) and isinstance(x.value, str) for x in v.values)):
                continue
            for k_, x_ in zip(v.keys, v.values):
                hf = idx.resolve_method(base, x_.value)
                if hf is None or hf.name in dispatchers:
                    continue
                for x in walk_body(hf):
                    if not (isinstance(x, ast.Call) and isinstance(x.func, ast.Attribute) and x.func.attr in dispatchers
                            and isinstance(x.func.value, ast.Name) and x.func.value.id == "self"):
                        continue
                    callee = dispatchers[x.func.attr]
                    n += 1
                    clash = sorted({k_.value} & _handled_literals(callee, "method"))
                    passes = any(k.arg == "method" for k in x.keywords) or len(x.args) > callee.params().index("method") - 1
                    sample = {"caller": fname(hf), "registered_under": f"{tname}[{k_.value!r}]", "call": short(x, 50), "callee_handles": clash}
                    if clash and not passes:
                        rep.bad("C06.M2", Finding(PROP, "C06.M2", fname(hf), f"{norm(x)} under {tname}[{k_.value!r}]",
                                                  f"{fname(hf)} is what the explicit request method={k_.value!r} is dispatched to ({tname}); it "
                                                  f"calls `{short(x, 50)}` without method=, and {callee.name} has its own branch for "
                                                  f"{k_.value!r} but, called like this, chooses by matrix size / settings", hf.loc(x)), sample)
                    else:
                        rep.ok("C06.M2", sample)
    if n < 2:
        rep.error(f"only {n} dispatcher-to-dispatcher calls under an explicit method test found (expected >= 2)")


def jitter_rules_for(idx: ProgramIndex, rep: Report, rule: str):
    """The Cholesky route of every factorization goes through psd_safe_cholesky: its info / jitter / orientation rules
    (C16.I, C16.D, C16.U) are re-emitted here - a factor that is over-jittered or of the wrong orientation does not
    factorize the matrix it is returned for."""
    from . import c16

    sub = Report("C16", "quick", rep.root)
    sub.quiet = True
    c16.run(idx, sub, "quick", selftest=False)
    for rname in ("C16.I", "C16.D", "C16.U"):
        st = sub.rules.get(rname)
        if st is None:
            continue
        bad = [f for f in sub.findings if f.rule == rname]
        rep.count(rule, max(st.instances - len(bad), 0))
        for f in bad:
            rep.bad(rule, Finding(PROP, rule, f.function, f.construct, f"[{rname}] {f.message}", f.loc))
    for e in sub.errors:
        rep.error(f"psd_safe_cholesky rules: {e}")


def rule_unit_signs(idx: ProgramIndex, rep: Report):
    """svd through an eigendecomposition flips the sign of eigenvector columns (U = Q * sign, S = |w|).  The flipped basis is
    orthonormal only if every factor has modulus one; ``torch.sign`` is 0 at 0, so for a singular PSD operator the columns
    that belong to zero eigenvalues are wiped out (U^T U != I, and shortcuts that shift S afterwards - a constant diagonal
    added to the singular values - no longer reconstruct the matrix).  A sign factor in an ``_svd`` definition must be
    zero-free: built by a comparison (``torch.where(w < 0, -1, 1)``) or repaired (``s[s == 0] = 1``, masked_fill, where)."""
    rep.rule("C06.U", "sign factors applied to a singular-vector basis cannot vanish (torch.sign(0) = 0)", floor=2)
    base = idx.operator_base()

    def is_sign(e: ast.AST) -> bool:
        return isinstance(e, ast.Call) and ((dotted(e.func) or "") in ("torch.sign", "torch.sgn") or (
            isinstance(e.func, ast.Attribute) and e.func.attr in ("sign", "sgn") and not (dotted(e.func) or "").startswith("torch.")))

    for fn in idx.implementations("_svd") + idx.implementations("svd"):
        if fn.cls is None or base not in fn.cls.mro:
            continue
        signs = [n for n in walk_body(fn) if is_sign(n)]
        sample = {"definition": f"{fn.cls.name}.{fn.name}", "sign_calls": len(signs)}
        bad = None
        for sg in signs:
            # the name the sign is bound to (if any), and whether that name is repaired before it is used
            bound = next((st.targets[0].id for st in walk_body(fn) if isinstance(st, ast.Assign) and len(st.targets) == 1
                          and isinstance(st.targets[0], ast.Name) and st.value is sg), None)
            repaired = False
            if bound is not None:
                for st in walk_body(fn):
                    txt = norm(st) if isinstance(st, ast.stmt) else ""
                    if isinstance(st, ast.Assign) and any(isinstance(t, ast.Subscript) and isinstance(t.value, ast.Name) and t.value.id == bound
                                                          and "== 0" in norm(t.slice) for t in st.targets):
                        repaired = True
                    if isinstance(st, (ast.Assign, ast.Expr)) and bound in txt and "== 0" in txt and any(
                            k in txt for k in ("where(", "masked_fill")):
                        repaired = True
            if not repaired:
                bad = sg
        if bad is not None:
            rep.bad("C06.U", Finding(PROP, "C06.U", f"{fn.cls.name}.{fn.name}", "sign factor that can vanish scales a singular-vector basis",
                                     f"{fn.cls.name}.{fn.name} multiplies the eigenvector basis by `{short(bad, 40)}`, which is 0 for a zero "
                                     "eigenvalue: for a singular PSD operator the returned U / V has zero columns (not orthonormal), and a "
                                     "shortcut that shifts the singular values afterwards (constant added diagonal) no longer reconstructs the "
                                     "matrix", fn.loc(bad)), sample)
        else:
            rep.ok("C06.U", sample)


def run(idx: ProgramIndex, rep: Report, tier: str, selftest: bool = True):
    rep.extra["explanation"] = (
        "Structural necessary conditions of 'factorizations factorize'. (R) The orientation of the factor returned by "
        "cholesky / every _cholesky definition is computed by a finite-domain abstract interpretation (tags lower / "
        "upper / diagonal / unknown, evaluated under every assignment of the boolean atoms upper and self.upper) and "
        "must equal the requested one - an upper factor where a lower one is promised gives R^T R instead of L L^T. "
        "(S) Every definition taking a spec-bearing parameter reads or forwards it. (M) The method names that "
        "_choose_root_method produces are handled by both decomposition dispatchers, which reject unknown names. "
        "NOT decided: L L^T = A, orthonormality, Krylov compressions (numerical)."
    )
    rep.assumptions += [
        "orientation tag rules of lo_static/orient.py (producers, flips, keeps, class invariants)",
        "the list of spec-bearing parameter names is frozen and reviewed: " + ", ".join(SPEC_PARAMS),
    ]
    rule_orientation(idx, rep)
    rule_spec_params(idx, rep)
    rule_method_tables(idx, rep)
    rule_request_forwarding(idx, rep)
    rule_unit_signs(idx, rep)
    rep.rule("C06.J", "the jittered Cholesky factor is info-gated, per member, incremental and of the requested orientation", floor=8)
    jitter_rules_for(idx, rep, "C06.J")
    if selftest:
        from ..selftest import run_fixtures

        run_fixtures(rep, PROP)
