"""C19 - incompatible shapes raise, never mis-compute (structural clause).

``LinearOperator.matmul`` validates the operand with ``_matmul_broadcast_shape`` first and torch's contraction kernels
validate their own operands.  Silent acceptance of an incompatible operand can therefore only come from an override of
a contraction entry point that uses the operand *elementwise* (broadcasting a size-1 dimension) or *returns it*
(identity / zero / diagonal shortcuts).  Rule (taint over the CFG, per definition and per operand):

    in every definition of  matmul rmatmul solve solve_triangular sqrt_inv_matmul inv_quad inv_quad_logdet
    the operand - directly or through views, reshaping helpers, attributes of a (diagonal) operand - must not
    reach an elementwise arithmetic operation or the return value, unless that use is dominated by a GUARD on the
    operand:
        * ``_matmul_broadcast_shape(<self shape>, <operand>.shape)``
        * an explicit comparison of the operand's shape / size / numel / dim with self's whose failure raises
        * delegation of the operand to super(), to a contraction method of self or of an object derived from self,
          to an autograd Function applied to self's representation, or to a torch contraction whose other operand
          derives from self
    The value of a guarding contraction is clean (it is the checked product).  A contraction of two user operands
    (``lhs @ rhs``) is not a guard.
"""
from __future__ import annotations

import ast
from typing import Dict, List, Optional, Set, Tuple

from ..cfg import CFG
from ..index import AnalysisError, ClassInfo, FunctionInfo, ProgramIndex, dotted, norm, short, walk_body
from ..report import Finding, Report

PROP = "C19"
ENTRY_POINTS = ["matmul", "rmatmul", "solve", "solve_triangular", "sqrt_inv_matmul", "inv_quad", "inv_quad_logdet"]
OPERAND_NAMES = {"other", "rhs", "right_tensor", "left_tensor", "lhs", "inv_quad_rhs"}
CONTRACTION_METHODS = {
    "matmul", "_matmul", "_t_matmul", "rmatmul", "solve", "_solve", "solve_triangular", "sqrt_inv_matmul", "inv_quad",
    "inv_quad_logdet", "_cholesky_solve", "_inv_matmul", "__matmul__", "__rmatmul__", "mm", "bmm", "mv", "inv_matmul",
    "_solve_triangular",
}
TORCH_CONTRACTIONS = {"torch.matmul", "torch.mm", "torch.bmm", "torch.linalg.solve_triangular", "torch.cholesky_solve",
                      "torch.linalg.solve", "torch.triangular_solve", "torch.einsum", "torch.dsmm"}
SCALAR_ATTRS = {"shape", "dtype", "device", "ndim", "requires_grad", "is_cuda", "batch_shape", "matrix_shape", "upper"}
SCALAR_METHODS = {"size", "dim", "ndimension", "numel", "item", "is_floating_point", "type"}
ELEMENTWISE_METHODS = {"mul", "div", "mul_", "div_", "addcmul", "addcmul_", "addcdiv", "true_divide"}
ELEMENTWISE_TORCH = {"torch.mul", "torch.div", "torch.addcmul", "torch.addcdiv", "torch.true_divide"}
SHAPE_PROBES = ("shape", "size", "numel", "dim", "ndimension", "ndim", "diag_shape", "matrix_shape")


_SG_CACHE: Dict[int, Set[str]] = {}


def shape_guard_functions(idx: ProgramIndex) -> Set[str]:
    """Names of the package's shape-validation helpers, found structurally (not by spelling): module-level functions
    with at least two parameters that RAISE under a comparison of (elements of) their first two parameters and
    otherwise return a shape built from them - today `utils.broadcasting._matmul_broadcast_shape`."""
    key = id(idx)
    if key in _SG_CACHE:
        return _SG_CACHE[key]
    out: Set[str] = set()
    for m in idx.modules.values():
        for name, fn in m.functions.items():
            ps = fn.params()
            if len(ps) < 2 or not isinstance(fn.node, ast.FunctionDef):
                continue
            a, b = ps[0], ps[1]
            # locals derived from a / b by subscripting:  m, n, p = shape_a[-2], shape_a[-1], shape_b[-1]
            src: Dict[str, Set[str]] = {a: {a}, b: {b}}
            for st in ast.walk(fn.node):
                if isinstance(st, ast.Assign):
                    tg = st.targets[0]
                    if isinstance(tg, ast.Tuple) and isinstance(st.value, ast.Tuple) and len(tg.elts) == len(st.value.elts):
                        pairs = list(zip(tg.elts, st.value.elts))
                    else:
                        pairs = [(tg, st.value)]
                    for t_, v_ in pairs:
                        if isinstance(t_, ast.Name):
                            roots = {x.id for x in ast.walk(v_) if isinstance(x, ast.Name) and x.id in src}
                            if roots and all(isinstance(y, (ast.Subscript, ast.Name, ast.Constant, ast.UnaryOp, ast.Slice, ast.Load, ast.USub, ast.Index))
                                             for y in ast.walk(v_)):
                                src.setdefault(t_.id, set()).update(set().union(*[src[r] for r in roots]))
            ok = False
            for st in ast.walk(fn.node):
                if isinstance(st, ast.If) and any(isinstance(x, ast.Raise) for x in ast.walk(st)):
                    for c in ast.walk(st.test):
                        if isinstance(c, ast.Compare) and isinstance(c.ops[0], (ast.NotEq, ast.Eq)):
                            roots = set()
                            for x in ast.walk(c):
                                if isinstance(x, ast.Name) and x.id in src:
                                    roots |= src[x.id]
                            if {a, b} <= roots:
                                ok = True
            returns_shape = any(isinstance(x, ast.Return) and x.value is not None and any(
                isinstance(y, ast.Name) and y.id in src for y in ast.walk(x.value)) for x in ast.walk(fn.node))
            if ok and returns_shape and "shape" in (a + b).lower():
                out.add(name)
    if not out:
        raise AnalysisError("no shape-validation helper (a function raising on incompatible shapes of its two operands) found")
    _SG_CACHE[key] = out
    return out


def fname(fn: FunctionInfo) -> str:
    return f"{fn.cls.name}.{fn.name}" if fn.cls else fn.qualname


class Analysis:
    def __init__(self, idx: ProgramIndex, fn: FunctionInfo, operand: str, depth: int = 0, extra_selfd: Optional[Set[str]] = None):
        self.idx = idx
        self.fn = fn
        self.operand = operand
        self.depth = depth
        self._callee_cache: Dict[tuple, bool] = {}
        self.self_name = fn.params()[0] if not fn.is_staticmethod() else "#no-self"
        self.cfg = CFG(fn)
        self.tainted: Set[str] = {operand}
        self.selfd: Set[str] = set(extra_selfd or ())  # parameters the caller binds to values derived from the operator
        self.shape_names: Set[str] = set()
        self._collect_shape_names()
        self._fix_names()
        self._callee_cache.clear()
        self._collect_shape_names()

    # ------------------------------------------------------------------ name classification (flow-insensitive)
    def _fix_names(self) -> None:
        """Names that may still hold the UNCHECKED operand.  A value computed at a statement that is dominated by
        a guard on the operand is computed from a validated operand and is clean."""
        self.apply_aliases: Set[str] = set()
        for n in walk_body(self.fn):
            if (isinstance(n, ast.Assign) and isinstance(n.value, ast.Attribute) and n.value.attr == "apply"
                    and len(n.targets) == 1 and isinstance(n.targets[0], ast.Name)):
                self.apply_aliases.add(n.targets[0].id)  # func = InvQuadLogdet.apply
        assigns = []
        for n in walk_body(self.fn):
            targets: List[ast.AST] = []
            val: Optional[ast.AST] = None
            if isinstance(n, ast.Assign):
                targets, val = n.targets, n.value
            elif isinstance(n, (ast.AnnAssign, ast.AugAssign)) and n.value is not None:
                targets, val = [n.target], n.value
            elif isinstance(n, (ast.For, ast.comprehension)):
                targets, val = [n.target], n.iter
            if val is None:
                continue
            names = [x.id for t in targets for x in ast.walk(t) if isinstance(x, ast.Name)]
            node = self.cfg.node_of(n) if not isinstance(n, ast.comprehension) else self.cfg.node_of(val)
            assigns.append((names, val, node.id if node is not None else None))
        changed = True
        rounds = 0
        while changed and rounds < 20:
            changed = False
            rounds += 1
            self._callee_cache.clear()  # verdicts computed with an incomplete set of operator-derived names are not kept
            guards = set(self.guard_nodes())
            for names, val, nid in assigns:
                if self.is_selfd(val):
                    for nm in names:
                        if nm not in self.selfd:
                            self.selfd.add(nm)
                            changed = True
                if not self.is_tainted(val):
                    continue
                if nid is not None and guards & (set(self.cfg.dominators(nid)) | correlated_dominators(
                        self.cfg, nid, set(self.fn.params()))):
                    continue
                for nm in names:
                    if nm not in self.tainted:
                        self.tainted.add(nm)
                        changed = True

    def is_selfd(self, e: ast.AST) -> bool:
        for x in ast.walk(e):
            if isinstance(x, ast.Name) and (x.id == self.self_name or x.id in self.selfd):
                return True
            if isinstance(x, ast.Call) and isinstance(x.func, ast.Name) and x.func.id == "super":
                return True
        return False

    # ------------------------------------------------------------------ guards
    def guard_call(self, c: ast.Call) -> bool:
        """A call that validates (a value derived from) the operand against self, raising on incompatibility."""
        d = dotted(c.func)
        args = list(c.args) + [k.value for k in c.keywords]
        targ = [a for a in args if self.mentions_taint(a)]
        if not targ:
            return False
        if d and d.split(".")[-1] in shape_guard_functions(self.idx):
            return True
        if d in TORCH_CONTRACTIONS:
            others = [a for a in args if not self.mentions_taint(a)]
            return any(self.is_selfd(a) for a in others) or any(self.is_selfd(a) for a in args if a not in targ)
        if isinstance(c.func, ast.Name) and c.func.id in getattr(self, "apply_aliases", ()):
            return any(self.is_selfd(a) for a in args)
        if isinstance(c.func, ast.Call) and self.fn.cls is not None and self.depth == 0:
            # self._pick_routine()(operand): a bound method chosen from a table of method names / returned as self.<m>
            targets = self._dispatch_targets(c.func)
            if targets:
                return all(self._callee_validates(c, m_) for m_ in targets)
        if isinstance(c.func, ast.Attribute):
            m = c.func.attr
            recv = c.func.value
            if m == "apply":
                # autograd Function applied to self's representation
                return any(self.is_selfd(a) for a in args)
            if m in CONTRACTION_METHODS:
                if self.is_selfd(recv) and not (self.mentions_taint(recv) and not self._recv_selfd_strict(recv)):
                    return True
                # tensor.matmul(operand) where the tensor derives from self
                return False
            if isinstance(recv, ast.Name) and recv.id == self.self_name and self.fn.cls is not None and self.depth == 0:
                return self._callee_validates(c, m)
        return False

    def _dispatch_targets(self, inner: ast.Call) -> List[str]:
        """Names of the methods of self that `self.<picker>()` can return: every `return self.<m>` and every string
        constant of a class-level / module-level table the picker iterates or indexes that names a method of the class
        (`getattr(self, name)`)."""
        if not (isinstance(inner.func, ast.Attribute) and isinstance(inner.func.value, ast.Name) and inner.func.value.id == self.self_name):
            return []
        picker = self.idx.resolve_method(self.fn.cls, inner.func.attr)
        if picker is None:
            return []
        out: List[str] = []
        uses_getattr = False
        for n in ast.walk(picker.node):
            if isinstance(n, ast.Return) and isinstance(n.value, ast.Attribute) and isinstance(n.value.value, ast.Name) \
                    and n.value.value.id == (picker.params()[0] if picker.params() else "self"):
                out.append(n.value.attr)
            if isinstance(n, ast.Call) and isinstance(n.func, ast.Name) and n.func.id == "getattr":
                uses_getattr = True
        if uses_getattr:
            tables = []
            for n in ast.walk(picker.node):
                nm = n.attr if isinstance(n, ast.Attribute) else (n.id if isinstance(n, ast.Name) else None)
                if nm is None:
                    continue
                for k in self.fn.cls.mro:
                    if nm in k.class_attrs:
                        tables.append(k.class_attrs[nm])
                if nm in picker.module.globals_:
                    tables.append(picker.module.globals_[nm])
            for t in tables:
                for x in ast.walk(t):
                    if isinstance(x, ast.Constant) and isinstance(x.value, str) and self.idx.resolve_method(self.fn.cls, x.value) is not None:
                        out.append(x.value)
        seen = []
        for m_ in out:
            if m_ not in seen:
                seen.append(m_)
        return seen

    def _callee_validates(self, c: ast.Call, m: str) -> bool:
        """self.helper(operand): the helper - under the type tests that dominate the call - raises on every path
        unless a shape guard on the corresponding parameter is passed."""
        key = (id(c), m)
        if key in self._callee_cache:
            return self._callee_cache[key]
        self._callee_cache[key] = False
        callee = self.idx.resolve_method(self.fn.cls, m)
        if callee is None or callee is self.fn or callee.is_property():
            return False
        params = callee.params() if callee.is_staticmethod() else callee.params()[1:]
        bound = None
        for i, a in enumerate(c.args):
            if isinstance(a, ast.Name) and a.id in self.tainted and i < len(params):
                bound = (a.id, params[i])
        for k in c.keywords:
            if isinstance(k.value, ast.Name) and k.value.id in self.tainted and k.arg in params:
                bound = (k.value.id, k.arg)
        if bound is None:
            return False
        actual, formal = bound
        # parameters of the helper that the call binds to values derived from the operator itself
        extra: Set[str] = set()
        for i, a_ in enumerate(c.args):
            if i < len(params) and not self.mentions_taint(a_) and self.is_selfd(a_):
                extra.add(params[i])
        for k_ in c.keywords:
            if k_.arg in params and not self.mentions_taint(k_.value) and self.is_selfd(k_.value):
                extra.add(k_.arg)
        callee_for_call = callee
        if extra:
            # parameters bound to operator-derived OBJECTS are not None at this call: fold `if p is None` accordingly
            import copy as _copy
            import dataclasses as _dc

            class _Fold(ast.NodeTransformer):
                def visit_If(self, node: ast.If):
                    self.generic_visit(node)
                    t = norm(node.test)
                    for p_ in extra:
                        if t == f"{p_} is None":
                            return node.orelse or [ast.copy_location(ast.Pass(), node)]
                        if t == f"{p_} is not None":
                            return node.body
                    return node

            node2 = _Fold().visit(_copy.deepcopy(callee.node))
            ast.fix_missing_locations(node2)
            callee_for_call = _dc.replace(callee, node=node2)
        sub = Analysis(self.idx, callee_for_call, formal, depth=1, extra_selfd=extra)
        guards = set(sub.guard_nodes())
        # (a) the helper consumes the operand only inside checked contractions with operator-derived values (or behind its
        #     own guards): nothing of the unchecked operand comes back
        uses_ = sub.uses()
        if all((set(sub.cfg.dominators(nid_)) | correlated_dominators(sub.cfg, nid_, set(callee.params()))) & guards
               or not sub.cfg.reachable(nid_) for _n, _w, nid_ in uses_):
            self._callee_cache[key] = True
            return True
        if not guards:
            return False
        # type tests on the operand that dominate the call site, translated to the callee's parameter name
        node = self.cfg.node_of(c)
        assumed: Dict[str, bool] = {}
        if node is not None:
            for d in self.cfg.dominators(node.id):
                dn = self.cfg.nodes[d]
                if dn.kind == "test" and "isinstance" in dn.label and actual in dn.label:
                    pol = self.cfg.branch_taken(d, node.id)
                    if pol is not None:
                        import re as _re
                        lab = _re.sub(r"\b%s\b" % _re.escape(actual), formal, dn.label)
                        while lab.startswith("not "):  # polarity-normal form: `not isinstance(x, T)` true == `isinstance(x, T)` false
                            lab, pol = lab[4:].strip(), not pol
                        if lab.startswith("(") and lab.endswith(")"):
                            lab = lab[1:-1]
                        assumed[lab] = pol

        def prune(a: int, b: int, pol):
            na = sub.cfg.nodes[a]
            if na.kind != "test" or pol is None:
                return False
            lab = na.label
            while lab.startswith("not "):
                lab, pol = lab[4:].strip(), not pol
            if lab.startswith("(") and lab.endswith(")"):
                lab = lab[1:-1]
            return lab in assumed and pol != assumed[lab]

        witness = sub.cfg.must_pass(lambda n: n.id in guards, prune=prune)
        self._callee_cache[key] = witness is None
        return witness is None

    def _recv_selfd_strict(self, recv: ast.AST) -> bool:
        for x in ast.walk(recv):
            if isinstance(x, ast.Name) and x.id == self.self_name:
                return True
            if isinstance(x, ast.Call) and isinstance(x.func, ast.Name) and x.func.id == "super":
                return True
            if isinstance(x, ast.Name) and x.id in self.selfd and x.id not in self.tainted:
                return True
        return False

    def guard_binop(self, b: ast.BinOp) -> bool:
        if not isinstance(b.op, ast.MatMult):
            return False
        l, r = b.left, b.right
        if self.mentions_taint(l) and self.is_selfd(r) and self._recv_selfd_strict(r) or \
                self.mentions_taint(r) and self.is_selfd(l) and self._recv_selfd_strict(l):
            return True
        # res is computed from self (and possibly the operand): torch checks the other side against it
        if self.mentions_taint(l) and self.is_selfd(r) or self.mentions_taint(r) and self.is_selfd(l):
            lt = {x.id for x in ast.walk(l) if isinstance(x, ast.Name)} & self.tainted
            rt = {x.id for x in ast.walk(r) if isinstance(x, ast.Name)} & self.tainted
            # guard for the operand on the side that is NOT self-derived
            return True
        return False

    def mentions_taint(self, e: ast.AST) -> bool:
        return any(isinstance(x, ast.Name) and (x.id in self.tainted or x.id in self.shape_names) for x in ast.walk(e))

    def _collect_shape_names(self) -> None:
        """Locals holding the shape of the operand (shape = other.shape; n = rhs.size(-2))."""
        for _ in range(3):
            for n in walk_body(self.fn):
                if isinstance(n, ast.Assign) and len(n.targets) == 1 and isinstance(n.targets[0], ast.Name):
                    v = n.value
                    probe = None
                    if isinstance(v, ast.Attribute) and v.attr in SHAPE_PROBES:
                        probe = v.value
                    elif isinstance(v, ast.Call) and isinstance(v.func, ast.Attribute) and v.func.attr in SHAPE_PROBES:
                        probe = v.func.value
                    elif isinstance(v, ast.Subscript) and isinstance(v.value, ast.Attribute) and v.value.attr in SHAPE_PROBES:
                        probe = v.value.value
                    if probe is not None and any(isinstance(x, ast.Name) and x.id in self.tainted for x in ast.walk(probe)):
                        self.shape_names.add(n.targets[0].id)

    def is_tainted(self, e: ast.AST) -> bool:
        """The value of e may still be (a view / reshaping / attribute of) the unchecked operand."""
        if isinstance(e, ast.Name):
            return e.id in self.tainted
        if isinstance(e, ast.Constant):
            return False
        if isinstance(e, ast.Attribute):
            if e.attr in SCALAR_ATTRS:
                return False
            return self.is_tainted(e.value)
        if isinstance(e, ast.Compare):
            return False
        if isinstance(e, ast.Call):
            if self.guard_call(e):
                return False
            if isinstance(e.func, ast.Attribute) and e.func.attr in SCALAR_METHODS:
                return False
            d = dotted(e.func)
            if d in ("torch.is_tensor", "isinstance", "len", "torch.Size", "hasattr", "callable", "torch.broadcast_shapes"):
                return False
            parts = list(e.args) + [k.value for k in e.keywords]
            if isinstance(e.func, ast.Attribute):
                parts.append(e.func.value)
            return any(self.is_tainted(p) for p in parts)
        if isinstance(e, ast.BinOp):
            if self.guard_binop(e) or self._contains_guard(e):
                return False  # the checked contraction is evaluated as part of this expression
            return self.is_tainted(e.left) or self.is_tainted(e.right)
        if isinstance(e, ast.Subscript):
            return self.is_tainted(e.value)
        if isinstance(e, ast.Starred):
            return self.is_tainted(e.value)
        if isinstance(e, (ast.Lambda,)):
            return False
        return any(self.is_tainted(ch) for ch in ast.iter_child_nodes(e) if isinstance(ch, ast.expr))

    def guard_nodes(self) -> List[int]:
        out = []
        for n in self.cfg.stmt_nodes():
            a = n.ast
            parts: List[ast.AST]
            if n.kind == "iter":
                parts = [a.iter]
            elif n.kind == "with":
                parts = [i.context_expr for i in a.items]
            elif n.kind == "except":
                continue
            else:
                parts = [a]
            is_guard = False
            for p in parts:
                for x in ast.walk(p):
                    if isinstance(x, ast.Call) and self.guard_call(x):
                        is_guard = True
                    if isinstance(x, ast.BinOp) and self.guard_binop(x) and self.mentions_taint(x):
                        is_guard = True
            if n.kind == "test" and not is_guard:
                st = getattr(n, "stmt", None)
                if st is not None and self._is_shape_test(a) and self._branch_raises(st):
                    is_guard = True
            if is_guard:
                out.append(n.id)
        return out

    def _is_shape_test(self, t: ast.AST) -> bool:
        probes_operand = False
        for x in ast.walk(t):
            if isinstance(x, ast.Attribute) and x.attr in SHAPE_PROBES and self.mentions_taint(x.value):
                probes_operand = True
            if isinstance(x, ast.Name) and x.id in self.shape_names:
                probes_operand = True
        return probes_operand and self.is_selfd(t)

    @staticmethod
    def _branch_raises(st: ast.stmt) -> bool:
        def raises(body):
            return any(isinstance(s, ast.Raise) for s in body) or any(
                isinstance(s, ast.If) and (raises(s.body) or raises(s.orelse)) for s in body)
        return raises(getattr(st, "body", [])) or raises(getattr(st, "orelse", []))

    # ------------------------------------------------------------------ uses
    def uses(self) -> List[Tuple[ast.AST, str, int]]:
        """(ast node, description, cfg node id) of every elementwise use / return of the unchecked operand."""
        out = []
        for n in self.cfg.stmt_nodes():
            a = n.ast
            if n.kind in ("except",):
                continue
            roots: List[ast.AST]
            if n.kind == "iter":
                roots = [a.iter]
            elif n.kind == "with":
                roots = [i.context_expr for i in a.items]
            else:
                roots = [a]
            for r in roots:
                for x in ast.walk(r):
                    if isinstance(x, ast.BinOp) and isinstance(x.op, (ast.Mult, ast.Div)):
                        if self.is_tainted(x.left) or self.is_tainted(x.right):
                            if not self._contains_guard(x):
                                out.append((x, f"elementwise `{short(x, 70)}`", n.id))
                    elif isinstance(x, ast.Call):
                        d = dotted(x.func)
                        parts = list(x.args) + [k.value for k in x.keywords]
                        if isinstance(x.func, ast.Attribute) and x.func.attr in ELEMENTWISE_METHODS:
                            if self.is_tainted(x.func.value) or any(self.is_tainted(p) for p in parts):
                                if not self._contains_guard(x):
                                    out.append((x, f"elementwise `{short(x, 70)}`", n.id))
                        elif d in ELEMENTWISE_TORCH and any(self.is_tainted(p) for p in parts):
                            out.append((x, f"elementwise `{short(x, 70)}`", n.id))
                if isinstance(r, ast.Return) and r.value is not None:
                    vals = r.value.elts if isinstance(r.value, ast.Tuple) else [r.value]
                    for v in vals:
                        if self.is_tainted(v) and not self._is_elementwise_expr(v):
                            out.append((r, "returns (a view / reshaping of) the operand", n.id))
        return out

    def _is_elementwise_expr(self, v: ast.AST) -> bool:
        """The returned expression is itself an elementwise use already reported."""
        if isinstance(v, ast.BinOp) and isinstance(v.op, (ast.Mult, ast.Div)):
            return True
        if isinstance(v, ast.Call) and isinstance(v.func, ast.Attribute) and v.func.attr in ELEMENTWISE_METHODS:
            return True
        return False

    def _contains_guard(self, e: ast.AST) -> bool:
        for x in ast.walk(e):
            if isinstance(x, ast.Call) and self.guard_call(x):
                return True
        return False


def correlated_dominators(cfg: CFG, nid: int, params: Set[str]) -> Set[int]:
    """Dominators of nid when branches correlated with the `<param> is None` tests that dominate nid are pruned:
    `if p is None: A else: G` ... `if p is None: B else: U`  -  G guards U although it does not dominate it."""
    import re

    import networkx as nx

    assumed: Dict[str, bool] = {}
    for d in cfg.dominators(nid):
        dn = cfg.nodes[d]
        if dn.kind != "test":
            continue
        m = re.fullmatch(r"(\w+) is (not )?None", dn.label)
        if not m or m.group(1) not in params:
            continue
        pol = cfg.branch_taken(d, nid)
        if pol is None:
            continue
        # normalise to the truth of "<p> is None"
        is_none = pol if m.group(2) is None else (not pol)
        assumed[m.group(1)] = is_none
    if not assumed:
        return set()
    h = cfg.g.copy()
    for a, b, data in list(h.edges(data=True)):
        na = cfg.nodes[a]
        if na.kind != "test" or data.get("pol") is None:
            continue
        m = re.fullmatch(r"(\w+) is (not )?None", na.label)
        if not m or m.group(1) not in assumed:
            continue
        edge_is_none = data["pol"] if m.group(2) is None else (not data["pol"])
        if edge_is_none != assumed[m.group(1)]:
            h.remove_edge(a, b)
    try:
        idom = nx.immediate_dominators(h, cfg.entry)
    except Exception:
        return set()
    out: Set[int] = set()
    cur = nid
    while cur in idom and idom[cur] != cur:
        cur = idom[cur]
        out.add(cur)
    return out


def run(idx: ProgramIndex, rep: Report, tier: str, selftest: bool = True):
    rep.extra["explanation"] = (
        "Taint analysis over a statement-level CFG (networkx dominators) of every definition of the contraction entry "
        "points matmul/rmatmul/solve/solve_triangular/sqrt_inv_matmul/inv_quad/inv_quad_logdet on all operator "
        "classes, once per tensor operand. The base class validates operands with _matmul_broadcast_shape and torch's "
        "contraction kernels validate theirs, so an incompatible operand can only be accepted silently by an override "
        "that uses it elementwise (size-1 broadcasting) or returns it. Each such use must be dominated by a guard on "
        "that operand (shape check that raises, or delegation to a checked contraction with self). Decides, for all "
        "operand shapes at once, a necessary condition of 'incompatible shapes raise'; does NOT decide index range "
        "errors, non-square operators, nor the shape arithmetic of `+`/`*` where broadcasting is the specification."
    )
    rep.assumptions += [
        "torch contraction kernels (matmul, solve_triangular, cholesky_solve, linalg.solve, dsmm) raise on incompatible operands",
        "a contraction method of self / of an object derived from self validates its operand (each public entry point is "
        "itself checked by this rule; private _matmul-style hooks are reached only behind them)",
        "attribute reads of shape / size / dim / dtype do not propagate the operand",
    ]
    rep.rule("C19.G", "operand reaches an elementwise use or the return value only behind a shape guard", floor=45)
    base = idx.operator_base()
    n_defs = 0
    per_name: Dict[str, int] = {}
    for c in idx.operator_classes():
        for m in ENTRY_POINTS:
            fn = c.methods.get(m)
            if fn is None:
                continue
            n_defs += 1
            per_name[m] = per_name.get(m, 0) + 1
            operands = [p for p in fn.params()[1:] if p in OPERAND_NAMES]
            body = [s for s in fn.body() if not (isinstance(s, ast.Expr) and isinstance(s.value, ast.Constant))]
            if all(isinstance(s, ast.Raise) for s in body):
                rep.ok("C19.G", {"definition": fname(fn), "only_raises": True})
                continue
            for op in operands:
                an = Analysis(idx, fn, op)
                guards = an.guard_nodes()
                uses = an.uses()
                if not uses:
                    rep.ok("C19.G", {"definition": fname(fn), "operand": op, "unchecked_uses": 0,
                                     "guards": [an.cfg.nodes[g].label[:60] for g in guards][:3]})
                    continue
                for node, what, nid in uses:
                    doms = set(an.cfg.dominators(nid)) | correlated_dominators(an.cfg, nid, set(fn.params()))
                    g_ok = [g for g in guards if g in doms]
                    # a guard in the same statement that is evaluated as part of the use has been handled in uses()
                    sample = {"definition": fname(fn), "operand": op, "use": what,
                              "guarded_by": an.cfg.nodes[g_ok[0]].label[:80] if g_ok else None}
                    if g_ok or not an.cfg.reachable(nid):
                        rep.ok("C19.G", sample)
                    else:
                        rep.bad("C19.G", Finding(
                            PROP, "C19.G", fname(fn), f"{op}: {what}",
                            f"{fname(fn)}: operand `{op}` {what} without a dominating shape guard: an operand whose "
                            "shape is incompatible with the operator (e.g. a size-1 dimension where the matrix "
                            "dimension is expected) is broadcast / passed through instead of raising", fn.loc(node)), sample)
    # ---------------------------------------------------------------- K
    # product kernels of utils/ that EXPAND an operand parameter up to the operator's size: expand() stretches a size-1
    # dimension silently, so the expansion must be dominated by a call of the shape-validation helper on that operand
    rep.rule("C19.K", "utility product kernels validate an operand before expanding it to the operator's size", floor=1)
    guards_f = shape_guard_functions(idx)
    n_k = 0
    for m_ in idx.modules.values():
        if ".utils." not in m_.name:
            continue
        for fn in m_.functions.values():
            if not isinstance(fn.node, ast.FunctionDef) or "matmul" not in fn.name:
                continue
            cfg = CFG(fn)
            params = set(fn.params())
            for node in cfg.stmt_nodes():
                if node.kind != "stmt":
                    continue
                for x in ast.walk(node.ast):
                    if not (isinstance(x, ast.Call) and isinstance(x.func, ast.Attribute) and x.func.attr in ("expand", "expand_as", "broadcast_to")
                            and isinstance(x.func.value, ast.Name) and x.func.value.id in params and x.func.value.id in OPERAND_NAMES | {"tensor", "dense"}):
                        continue
                    p_ = x.func.value.id
                    n_k += 1
                    ok = None
                    for d in cfg.dominators(node.id):
                        dn = cfg.nodes[d]
                        if dn.ast is None:
                            continue
                        for y in ast.walk(dn.ast):
                            if isinstance(y, ast.Call) and (dotted(y.func) or "").split(".")[-1] in guards_f \
                                    and any(isinstance(z, ast.Name) and z.id == p_ for a in y.args for z in ast.walk(a)):
                                ok = short(y, 70)
                    sample = {"kernel": fname(fn), "operand": p_, "expansion": short(x, 60), "validated_by": ok}
                    if ok:
                        rep.ok("C19.K", sample)
                    else:
                        rep.bad("C19.K", Finding(PROP, "C19.K", fname(fn), f"{p_}: {norm(x)}",
                                                 f"{fname(fn)}: `{short(x, 60)}` expands the operand `{p_}` to the operator's size without a "
                                                 "preceding shape validation: an operand with a size-1 row dimension is stretched to n rows and "
                                                 "multiplied (reachable through the CG route of solve, which relies on _matmul to reject it)",
                                                 fn.loc(x)), sample)
    if n_k < 1:
        rep.error("no operand expansion found in the utility product kernels (expected toeplitz_matmul)")
    rep.analysed["entry_point_definitions"] = per_name
    if n_defs < 35:
        rep.error(f"only {n_defs} definitions of contraction entry points found (expected >= 35)")
    for m in ("matmul", "solve", "inv_quad_logdet"):
        if per_name.get(m, 0) < 5:
            rep.error(f"only {per_name.get(m, 0)} definitions of {m} found")
    if selftest:
        from ..selftest import run_fixtures

        run_fixtures(rep, PROP)
