"""C12 - cached results are transparent: answers do not depend on query history (structural clauses).

History can reach a later answer only through mutable per-object (or global) state.  The history channels are
enumerated by an effect analysis and each must be a disciplined memo:

    W  every write to a channel - an attribute of ``self`` assigned outside ``__init__``, or an entry of an object's
       ``_memoize_cache`` - is dominated by a "not yet set" test of that channel (``is None`` / ``hasattr`` /
       ``not _is_in_cache*``), or is a keyed memo (the stored value is only read back under an equality test of the key
       stored with it), or sits in a private helper all of whose call sites are so guarded, or targets an object
       constructed in the same function (a new operator has no history)
    K  ``@cached(..., ignore_args=True)`` only on methods whose arguments cannot change the result (reviewed table)
    D  attributes that denote the matrix (derived from constructor parameters in ``__init__``) are never re-assigned
       (shared with C13)
    (informational) reader / writer table of cache names; channels without a live reader
"""
from __future__ import annotations

import ast
import re
from typing import Dict, List, Optional, Set, Tuple

from ..cfg import CFG
from ..ctor import ctor_record
from ..index import AnalysisError, ClassInfo, FunctionInfo, ProgramIndex, dotted, norm, short, walk_body
from ..report import Finding, Report

PROP = "C12"

# documented, reviewed exceptions: (owner, channel) -> reason
CHANNEL_EXCEPTIONS = {
    ("settings.deterministic_probes", "probe_vectors"):
        "documented cross-query memo behind the deprecated deterministic_probes feature flag (off by default); keyed by "
        "the probe size and reset whenever the flag changes state",
}
IGNORE_ARGS_OK = {
    ("DiagLinearOperator", "_cholesky"): "the only argument is `upper`; a diagonal factor is its own transpose",
    ("IdentityLinearOperator", "_cholesky"): "the only argument is `upper`; the identity is its own transpose",
}
# names of the memoize primitives: re-derived from utils/memoize.py on every run (derive_memo_api); the literals are only
# the pinned tree's names, kept for readers of this file
# derived operators that receive a cached factorization of self, with the reason the transplanted value is valid for the NEW matrix
REVIEWED_TRANSPLANTS = {
    "add_low_rank": "root / inverse root of A + U U^T obtained from the cached roots of A by the exact low-rank update formulas",
    "cat_rows": "root / inverse root of [[A, B^T], [B, C]] assembled blockwise from the cached roots of A and the Schur complement",
}
MEMO_WRITERS = {"add_to_cache", "_add_to_cache", "_add_to_cache_ignore_args"}
MEMO_TESTS = {"_is_in_cache", "_is_in_cache_ignore_args", "_is_in_cache_ignore_all_args"}


def derive_memo_api(idx: ProgramIndex):
    """(writers, tests) of utils/memoize.py by what the functions DO: a writer stores into ``obj._memoize_cache[key]`` (or
    is a one-line public wrapper returning a writer's result), a test returns a membership test on ``_memoize_cache``."""
    m = idx.modules.get("linear_operator.utils.memoize")
    writers, tests = set(), set()
    if m is None:
        return writers, tests
    simple = {n: f for n, f in m.functions.items()
              if not any(isinstance(x, (ast.FunctionDef, ast.Lambda)) and x is not f.node for x in ast.walk(f.node))}
    # accessors: module functions that hand out the cache dictionary itself (def _ensure_cache(obj): ...; return obj._memoize_cache)
    accessors = {n for n, f in simple.items() if any(isinstance(r, ast.Return) and isinstance(r.value, ast.Attribute)
                                                     and r.value.attr == "_memoize_cache" for r in ast.walk(f.node))}

    def is_cache(e: ast.AST) -> bool:
        return (isinstance(e, ast.Attribute) and e.attr == "_memoize_cache") or (
            isinstance(e, ast.Call) and isinstance(e.func, ast.Name) and e.func.id in accessors)

    for name, fn in simple.items():
        if name in accessors:
            continue
        stores = any(isinstance(n, ast.Assign) and any(isinstance(t, ast.Subscript) and is_cache(t.value) for t in n.targets)
                     for n in ast.walk(fn.node))
        member = any(isinstance(n, ast.Compare) and len(n.ops) == 1 and isinstance(n.ops[0], ast.In)
                     and "_memoize_cache" in norm(n.comparators[0]) for n in ast.walk(fn.node))
        if stores:
            writers.add(name)
        elif member:
            tests.add(name)
    for name, fn in simple.items():
        body = [st for st in fn.body() if not (isinstance(st, ast.Expr) and isinstance(st.value, ast.Constant))]
        if name not in writers and len(body) == 1 and isinstance(body[0], ast.Return) and isinstance(body[0].value, ast.Call) \
                and isinstance(body[0].value.func, ast.Name) and body[0].value.func.id in writers:
            writers.add(name)
    # the pinned tree's names, where they still exist, remain part of the API whatever their bodies look like now
    writers |= {n for n in ("add_to_cache", "_add_to_cache", "_add_to_cache_ignore_args") if n in m.functions}
    tests |= {n for n in ("_is_in_cache", "_is_in_cache_ignore_args", "_is_in_cache_ignore_all_args") if n in m.functions}
    return writers, tests


def fname(fn: FunctionInfo) -> str:
    return f"{fn.cls.name}.{fn.name}" if fn.cls else fn.qualname.replace("linear_operator.", "", 1)


_KEY_SHAPES: Dict[str, str] = {}   # memoize primitive -> "tuple" | "bare" | "tuple-any", derived from memoize.py on every run
_WRITE_SHAPE: List[Optional[str]] = [None]
_VACUOUS: List[str] = []


def _compatible(write_shape: str, probe_shape: str) -> bool:
    return (write_shape == "tuple" and probe_shape in ("tuple", "tuple-any")) or (write_shape == "bare" and probe_shape == "bare")


def derive_key_shapes(idx: ProgramIndex) -> Dict[str, str]:
    """Key shape written / probed by each primitive of utils/memoize.py, read from its code."""
    m = idx.modules.get("linear_operator.utils.memoize")
    out: Dict[str, str] = {}
    if m is None:
        return out
    accessors = {n_ for n_, f_ in m.functions.items() if any(isinstance(r, ast.Return) and isinstance(r.value, ast.Attribute)
                                                             and r.value.attr == "_memoize_cache" for r in ast.walk(f_.node))}
    key_builders = {n_ for n_, f_ in m.functions.items() if any(isinstance(r, ast.Return) and isinstance(r.value, ast.Tuple)
                                                                for r in ast.walk(f_.node))}

    def is_cache(e: ast.AST) -> bool:
        return (isinstance(e, ast.Attribute) and e.attr == "_memoize_cache") or (
            isinstance(e, ast.Call) and isinstance(e.func, ast.Name) and e.func.id in accessors)

    def is_tuple_key(e: ast.AST) -> bool:
        return isinstance(e, ast.Tuple) or (isinstance(e, ast.Call) and isinstance(e.func, ast.Name) and e.func.id in key_builders)

    for name, fn in m.functions.items():
        if name in accessors or name in key_builders:
            continue
        for n in ast.walk(fn.node):
            if isinstance(n, ast.Assign):
                for t in n.targets:
                    if isinstance(t, ast.Subscript) and is_cache(t.value):
                        out[name] = "tuple" if is_tuple_key(t.slice) else "bare"
            if isinstance(n, ast.Compare) and len(n.ops) == 1 and isinstance(n.ops[0], ast.In):
                c = n.comparators[0]
                if is_cache(c):
                    out.setdefault(name, "tuple" if is_tuple_key(n.left) else "bare")
                elif isinstance(c, (ast.ListComp, ast.GeneratorExp)) and "_memoize_cache" in norm(c) and "[0]" in norm(c.elt):
                    out.setdefault(name, "tuple-any")
    # public wrappers inherit from the primitive they call
    changed = True
    while changed:
        changed = False
        for name, fn in m.functions.items():
            if name in out:
                continue
            for n in ast.walk(fn.node):
                if isinstance(n, ast.Call) and isinstance(n.func, ast.Name) and n.func.id in out:
                    out[name] = out[n.func.id]
                    changed = True
                    break
    return out


def unset_test(test: ast.AST, obj: str, channel: str) -> Optional[bool]:
    """Polarity of the branch on which `obj.channel` is NOT yet set, if `test` is such a test (else None)."""
    neg = False
    t = test
    while isinstance(t, ast.UnaryOp) and isinstance(t.op, ast.Not):
        neg = not neg
        t = t.operand
    res = None
    if isinstance(t, ast.Compare) and len(t.ops) == 1 and isinstance(t.comparators[0], ast.Constant) \
            and t.comparators[0].value is None and norm(t.left) == f"{obj}.{channel}":
        res = isinstance(t.ops[0], ast.Is)  # `x is None` true => unset
        if isinstance(t.ops[0], (ast.IsNot,)):
            res = False
    elif isinstance(t, ast.Call) and dotted(t.func) == "hasattr" and len(t.args) == 2 and norm(t.args[0]) == obj \
            and isinstance(t.args[1], ast.Constant) and t.args[1].value == channel:
        res = False  # hasattr true => set
    elif isinstance(t, ast.Call) and (dotted(t.func) or "").split(".")[-1] in MEMO_TESTS and t.args and norm(t.args[0]) == obj \
            and channel == "_memoize_cache":
        # the probe must be able to SEE what the guarded write stores: a bare-name probe never sees a (name, args, kwargs)
        # key and vice versa - such a guard is vacuous, the write is not write-once
        probe = _KEY_SHAPES.get((dotted(t.func) or "").split(".")[-1])
        if _WRITE_SHAPE[0] is not None and probe is not None and not _compatible(_WRITE_SHAPE[0], probe):
            _VACUOUS.append(norm(t))
            return None
        res = False  # in cache => set
    if res is None:
        return None
    return (not res) if neg else res


class ClassChannels:
    def __init__(self, idx: ProgramIndex, cls: ClassInfo):
        self.idx = idx
        self.cls = cls


def writes_in(fn: FunctionInfo) -> List[Tuple[ast.AST, str, str, ast.AST]]:
    """(statement, object expression text, channel, value) for attribute stores in fn."""
    out = []
    for n in walk_body(fn):
        tg: List[ast.AST] = []
        if isinstance(n, ast.Assign):
            tg = n.targets
        elif isinstance(n, (ast.AugAssign, ast.AnnAssign)):
            tg = [n.target]
        for t in tg:
            for x in ([t] if not isinstance(t, (ast.Tuple, ast.List)) else list(t.elts)):
                if isinstance(x, ast.Attribute) and isinstance(x.ctx, ast.Store):
                    out.append((n, norm(x.value), x.attr, getattr(n, "value", None)))
    return out


def _statement_lists(fn: FunctionInfo):
    out = []

    def rec(body):
        out.append(body)
        for st in body:
            if isinstance(st, (ast.FunctionDef, ast.AsyncFunctionDef, ast.ClassDef)):
                continue
            for f_ in ("body", "orelse", "finalbody"):
                b = getattr(st, f_, None)
                if isinstance(b, list) and b and isinstance(b[0], ast.stmt):
                    rec(b)
            for h in getattr(st, "handlers", []) or []:
                rec(h.body)
    rec(fn.body())
    return out


def _shape_of_hit(read: ast.Assign, e: ast.expr):
    """Shape of the hit-path return relative to the cached value V: 'V', ('comp', i), ('tuple', [...]), ('const', c)."""
    env: Dict[str, object] = {}
    t = read.targets[0]
    if isinstance(t, ast.Name):
        env[t.id] = "V"
    elif isinstance(t, (ast.Tuple, ast.List)):
        for i, el in enumerate(t.elts):
            if isinstance(el, ast.Name):
                env[el.id] = ("comp", i)
        env["#arity"] = len(t.elts)

    def ev(x):
        if isinstance(x, ast.Name):
            return env.get(x.id)
        if isinstance(x, ast.Constant):
            return ("const", x.value)
        if isinstance(x, ast.Tuple):
            items = [ev(y) for y in x.elts]
            if any(i is None for i in items):
                return None
            if items == [("comp", k) for k in range(len(items))] and env.get("#arity") == len(items):
                return "V"
            return ("tuple", items)
        if isinstance(x, ast.Subscript) and isinstance(x.slice, ast.Constant) and ev(x.value) == "V":
            return ("comp", x.slice.value)
        return None
    return ev(e)


def _shape_of_miss(e: ast.expr, writer_names: Set[str]):
    def ev(x):
        if isinstance(x, ast.Call) and isinstance(x.func, ast.Attribute) and isinstance(x.func.value, ast.Name) \
                and x.func.value.id == "self" and x.func.attr in writer_names:
            return "V"
        if isinstance(x, ast.Constant):
            return ("const", x.value)
        if isinstance(x, ast.Subscript) and isinstance(x.slice, ast.Constant) and ev(x.value) == "V":
            return ("comp", x.slice.value)
        if isinstance(x, ast.Tuple):
            items = [ev(y) for y in x.elts]
            return None if any(i is None for i in items) else ("tuple", items)
        return None
    return ev(e)


def run(idx: ProgramIndex, rep: Report, tier: str, selftest: bool = True):
    rep.extra["explanation"] = (
        "Effect analysis: every store to an attribute of self outside __init__ and every write into a _memoize_cache "
        "dictionary is a history channel (a later query can observe it). For each write the statement-level CFG is "
        "queried for a dominating 'not yet set' test of the same channel with the right polarity (is None / hasattr / "
        "not _is_in_cache*), or the keyed-memo shape (value read back only under equality of the stored key), or - for "
        "private helpers - the same at every call site; writes into operators constructed in the same function are "
        "free (no history). Together with 'denotation attributes are never re-assigned' and 'ignore_args caches only "
        "where arguments cannot matter' this is a necessary condition for answers not to depend on earlier queries, "
        "decided for ALL query sequences. NOT decided: whether a transplanted factorization is valid for the new matrix, "
        "numerical equality with a fresh copy."
    )
    rep.assumptions += [
        "per-call objects (autograd ctx) and the settings classes (C17) are not history channels of an operator",
        "a value computed under a 'not yet set' guard depends only on the operator's matrix and the settings in force at "
        "that time",
    ]
    rep.rule("C12.W", "every history-channel write is write-once, keyed, or targets a new object", floor=25)
    rep.rule("C12.K", "ignore_args caches only on methods whose arguments cannot change the result", floor=25)
    rep.rule("C12.D", "denotation attributes are never re-assigned outside __init__", floor=30)
    rep.rule("C12.H", "a cache-hit shortcut returns what the miss path returns", floor=0)
    _KEY_SHAPES.clear()
    _KEY_SHAPES.update(derive_key_shapes(idx))
    w_, t_ = derive_memo_api(idx)
    if len(w_) < 3 or len(t_) < 3:
        raise AnalysisError(f"memoize primitives not recognised by structure (writers {sorted(w_)}, tests {sorted(t_)})")
    MEMO_WRITERS.clear()
    MEMO_WRITERS.update(w_)
    MEMO_TESTS.clear()
    MEMO_TESTS.update(t_)
    rep.analysed["memoize_writers"] = sorted(w_)
    rep.analysed["memoize_tests"] = sorted(t_)
    rep.analysed["memoize_key_shapes"] = dict(_KEY_SHAPES)
    if len(_KEY_SHAPES) < 6:
        raise AnalysisError(f"could not derive the key shapes of the memoize primitives ({_KEY_SHAPES})")

    base = idx.operator_base()
    channels_seen: Dict[str, List[str]] = {}
    dead_channels: List[str] = []

    # helper -> guarded at every call site? (memoised)
    helper_cache: Dict[Tuple[str, str], bool] = {}
    attr_refs: Dict[str, int] = {}

    def guarded_locally(fn: FunctionInfo, stmt: ast.AST, obj: str, channel: str, region_channels: Set[str]) -> Optional[str]:
        cfg = CFG(fn)
        node = cfg.node_of(stmt)
        if node is None:
            return None
        for d in cfg.dominators(node.id):
            dn = cfg.nodes[d]
            if dn.kind != "test":
                continue
            for ch in [channel] + sorted(region_channels):
                pol = unset_test(dn.ast, obj, ch)
                if pol is None:
                    continue
                taken = cfg.branch_taken(d, node.id)
                if taken is not None and taken == pol:
                    return f"`{dn.label}` ({'true' if pol else 'false'} branch: {obj}.{ch} not yet set)"
        return None

    def keyed_memo(fn: FunctionInfo, obj: str, channel: str) -> Optional[str]:
        """fn returns a memo only under torch.equal / == tests of sibling channels (the key) that it stores next to it;
        the discipline covers the memo channel and its key channels alike."""
        stores = {c for (_, o, c, _) in writes_in(fn) if o == obj}
        for memo in sorted(stores):
            r = _keyed_memo_of(fn, obj, memo, stores)
            if r is not None and (channel == memo or channel in r[1]):
                return r[0]
        return None

    def _keyed_memo_of(fn: FunctionInfo, obj: str, channel: str, stores: Set[str]):
        for n in walk_body(fn):
            if isinstance(n, ast.If):
                txt = norm(n.test)
                returns_memo = any(isinstance(s, ast.Return) and s.value is not None and norm(s.value) == f"{obj}.{channel}"
                                   for s in ast.walk(n))
                keys = [c for c in stores if c != channel and re.search(r"\b%s\.%s\b" % (re.escape(obj), re.escape(c)), txt)]
                if returns_memo and keys and ("torch.equal" in txt or "==" in txt):
                    return (f"keyed memo {channel}: returned only when {', '.join(sorted(keys))} equal the arguments", set(keys))
                # nested: hasattr test outside, equality inside
                for inner in ast.walk(n):
                    if isinstance(inner, ast.If) and inner is not n:
                        t2 = norm(inner.test)
                        ret2 = any(isinstance(s, ast.Return) and s.value is not None and norm(s.value) == f"{obj}.{channel}"
                                   for s in ast.walk(inner))
                        keys2 = [c for c in stores if c != channel and f"{obj}.{c}" in t2]
                        if ret2 and keys2 and ("torch.equal" in t2 or "==" in t2):
                            return (f"keyed memo {channel}: returned only when {', '.join(sorted(keys2))} equal the arguments",
                                    set(keys2))
        return None

    def call_sites(cls: ClassInfo, name: str) -> List[Tuple[FunctionInfo, ast.Call]]:
        out = []
        for c in [cls] + idx.subclasses(cls) + [k for k in cls.mro[1:]]:
            for fn in c.methods.values():
                for n in walk_body(fn):
                    if (isinstance(n, ast.Call) and isinstance(n.func, ast.Attribute) and n.func.attr == name
                            and isinstance(n.func.value, ast.Name) and n.func.value.id == "self"):
                        out.append((fn, n))
        return out

    def region_channels_of(fn: FunctionInfo, depth=0) -> Set[str]:
        """Channels of self written by fn or by the self-helpers it calls (a guard on any of them opens the region)."""
        out = {c for (_, o, c, _) in writes_in(fn) if o == "self"}
        if depth < 2 and fn.cls is not None:
            for n in walk_body(fn):
                if isinstance(n, ast.Call) and isinstance(n.func, ast.Attribute) and isinstance(n.func.value, ast.Name) \
                        and n.func.value.id == "self":
                    callee = idx.resolve_method(fn.cls, n.func.attr)
                    if callee is not None and callee is not fn and callee.name.startswith("_"):
                        out |= region_channels_of(callee, depth + 1)
        return out

    def helper_guarded(fn: FunctionInfo, channel: str, depth: int = 0) -> Optional[str]:
        key = (fn.qualname, channel)
        if key in helper_cache:
            return "every call site is guarded" if helper_cache[key] else None
        helper_cache[key] = False
        if fn.cls is None or not fn.name.startswith("_") or depth > 2:
            return None
        sites = call_sites(fn.cls, fn.name)
        if not sites:
            return None
        # the helper must be reachable ONLY through these self.<helper>(...) calls: any other reference to the name
        # (another receiver, a bound method passed as a closure, a subclass override) voids the argument
        if not attr_refs:
            for m_ in idx.modules.values():
                for n in ast.walk(m_.tree):
                    if isinstance(n, ast.Attribute):
                        attr_refs[n.attr] = attr_refs.get(n.attr, 0) + 1
        refs = attr_refs.get(fn.name, 0)
        n_defs = sum(1 for k in idx.classes.values() if fn.name in k.methods)
        if refs != len(sites) or n_defs != 1:
            return None
        for caller, call in sites:
            if caller.name == "__init__":
                continue
            g = guarded_locally(caller, call, "self", channel, region_channels_of(caller))
            if g is None and helper_guarded(caller, channel, depth + 1) is None:
                return None
        helper_cache[key] = True
        return f"private helper: all {len(sites)} call site(s) are guarded"

    # ---------------------------------------------------------------- attribute channels on operator classes
    for c in sorted(idx.classes.values(), key=lambda k: k.qualname):
        if c.module.name in ("linear_operator.settings", "linear_operator.beta_features"):
            continue
        init = c.methods.get("__init__")
        for mname, fn in sorted(c.methods.items()):
            if mname == "__init__" or fn.is_staticmethod():
                continue
            if fn.is_setter():
                continue
            self_name = fn.params()[0] if fn.params() else "self"
            # property setters are attributed to their callers (only LinearOperator.__init__ assigns self._args)
            for defs in c.all_defs.get(mname, []):
                pass
            for stmt, obj, channel, value in writes_in(fn):
                if obj != self_name:
                    continue
                owner = f"{c.name}.{channel}"
                channels_seen.setdefault(owner, []).append(fname(fn))
                region = region_channels_of(fn)
                why = guarded_locally(fn, stmt, obj, channel, region) or keyed_memo(fn, obj, channel) \
                    or helper_guarded(fn, channel)
                # a channel nobody reads (name-mangled / write-only) carries no history
                if why is None:
                    attr_names = {channel}
                    if channel.startswith("__") and not channel.endswith("__"):
                        attr_names = {channel, f"_{c.name}{channel}"}
                    readers = 0
                    assigned_names: Set[str] = set()
                    for k in [c] + idx.subclasses(c) + c.mro[1:]:
                        for g in k.methods.values():
                            for (_s, o2, c2, _v) in writes_in(g):
                                assigned_names.add(c2)
                                if c2.startswith("__") and not c2.endswith("__"):
                                    assigned_names.add(f"_{k.name}{c2}")
                    for k in [c] + idx.subclasses(c) + c.mro[1:]:
                        for g in k.methods.values():
                            # reads under `if hasattr(self, "<never assigned name>")` are unreachable
                            dead_regions = []
                            for n in ast.walk(g.node):
                                if isinstance(n, ast.If):
                                    for x in ast.walk(n.test):
                                        if isinstance(x, ast.Call) and dotted(x.func) == "hasattr" and len(x.args) == 2 \
                                                and isinstance(x.args[1], ast.Constant) and x.args[1].value not in assigned_names:
                                            dead_regions += [id(y) for b in n.body for y in ast.walk(b)]
                            for n in ast.walk(g.node):
                                if id(n) in dead_regions:
                                    continue
                                if isinstance(n, ast.Attribute) and isinstance(n.ctx, ast.Load) and n.attr in attr_names:
                                    readers += 1
                                if isinstance(n, ast.Call) and dotted(n.func) in ("hasattr", "getattr") and len(n.args) >= 2 \
                                        and isinstance(n.args[1], ast.Constant) and n.args[1].value in (
                                            {f"_{c.name}{channel}"} if channel.startswith("__") else attr_names):
                                    readers += 1
                    if readers == 0:
                        dead_channels.append(f"{owner} (written by {fname(fn)}, never read)")
                        rep.ok("C12.W", {"channel": owner, "write": short(stmt, 80), "in": fname(fn),
                                         "discipline": "dead channel: no reader, carries no history"})
                        continue
                sample = {"channel": owner, "write": short(stmt, 80), "in": fname(fn), "discipline": why}
                if why is not None:
                    rep.ok("C12.W", sample)
                else:
                    rep.bad("C12.W", Finding(
                        PROP, "C12.W", fname(fn), f"self.{channel} = {short(value, 60) if value is not None else ''}",
                        f"{fname(fn)} assigns self.{channel} without a dominating 'not yet set' test, key test or guarded "
                        "call site: an existing operator object is changed by a query, so later answers (or the object "
                        "another reference holds) depend on the call history", fn.loc(stmt)))

    # ---------------------------------------------------------------- memo dictionary channel
    n_memo = 0
    for fn in idx.functions:
        if isinstance(fn.node, ast.Lambda):
            continue
        in_memoize = fn.module.name == "linear_operator.utils.memoize"
        for n in walk_body(fn):
            call = n if isinstance(n, ast.Call) else None
            if call is None:
                continue
            leaf = (dotted(call.func) or "").split(".")[-1]
            if leaf not in MEMO_WRITERS or not call.args:
                continue
            n_memo += 1
            obj = norm(call.args[0])
            key = norm(call.args[1]) if len(call.args) > 1 else "?"
            where = fname(fn)
            if in_memoize and fn.name in ("add_to_cache",):
                rep.ok("C12.W", {"channel": "_memoize_cache", "write": short(call, 80), "in": where,
                                 "discipline": "public primitive: obligation is at its call sites"})
                continue
            # freshly constructed target?
            fresh = False
            if isinstance(call.args[0], ast.Name) and call.args[0].id not in fn.all_param_names():
                for a in walk_body(fn):
                    if isinstance(a, ast.Assign) and any(isinstance(t, ast.Name) and t.id == call.args[0].id for t in a.targets):
                        v = a.value
                        if isinstance(v, ast.Call) or isinstance(v, ast.BinOp):
                            fresh = True
            _WRITE_SHAPE[0] = _KEY_SHAPES.get(leaf)
            del _VACUOUS[:]
            g = guarded_locally(fn, n, obj, "_memoize_cache", set())
            _WRITE_SHAPE[0] = None
            sample = {"channel": f"_memoize_cache[{key}] of {obj}", "write": short(call, 90), "in": where,
                      "key_shape": _KEY_SHAPES.get(leaf)}
            if g is None and _VACUOUS and not fresh:
                rep.bad("C12.W", Finding(
                    PROP, "C12.W", where, norm(call) + " [vacuous guard]",
                    f"{where} stores into the cache of `{obj}` under {key} behind `{_VACUOUS[0][:70]}`, but that probe looks for a "
                    f"{_KEY_SHAPES.get((_VACUOUS[0].split('(')[0]).split('.')[-1], '?')} key while the write (and every @cached writer) stores a "
                    f"{_KEY_SHAPES.get(leaf)} key: the guard can never see an existing entry, so an already cached result is replaced - "
                    "the same query then answers differently than on a fresh copy", fn.loc(call)), sample)
                continue
            if g is not None:
                rep.ok("C12.W", {**sample, "discipline": g})
            elif fresh:
                rep.ok("C12.W", {**sample, "discipline": "target operator is constructed in this function (no history)"})
            else:
                rep.bad("C12.W", Finding(
                    PROP, "C12.W", where, norm(call),
                    f"{where} stores into the cache of the existing object `{obj}` under {key} without testing that the "
                    "entry is absent: a result cached by an earlier query is silently replaced, so the same query returns "
                    "something else afterwards than on a fresh copy", fn.loc(call)))
    # direct subscript stores into a _memoize_cache
    for fn in idx.functions:
        for n in walk_body(fn):
            if isinstance(n, ast.Assign):
                for t in n.targets:
                    if isinstance(t, ast.Subscript) and isinstance(t.value, ast.Attribute) and t.value.attr == "_memoize_cache":
                        n_memo += 1
                        obj = norm(t.value.value)
                        g = guarded_locally(fn, n, obj, "_memoize_cache", set())
                        # the primitive writers of memoize.py are called behind `not _is_in_cache*` in the decorators
                        if g is None and fn.module.name == "linear_operator.utils.memoize" and fn.name in MEMO_WRITERS:
                            ok_sites = True
                            nsites = 0
                            for f2 in fn.module.functions.values():
                                for f3 in [f2] + [x for x in idx.functions if x.parent is f2]:
                                    for c2 in walk_body(f3):
                                        if isinstance(c2, ast.Call) and isinstance(c2.func, ast.Name) and c2.func.id == fn.name:
                                            if f3.name in ("add_to_cache",):
                                                continue  # public primitive, judged at its own call sites
                                            nsites += 1
                                            if guarded_locally(f3, c2, norm(c2.args[0]), "_memoize_cache", set()) is None:
                                                ok_sites = False
                            if ok_sites and nsites:
                                g = f"primitive writer: its {nsites} decorator call site(s) are behind `not _is_in_cache*`"
                        if g is not None:
                            rep.ok("C12.W", {"channel": "_memoize_cache", "write": short(n, 80), "in": fname(fn), "discipline": g})
                        else:
                            rep.bad("C12.W", Finding(PROP, "C12.W", fname(fn), norm(n),
                                                     "unguarded store into a _memoize_cache dictionary", fn.loc(n)))
    if n_memo < 8:
        rep.error(f"only {n_memo} memo-dictionary write sites found (expected >= 8)")

    # module-level / class-level globals written from functions (e.g. settings.deterministic_probes.probe_vectors)
    for fn in idx.functions:
        if fn.module.name in ("linear_operator.settings", "linear_operator.beta_features"):
            continue
        for stmt, obj, channel, value in writes_in(fn):
            q = idx.resolve_name(fn.module, obj) if re.fullmatch(r"[\w\.]+", obj) else None
            if q and q in idx.classes:
                owner = q.replace("linear_operator.", "")
                exc = CHANNEL_EXCEPTIONS.get((owner, channel))
                g = guarded_locally(fn, stmt, obj, channel, set())
                sample = {"channel": f"{owner}.{channel} (global)", "write": short(stmt, 80), "in": fname(fn)}
                if exc:
                    rep.ok("C12.W", {**sample, "exception": exc})
                elif g:
                    rep.ok("C12.W", {**sample, "discipline": g})
                else:
                    rep.bad("C12.W", Finding(PROP, "C12.W", fname(fn), norm(stmt),
                                             f"{fname(fn)} writes the global {owner}.{channel}: results of later queries on "
                                             "any operator depend on it", fn.loc(stmt)))

    # ---------------------------------------------------------------- K
    cached_sites = 0
    for c in idx.classes.values():
        for mname, fn in c.methods.items():
            for d in fn.decorators:
                f = d.func if isinstance(d, ast.Call) else d
                if (dotted(f) or "").split(".")[-1] != "cached":
                    continue
                cached_sites += 1
                ign = isinstance(d, ast.Call) and any(k.arg == "ignore_args" and isinstance(k.value, ast.Constant) and k.value.value
                                                      for k in d.keywords)
                nparams = len(fn.all_param_names()) - 1
                sample = {"method": f"{c.name}.{mname}", "decorator": norm(d), "parameters": nparams}
                if not ign:
                    rep.ok("C12.K", {**sample, "keyed_by": "(name, args, kwargs)"})
                elif nparams == 0:
                    rep.ok("C12.K", {**sample, "keyed_by": "name (method takes no arguments)"})
                elif (c.name, mname) in IGNORE_ARGS_OK:
                    rep.ok("C12.K", {**sample, "exception": IGNORE_ARGS_OK[(c.name, mname)]})
                else:
                    rep.bad("C12.K", Finding(
                        PROP, "C12.K", f"{c.name}.{mname}", norm(d),
                        f"{c.name}.{mname} takes {nparams} argument(s) but is cached with ignore_args=True: the first call "
                        "fixes the answer for every later argument (e.g. an upper and a lower factor are confused)", fn.loc()))
    if cached_sites < 25:
        rep.error(f"only {cached_sites} @cached sites found (expected >= 25)")
    # ---- one cache name, one computation: as seen from any concrete class, the methods decorated with the same cache name
    # all have the same method name (overrides of one another).  Two different methods under one name read each other's entry
    # (an argument-less helper lands exactly on the key of the public method called without arguments).
    def cache_name(fn_: FunctionInfo) -> Optional[str]:
        for d in fn_.decorators:
            f = d.func if isinstance(d, ast.Call) else d
            if (dotted(f) or "").split(".")[-1] != "cached":
                continue
            if isinstance(d, ast.Call):
                kw = next((k.value for k in d.keywords if k.arg == "name"), d.args[0] if d.args else None)
                if isinstance(kw, ast.Constant) and isinstance(kw.value, str):
                    return kw.value
                if kw is not None:
                    return None
            return fn_.name
        return None

    reported = set()
    for c in idx.operator_classes():
        by_name: Dict[str, Dict[str, FunctionInfo]] = {}
        for k_ in c.mro:
            for mname, fn in k_.methods.items():
                cn = cache_name(fn)
                if cn is not None:
                    by_name.setdefault(cn, {}).setdefault(mname, fn)
        for cn, users in by_name.items():
            if len(users) > 1:
                key = (cn, tuple(sorted(users)))
                if key in reported:
                    continue
                reported.add(key)
                worst = sorted(users.items(), key=lambda kv: (kv[0].startswith("_") is False, kv[0]))[0][1]
                rep.bad("C12.K", Finding(
                    PROP, "C12.K", f"{worst.cls.name}.{worst.name}", f"cache name {cn!r} shared by the methods {sorted(users)}",
                    f"the methods {sorted(users)} (as resolved on {c.name}) are all memoized under the cache name {cn!r}: a call of one "
                    "of them with the same arguments returns what the OTHER one stored (a raw root tensor for a RootLinearOperator, a "
                    "Lanczos root for an exact one), depending on the call history", worst.loc()))
            else:
                rep.count("C12.K")

    # ---------------------------------------------------------------- D (same rule as C13.D)
    for c in idx.operator_classes():
        rec = ctor_record(idx, c)
        if rec.init is None:
            continue
        denot = {a for a, src in rec.attr_sources.items() if src}
        for mname, fn in c.methods.items():
            if mname == "__init__" or fn.is_staticmethod() or fn.is_classmethod():
                continue
            for stmt, obj, channel, value in writes_in(fn):
                if obj == (fn.params()[0] if fn.params() else "self") and channel in denot:
                    rep.bad("C12.D", Finding(
                        PROP, "C12.D", f"{c.name}.{mname}", norm(stmt),
                        f"{c.name}.{mname} re-assigns self.{channel}, which __init__ derives from constructor parameter(s) "
                        f"{sorted(rec.attr_sources[channel])}: the matrix of an existing operator changes with the call history",
                        fn.loc(stmt)))
        for a in sorted(denot):
            rep.ok("C12.D", {"class": c.name, "attribute": a})

    # ---------------------------------------------------------------- informational tables
    readers: Dict[str, List[str]] = {}
    writers: Dict[str, List[str]] = {}
    for fn in idx.functions:
        for n in walk_body(fn):
            if isinstance(n, ast.Call):
                leaf = (dotted(n.func) or "").split(".")[-1]
                if leaf in MEMO_TESTS | {"pop_from_cache", "get_from_cache", "pop_from_cache_ignore_args"} and len(n.args) > 1 \
                        and isinstance(n.args[1], ast.Constant):
                    readers.setdefault(n.args[1].value, []).append(f"{fname(fn)}:{leaf}")
                if leaf in MEMO_WRITERS and len(n.args) > 1 and isinstance(n.args[1], ast.Constant):
                    writers.setdefault(n.args[1].value, []).append(fname(fn))
    for c in idx.classes.values():
        for mname, fn in c.methods.items():
            for d in fn.decorators:
                if isinstance(d, ast.Call) and (dotted(d.func) or "").endswith("cached"):
                    for k in d.keywords:
                        if k.arg == "name" and isinstance(k.value, ast.Constant):
                            writers.setdefault(k.value.value, []).append(f"@cached {c.name}.{mname}")
    # ---------------------------------------------------------------- H
    # a cache-hit shortcut (try: V = pop/get_from_cache(self, NAME, **K); return E_hit / except CachingError: pass /
    # return E_miss) must return what the miss path returns - otherwise the answer depends on whether an earlier query
    # populated the cache.  A reader whose NAME has no writer anywhere is dormant (vacuously fine, listed).
    cached_methods: Dict[str, List[FunctionInfo]] = {}
    for c in idx.classes.values():
        for mname, fn in c.methods.items():
            for d in fn.decorators:
                f_ = d.func if isinstance(d, ast.Call) else d
                if (dotted(f_) or "").split(".")[-1] != "cached":
                    continue
                nm = mname
                if isinstance(d, ast.Call):
                    for k in d.keywords:
                        if k.arg == "name" and isinstance(k.value, ast.Constant):
                            nm = k.value.value
                cached_methods.setdefault(nm, []).append(fn)
    n_h = 0
    for fn in idx.functions:
        for body in _statement_lists(fn):
            for i, st in enumerate(body):
                if not (isinstance(st, ast.Try) and any("CachingError" in norm(h.type) for h in st.handlers if h.type is not None)):
                    continue
                read = None
                for x in st.body:
                    if isinstance(x, ast.Assign) and isinstance(x.value, ast.Call) and (dotted(x.value.func) or "").split(".")[-1] in (
                            "pop_from_cache", "get_from_cache") and len(x.value.args) > 1 and isinstance(x.value.args[1], ast.Constant):
                        read = x
                hit = next((x for x in st.body if isinstance(x, ast.Return) and x.value is not None), None)
                miss = next((x for x in body[i + 1:] if isinstance(x, ast.Return) and x.value is not None), None)
                if read is None or hit is None or miss is None:
                    continue
                n_h += 1
                name = read.value.args[1].value
                sample = {"function": fname(fn), "cache_name": name, "hit_returns": short(hit.value, 40), "miss_returns": short(miss.value, 50)}
                ws = cached_methods.get(name, [])
                explicit = [w for w in writers.get(name, []) if not w.startswith("@cached")]
                if not ws and not explicit:
                    rep.ok("C12.H", {**sample, "status": "dormant: no writer for this cache name anywhere in the package"})
                    continue
                hv = _shape_of_hit(read, hit.value)
                mv = _shape_of_miss(miss.value, {w.name for w in ws})
                if hv is not None and mv is not None and hv == mv:
                    rep.ok("C12.H", {**sample, "status": "hit path and miss path return the same components"})
                else:
                    rep.bad("C12.H", Finding(PROP, "C12.H", fname(fn), f"cache '{name}': hit returns {short(hit.value, 40)}, miss returns {short(miss.value, 50)}",
                                             f"{fname(fn)}: when the cache entry '{name}' exists (written by "
                                             f"{', '.join(sorted(w.qualname.split('.')[-2] + '.' + w.name for w in ws) + explicit)}) the method returns "
                                             f"`{short(hit.value, 40)}`, otherwise `{short(miss.value, 50)}` - these differ, so the answer "
                                             "depends on which queries ran before (and pop_from_cache consumes the entry)", fn.loc(hit)), sample)
    rep.analysed["cache_hit_shortcuts"] = n_h
    rep.analysed["cache_name_writers"] = {k: sorted(set(v))[:8] for k, v in sorted(writers.items())}
    rep.analysed["cache_name_readers"] = {k: sorted(set(v))[:8] for k, v in sorted(readers.items())}
    rep.analysed["cache_names_read_but_never_written"] = sorted(set(readers) - set(writers))
    rep.analysed["dead_channels"] = dead_channels
    rep.analysed["attribute_channels"] = {k: sorted(set(v)) for k, v in sorted(channels_seen.items())}

    # ---------------------------------------------------------------- M
    # cached results and recorded tensors are handed out BY REFERENCE: an in-place write into operator-held storage (the
    # ownership engine of C13, provenance SELF) changes what every later query on this - or a sibling - operator returns
    from .c13 import write_findings_for

    rep.rule("C12.M", "no in-place write into storage held by an existing operator (cached results, recorded tensors)", floor=100)
    write_findings_for(idx, rep, PROP, "C12.M", lambda f: "attribute of self" in f.message,
                       prefix="a later query on the same (or a sibling) operator sees the modified value: ")

    from ..recordmut import report_denotation_container_mutations

    report_denotation_container_mutations(idx, rep, PROP, "C12.D")

    # ---------------------------------------------------------------- T
    # "operators derived from an existing one carry over a cached factorization only if it is a valid factorization of the
    # new matrix": who may transplant.  A store into the cache of ANOTHER object than self is a transplant; whether the
    # transplanted value is a factorization of the new matrix is algebra this analysis cannot do, so the sites are a reviewed
    # table and any transplant outside the code reachable from them is reported for review.
    rep.rule("C12.T", "cached factorizations are carried over to derived operators only at the reviewed sites", floor=4)
    base = idx.operator_base()
    entries = [f for nm, why in REVIEWED_TRANSPLANTS.items() for f in [base.methods.get(nm)] if f is not None]
    if len(entries) < len(REVIEWED_TRANSPLANTS):
        raise AnalysisError(f"reviewed transplant sites not found on the base class: {sorted(REVIEWED_TRANSPLANTS)}")
    reach = {f.qualname for f in entries}
    work = list(entries)
    while work:
        f_ = work.pop()
        for n in walk_body(f_):
            if not isinstance(n, ast.Call):
                continue
            tgt = None
            if isinstance(n.func, ast.Name):
                tgt = idx.function_of_expr(f_.module, n.func)
            elif isinstance(n.func, ast.Attribute) and isinstance(n.func.value, ast.Name) and n.func.value.id == "self" and f_.cls is not None:
                tgt = idx.resolve_method(f_.cls, n.func.attr)
            if tgt is not None and tgt.qualname not in reach and tgt.module is f_.module and tgt.name.startswith("_"):
                reach.add(tgt.qualname)
                work.append(tgt)
    for fn in idx.functions:
        if fn.module.name == "linear_operator.utils.memoize" or fn.module.name.startswith("linear_operator.test"):
            continue
        self_name = fn.params()[0] if (fn.cls is not None and fn.params()) else None
        for n in walk_body(fn):
            if not (isinstance(n, ast.Call) and (dotted(n.func) or "").split(".")[-1] in MEMO_WRITERS and n.args):
                continue
            obj = n.args[0]
            if isinstance(obj, ast.Name) and obj.id == self_name:
                continue
            sample = {"function": fname(fn), "transplant": short(n, 80), "reviewed_site": fn.qualname in reach}
            if fn.qualname in reach:
                rep.ok("C12.T", sample)
            else:
                rep.bad("C12.T", Finding(PROP, "C12.T", fname(fn), norm(n)[:100],
                                         f"{fname(fn)} stores a cached result into the cache of another operator (`{short(n, 70)}`): a "
                                         "factorization is carried over to a derived operator outside the reviewed transplant sites "
                                         f"({', '.join(sorted(REVIEWED_TRANSPLANTS))}); whether it is a valid factorization of the NEW matrix "
                                         "has to be argued (and, if it is, the site added to the table with its reason)", fn.loc(n)), sample)
    if selftest:
        from ..selftest import run_fixtures

        run_fixtures(rep, PROP)
