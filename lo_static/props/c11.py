"""C11 - MINRES / contour-integral quadrature (structural skeleton; accuracy is numerical).

minres (linear_operator/utils/minres.py):
    M1  zero right-hand sides: after the iteration the returned solution is masked by ``rhs_is_zero`` on every path
    M2  linearity in b: rhs is divided by rhs_norm before the iteration, the returned solution is multiplied back after it
    M3  leading shift dimension: every ``squeeze(0)`` of the solution is controlled by a test on the number of shifts,
        and ``shifts`` is None-tested before its first dereference
    M4  vector right-hand side: ``solution.squeeze(-1)`` happens exactly when ``rhs.unsqueeze(-1)`` happened (flag pairing)
    M5  the shifts / the multiplicative value enter the recurrence: inside the helper the solution depends on ``shifts``;
        inside the loop alpha depends on ``value``
    M6  rotating buffers: every tail rotation ``a, b, c = b, c, a`` binds pairwise distinct buffers and shifts roles
        ``*_prev2 <- *_prev1 <- *_curr``; a buffer coming from outside the rotated family is allocated per iteration
    M7  the early exit is controlled by ``settings.minres_tolerance`` and every in-place division by a Lanczos norm is
        preceded by ``clamp_min_(eps)``

contour_integral_quad and its consumers:
    Q1  every call site unpacks as many values as the producer returns, and the value multiplied by ``weights`` and
        summed over dim 0 derives from position 0 (the shifted solves), never from the un-shifted solve
    Q2  offset agreement: shifts are allocated with N+k rows, filled from row k, and the solves are split at the same k
    Q3  ``inverse`` is consulted: the extra multiplication by K is controlled by ``not inverse``
    Q4  the non-positive eigenvalue estimate raises inside a try whose handler installs the diagonal fallback
"""
from __future__ import annotations

import ast
import re
from typing import Dict, List, Optional, Set, Tuple

import networkx as nx

from ..cfg import CFG, Node
from ..deps import value_reads as value_reads_, dependence, reads, root_name, statement_defs, subtree_nodes
from ..index import AnalysisError, FunctionInfo, ProgramIndex, dotted, norm, short, walk_body
from ..report import Finding, Report

PROP = "C11"
MINRES = "linear_operator.utils.minres"
CIQ = "linear_operator.utils.contour_integral_quad"


def fname(fn: FunctionInfo) -> str:
    return fn.qualname.replace("linear_operator.", "", 1)


def _inside(outer: ast.AST, inner: ast.AST) -> bool:
    return any(x is inner for x in ast.walk(outer))


def _defs_of(st: ast.AST):
    out = []
    for x in ast.walk(st):
        out += statement_defs(x)
    return out


def controlling(cfg: CFG, nid: int) -> List[Tuple[Node, Optional[bool]]]:
    """Dominating tests of a node (nearest first) with the branch polarity that reaches it."""
    out = []
    for d in cfg.dominators(nid):
        nd = cfg.nodes[d]
        if nd.kind == "test":
            pol = cfg.branch_taken(d, nid)
            if pol is not None:
                out.append((nd, pol))
    return out


def squeeze_calls(st: ast.AST, var: str, dim) -> List[ast.Call]:
    out = []
    for x in ast.walk(st):
        if (isinstance(x, ast.Call) and isinstance(x.func, ast.Attribute) and x.func.attr in ("squeeze", "squeeze_")
                and root_name(x.func.value) == var and len(x.args) == 1):
            a = x.args[0]
            v = None
            if isinstance(a, ast.Constant):
                v = a.value
            elif isinstance(a, ast.UnaryOp) and isinstance(a.op, ast.USub) and isinstance(a.operand, ast.Constant):
                v = -a.operand.value
            if v == dim:
                out.append(x)
    return out


def _is_lt_of(v: ast.AST, name: str) -> bool:
    if isinstance(v, ast.Call):
        d = dotted(v.func) or ""
        if d in ("torch.lt", "torch.le", "torch.less") and v.args and root_name(v.args[0]) == name:
            return True
        if isinstance(v.func, ast.Attribute) and v.func.attr in ("lt", "le", "less") and not d.startswith("torch.") and root_name(v.func.value) == name:
            return True
    if isinstance(v, ast.Compare) and len(v.ops) == 1 and isinstance(v.ops[0], (ast.Lt, ast.LtE)) and root_name(v.left) == name:
        return True
    return False


def returned_names(fn: FunctionInfo) -> Tuple[List[ast.Return], Set[str]]:
    rets = [n for n in walk_body(fn) if isinstance(n, ast.Return) and n.value is not None]
    names: Set[str] = set()
    for r in rets:
        first = r.value.elts[0] if isinstance(r.value, ast.Tuple) else r.value
        rn = root_name(first)
        if rn:
            names.add(rn)
    return rets, names


# ------------------------------------------------------------------------------------------------ minres
def check_minres(idx: ProgramIndex, rep: Report):
    m = idx.modules.get(MINRES)
    if m is None or "minres" not in m.functions:
        raise AnalysisError(f"{MINRES}.minres not found")
    fn0 = m.functions["minres"]
    # same-module helpers (the Givens / Lanczos update kernel, extracted normalisation or finalisation steps) are inlined:
    # the rules see one body whether or not a maintainer has split the function
    from ..inline import inline_helpers

    fn, inlined = inline_helpers(idx, fn0)
    rep.analysed["minres_inlined_helpers"] = inlined
    cfg = CFG(fn)
    loops = [n for n in cfg.nodes.values() if n.kind == "iter"]
    body = fn.body()
    top_loops = [s for s in body if isinstance(s, ast.For)]
    if not loops or not top_loops:
        raise AnalysisError("iteration loop not found at the top level of minres")
    loop_ast = top_loops[-1]
    loop = next(n for n in loops if n.ast is loop_ast)
    li = body.index(loop_ast)
    pre = dependence(fn, subtree_nodes(body[:li]))
    post = dependence(fn, subtree_nodes(body[li + 1:]))
    rets, rnames = returned_names(fn)
    if len(rnames) != 1:
        raise AnalysisError(f"minres returns {sorted(rnames)}: expected a single solution variable")
    sol = next(iter(rnames))
    # roles, found from the code (only the public parameter names are taken as given)
    RHSN = RZ = None
    for st in body[:li]:
        for x in ast.walk(st):
            if isinstance(x, ast.Assign) and len(x.targets) == 1 and isinstance(x.targets[0], ast.Name):
                v = x.value
                if RHSN is None and any(isinstance(c, ast.Call) and ((isinstance(c.func, ast.Attribute) and c.func.attr == "norm" and root_name(c.func.value) == "rhs")
                                                                     or (dotted(c.func) in ("torch.norm", "torch.linalg.norm", "torch.linalg.vector_norm") and c.args and root_name(c.args[0]) == "rhs"))
                                        for c in ast.walk(v)):
                    RHSN = x.targets[0].id
                elif RHSN is not None and RZ is None and _is_lt_of(v, RHSN):
                    RZ = x.targets[0].id
    if RHSN is None or RZ is None:
        raise AnalysisError(f"minres: roles rhs_norm / rhs_is_zero not found (rhs_norm={RHSN}, rhs_is_zero={RZ})")
    rep.analysed["minres_roles"] = {"rhs_norm": RHSN, "rhs_is_zero": RZ, "solution": sol}
    F = fname(fn0)

    # "linear in b": which columns count as zero must be decided column by column against a threshold that does not depend
    # on the right-hand side (a threshold relative to the largest column zeroes small columns of a badly scaled batch)
    rep.rule("C11.M8", "the zero-column threshold does not depend on the right-hand side", floor=1)
    for st in body[:li]:
        for x in ast.walk(st):
            if isinstance(x, ast.Assign) and len(x.targets) == 1 and isinstance(x.targets[0], ast.Name) and x.targets[0].id == RZ \
                    and _is_lt_of(x.value, RHSN):
                v = x.value
                thr = v.comparators[0] if isinstance(v, ast.Compare) else (v.args[1] if (dotted(v.func) or "").startswith("torch.") and len(v.args) > 1
                                                                           else (v.args[0] if v.args else None))
                if thr is None:
                    continue
                tdeps = set()
                for nm in value_reads_(thr):
                    tdeps |= pre.get(nm, set()) | {nm}
                sample = {"zero_test": short(x, 70), "threshold": short(thr, 40), "threshold_depends_on": sorted(tdeps & {"rhs", RHSN})}
                if tdeps & {"rhs", RHSN}:
                    rep.bad("C11.M8", Finding(PROP, "C11.M8", F, "zero-column threshold depends on the right-hand side",
                                              f"minres: `{short(x, 70)}` compares each column norm with a threshold computed from the right-hand "
                                              "side itself: which columns are treated as zero depends on the other columns of the same call, so "
                                              "the solution is not linear in b (a small column next to a large one is returned as zero)",
                                              fn.loc(x)), sample)
                else:
                    rep.ok("C11.M8", sample)

    # ---- M1 / M2
    rep.rule("C11.M1", "zero right-hand sides give a zero solution", floor=1)
    rep.rule("C11.M2", "the solution is linear in the right-hand side (normalise, then un-normalise)", floor=2)
    for r in rets:
        first = r.value.elts[0] if isinstance(r.value, ast.Tuple) else r.value
        dd = set().union(*[post.get(nm, set()) | {nm} for nm in reads(first)])
        if RZ in dd:
            rep.ok("C11.M1", {"return": short(r, 60), "masked_by": "rhs_is_zero (after the loop)"})
        else:
            rep.bad("C11.M1", Finding(PROP, "C11.M1", F, norm(r) + " [rhs_is_zero]",
                                      "after the iteration the solution is not masked by rhs_is_zero: a zero right-hand-side "
                                      "column (normalised by the fill value 1, Lanczos start 0/0) returns garbage / NaN instead of 0",
                                      fn.loc(r)))
        if RHSN in dd:
            rep.ok("C11.M2", {"return": short(r, 60), "un-normalised_by": RHSN})
        else:
            rep.bad("C11.M2", Finding(PROP, "C11.M2", F, norm(r) + " [rhs_norm]",
                                      "the returned solution is not multiplied back by rhs_norm: the solve of the normalised "
                                      "system is returned, so the result is not linear in b", fn.loc(r)))
    # the mask must not be skippable: it lies on every path loop -> return
    # the zeroing must be a SELECTION (masked_fill / where / masked assignment) applied to the solution itself:
    # multiplying by a zero factor does not remove the NaN / inf that a zero column produces inside the recurrences
    SELECTORS = ("masked_fill_", "masked_fill", "where", "masked_scatter_", "index_fill_", "nan_to_num")
    mask_nodes = set()
    for n in cfg.stmt_nodes():
        if n.kind != "stmt" or _inside(loop_ast, n.ast) or not any(nm == sol and RZ in rd for nm, rd in _defs_of(n.ast)):
            continue
        sel = any(isinstance(x, ast.Call) and ((isinstance(x.func, ast.Attribute) and x.func.attr in SELECTORS) or
                                                (dotted(x.func) or "").split(".")[-1] in SELECTORS) for x in ast.walk(n.ast)) \
            or (isinstance(n.ast, ast.Assign) and isinstance(n.ast.targets[0], ast.Subscript))
        if sel and loop.id in cfg.dominators(n.id):
            mask_nodes.add(n.id)
    if not mask_nodes:
        rep.bad("C11.M1", Finding(PROP, "C11.M1", F, "no masked selection of the solution by rhs_is_zero after the loop",
                                  "after the iteration no masked_fill / where / masked assignment zeroes the solution where "
                                  "rhs_is_zero holds; folding the mask into a multiplicative factor does not help: the recurrences "
                                  "produce NaN for a zero column (0/0) and NaN * 0 is NaN", fn.loc(loop_ast)))
    if mask_nodes:
        h = cfg.g.copy()
        h.remove_nodes_from(mask_nodes)
        if nx.has_path(h, loop.id, cfg.exit):
            rep.bad("C11.M1", Finding(PROP, "C11.M1", F, "zero mask skipped on a path",
                                      "there is a path from the iteration to a return that skips the rhs_is_zero mask", fn.loc(loop_ast)))
        else:
            rep.ok("C11.M1", {"mask_on_every_path_from_loop_to_return": True})
    if RHSN in pre.get("rhs", set()) and RZ in pre.get(RHSN, set()):
        rep.ok("C11.M2", {"rhs_normalised_by": RHSN, "zero_norm_filled": True})
    else:
        rep.bad("C11.M2", Finding(PROP, "C11.M2", F, "rhs not normalised",
                                  "before the iteration rhs is not divided by its (zero-filled) norm", fn.loc()))

    # ---- M3
    rep.rule("C11.M3", "the leading shift dimension is removed only for a single shift; default shifts", floor=2)
    n_sq0 = 0
    for node in cfg.stmt_nodes():
        if node.kind != "stmt":
            continue
        for c in squeeze_calls(node.ast, sol, 0):
            n_sq0 += 1
            ctl = controlling(cfg, node.id)

            def meaning(t_ast: ast.AST) -> ast.AST:
                """A test that is a plain flag stands for the expression the flag was (once) assigned."""
                if isinstance(t_ast, ast.Name):
                    defs = [x.value for x in walk_body(fn) if isinstance(x, ast.Assign) and len(x.targets) == 1
                            and isinstance(x.targets[0], ast.Name) and x.targets[0].id == t_ast.id]
                    if len(defs) == 1:
                        return defs[0]
                return t_ast

            def through_counts(t_ast: ast.AST) -> Tuple[Set[str], str]:
                """names and text of the test, looking through singly-assigned locals (num_shifts = shifts.numel())."""
                e = meaning(t_ast)
                names, text = set(reads(e)), norm(e)
                for _ in range(3):
                    for nm in list(names):
                        defs = [x.value for x in walk_body(fn) if isinstance(x, ast.Assign) and len(x.targets) == 1
                                and isinstance(x.targets[0], ast.Name) and x.targets[0].id == nm]
                        if len(defs) == 1 and nm not in fn.params():
                            names |= reads(defs[0])
                            text += " " + norm(defs[0])
                return names, text

            good = [t for t, pol in ctl if "shifts" in through_counts(t.ast)[0]
                    and re.search(r"numel|size|shape|len|dim", through_counts(t.ast)[1])]
            if good:
                rep.ok("C11.M3", {"squeeze": short(c, 50), "controlled_by": good[0].label[:60]})
            else:
                rep.bad("C11.M3", Finding(PROP, "C11.M3", F, norm(c) + " uncontrolled",
                                          f"`{short(c, 50)}` is not controlled by a test on the number of shifts: with several "
                                          "shifts (or a batch whose leading dimension is 1) the leading dimension is dropped / kept "
                                          "wrongly", fn.loc(c)))
    if n_sq0 == 0:
        rep.bad("C11.M3", Finding(PROP, "C11.M3", F, "no squeeze(0)",
                                  "the leading shift dimension is never removed: a single (default) shift returns an extra "
                                  "leading dimension", fn.loc()))
    # default shifts: first dereference dominated by a None test that installs a tensor
    derefs = []
    for node in cfg.stmt_nodes():
        if node.kind not in ("stmt", "test") or node.ast is None:
            continue
        tgt = node.ast
        for x in ast.walk(tgt):
            if isinstance(x, ast.Attribute) and isinstance(x.value, ast.Name) and x.value.id == "shifts":
                derefs.append((node, x))
    none_defs = [n for n in cfg.stmt_nodes() if n.kind == "stmt" and isinstance(n.ast, ast.Assign) and any(
        isinstance(t, ast.Name) and t.id == "shifts" for t in n.ast.targets) and any(
        t.kind == "test" and norm(t.ast) in ("shifts is None",) and pol is True
        for t, pol in controlling(cfg, n.id))]
    if not derefs:
        raise AnalysisError("no dereference of `shifts` found in minres")
    if not none_defs:
        rep.bad("C11.M3", Finding(PROP, "C11.M3", F, "shifts default missing",
                                  "`shifts` (default None) is dereferenced without an `if shifts is None:` default", fn.loc(derefs[0][1])))
    else:
        nd = none_defs[0]
        test_id = next(t.id for t, pol in controlling(cfg, nd.id) if "shifts is None" in norm(t.ast))
        bad = [(n, x) for n, x in derefs if not cfg.dominates(test_id, n.id)]
        if bad:
            rep.bad("C11.M3", Finding(PROP, "C11.M3", F, "shifts dereferenced before the None test: " + norm(bad[0][1]),
                                      "`shifts` is dereferenced on a path that has not passed the None default", fn.loc(bad[0][1])))
        else:
            rd = reads(nd.ast.value)
            if not {"rhs.dtype", "rhs.device"} <= rd:
                # the default may be a python number that a later, unconditional conversion turns into a tensor of rhs's
                # dtype / device before anything dereferences it
                for n2 in cfg.stmt_nodes():
                    if n2.kind == "stmt" and isinstance(n2.ast, ast.Assign) and n2.id != nd.id and any(
                            isinstance(t, ast.Name) and t.id == "shifts" for t in n2.ast.targets) \
                            and {"rhs.dtype", "rhs.device"} <= reads(n2.ast.value) and all(cfg.dominates(n2.id, n_.id) for n_, _x in derefs):
                        rd = rd | reads(n2.ast.value)
                        break
            if {"rhs.dtype", "rhs.device"} <= rd:
                rep.ok("C11.M3", {"default_shifts": short(nd.ast, 70), "dereferences_after_default": len(derefs)})
            else:
                rep.bad("C11.M3", Finding(PROP, "C11.M3", F, "default shifts dtype/device: " + norm(nd.ast),
                                          "the default shift tensor does not take dtype and device from rhs", fn.loc(nd.ast)))

    # ---- M4
    rep.rule("C11.M4", "vector right-hand sides: squeeze(-1) of the solution iff unsqueeze(-1) of rhs", floor=1)
    unsq = [n for n in cfg.stmt_nodes() if n.kind == "stmt" and any(
        isinstance(x, ast.Call) and isinstance(x.func, ast.Attribute) and x.func.attr in ("unsqueeze", "unsqueeze_")
        and root_name(x.func.value) == "rhs" for x in ast.walk(n.ast))]
    sq = [n for n in cfg.stmt_nodes() if n.kind == "stmt" and squeeze_calls(n.ast, sol, -1)]
    if len(unsq) != 1:
        raise AnalysisError(f"expected exactly one rhs.unsqueeze site in minres, found {len(unsq)}")
    U = unsq[0]
    uc = controlling(cfg, U.id)
    if not uc or "rhs" not in reads(uc[0][0].ast) and not isinstance(uc[0][0].ast, ast.Name):
        raise AnalysisError("rhs.unsqueeze(-1) is not under a recognisable test")
    if not sq:
        rep.bad("C11.M4", Finding(PROP, "C11.M4", F, "no squeeze(-1)",
                                  "rhs is unsqueezed for vector inputs but the solution is never squeezed back: a vector "
                                  "right-hand side returns a matrix", fn.loc(U.ast)))
    for S in sq:
        sc = controlling(cfg, S.id)
        flag_t = next(((t, pol) for t, pol in sc if isinstance(t.ast, ast.Name)), None)
        if flag_t is None:
            # same textual test is not accepted (rhs is rebound in between): unrecognised idiom
            if not sc:
                rep.bad("C11.M4", Finding(PROP, "C11.M4", F, "unconditional squeeze(-1)",
                                          "the solution is squeezed unconditionally: a single-column matrix right-hand side "
                                          "loses its column dimension", fn.loc(S.ast)))
                continue
            raise AnalysisError(f"solution.squeeze(-1) is controlled by `{sc[0][0].label}`: unrecognised pairing idiom")
        t, pol = flag_t
        flag = t.ast.id
        assigns = [n for n in cfg.stmt_nodes() if n.kind == "stmt" and isinstance(n.ast, ast.Assign) and any(
            isinstance(x, ast.Name) and x.id == flag for x in n.ast.targets)]
        ok = False
        why = ""
        true_sites = [a for a in assigns if isinstance(a.ast.value, ast.Constant) and a.ast.value.value is True]
        false_sites = [a for a in assigns if isinstance(a.ast.value, ast.Constant) and a.ast.value.value is False]
        expr_sites = [a for a in assigns if a not in true_sites and a not in false_sites]
        if pol is True and not expr_sites and true_sites and false_sites:
            # idiom A: flag = False; if <rhs is a vector>: rhs = rhs.unsqueeze(-1); flag = True
            same_branch = all(
                [(x.id, p) for x, p in controlling(cfg, a.id)] == [(x.id, p) for x, p in uc] for a in true_sites)
            init_uncond = all(not controlling(cfg, a.id) and cfg.dominates(a.id, uc[0][0].id) for a in false_sites)
            ok = same_branch and init_uncond
            why = "flag set True in the branch of the unsqueeze, False unconditionally before" if ok else \
                "the flag is not set exactly in the branch that unsqueezes rhs"
        elif pol is True and len(expr_sites) == 1 and not true_sites and not false_sites:
            # idiom B: flag = rhs.dim() == 1; if flag: rhs = rhs.unsqueeze(-1)
            ok = any(isinstance(x.ast, ast.Name) and x.ast.id == flag and p is True for x, p in uc) \
                and cfg.dominates(expr_sites[0].id, U.id)
            why = "one flag controls both" if ok else "the unsqueeze is not controlled by the same flag"
        else:
            why = f"flag `{flag}` polarity / assignments not in a recognised pairing"
        sample = {"unsqueeze": short(U.ast, 50), "squeeze": short(S.ast, 50), "flag": flag, "reason": why}
        if ok:
            rep.ok("C11.M4", sample)
        else:
            rep.bad("C11.M4", Finding(PROP, "C11.M4", F, f"squeeze(-1) under `{flag}` not paired with unsqueeze",
                                      f"`{short(S.ast, 50)}` is controlled by `{flag}` but {why}: vector and single-column "
                                      "right-hand sides are confused", fn.loc(S.ast)))

    # ---- M5
    rep.rule("C11.M5", "shifts and the multiplicative value enter the recurrence", floor=2)
    from ..deps import forward_dependence, value_reads

    it = forward_dependence(loop_ast.body, reads=value_reads)  # one iteration, in statement order, value dependence only
    sol_deps = it.get(sol, set())
    for par, what in (("shifts", "the shift does not reach the solution update: every shift returns the same solve"),
                      ("value", "the matrix product is not scaled by `value`: contour quadrature (value=-1) solves (K + sI) "
                                "instead of (-K + sI)")):
        if par not in fn.params():
            continue
        if par in sol_deps:
            rep.ok("C11.M5", {"within_one_iteration": f"{sol} depends on {par}"})
        else:
            rep.bad("C11.M5", Finding(PROP, "C11.M5", F, f"solution update independent of {par}",
                                      f"inside the iteration the update of `{sol}` does not depend on `{par}`: {what}", fn0.loc(loop_ast)))
    # calls of a same-module kernel with the caller's buffers: a PERMUTATION of the parameter names is a swap
    for c_ in [n for n in ast.walk(fn0.node) if isinstance(n, ast.Call) and isinstance(n.func, ast.Name) and n.func.id in m.functions
               and m.functions[n.func.id] is not fn0]:
        callee = m.functions[c_.func.id]
        argn = [a.id if isinstance(a, ast.Name) else None for a in c_.args]
        pars = callee.params()[:len(argn)]
        if None in argn or len(argn) < 3:
            continue
        if argn == pars:
            rep.ok("C11.M5", {"call": callee.name, "arguments_match_parameters": len(argn)})
        elif sorted(argn) == sorted(pars):
            mism = [(a, p_) for a, p_ in zip(argn, pars) if a != p_]
            rep.bad("C11.M5", Finding(PROP, "C11.M5", F, f"{callee.name} call: argument/parameter mismatch {mism[:2]}",
                                      f"the call of {callee.name} passes the same buffers as the parameters are named, but in another "
                                      f"order {mism[:3]} (argument, parameter): the kernel reads / writes the rotating buffers by role",
                                      fn0.loc(c_)))
        else:
            rep.note(f"{callee.name} is called with differently named buffers; positional roles not decided")

    # ---- M6
    rep.rule("C11.M6", "buffer rotations bind distinct buffers and shift roles prev2 <- prev1 <- curr", floor=5)
    # per-iteration fresh names: assigned in the loop body from a call
    fresh: Dict[str, str] = {}
    for st in loop_ast.body:
        if isinstance(st, ast.Assign) and len(st.targets) == 1 and isinstance(st.targets[0], ast.Name) and isinstance(st.value, ast.Call):
            rn = root_name(st.value)
            # x = prod.addcmul_(...) aliases prod; x = f(...) is fresh
            chain_inplace = isinstance(st.value.func, ast.Attribute) and st.value.func.attr.endswith("_")
            fresh[st.targets[0].id] = rn if (chain_inplace and rn) else st.targets[0].id
    # ... or allocated before the loop for the first iteration and re-allocated in every later one:
    #   prod = f(x0);  for i in ...:  if i > 0: prod = f(x)      (each iteration still gets a buffer of its own)
    loop_var = loop_ast.target.id if isinstance(loop_ast, ast.For) and isinstance(loop_ast.target, ast.Name) else None
    pre_alloc = {st.targets[0].id for st in walk_body(fn) if isinstance(st, ast.Assign) and len(st.targets) == 1
                 and isinstance(st.targets[0], ast.Name) and isinstance(st.value, ast.Call) and not any(x is st for x in ast.walk(loop_ast))
                 and not (isinstance(st.value.func, ast.Attribute) and st.value.func.attr.endswith("_"))}
    for st in loop_ast.body:
        if isinstance(st, ast.If) and not st.orelse and loop_var is not None and isinstance(st.test, ast.Compare) and len(st.test.ops) == 1 \
                and isinstance(st.test.left, ast.Name) and st.test.left.id == loop_var and isinstance(st.test.comparators[0], ast.Constant) \
                and isinstance(st.test.ops[0], (ast.Gt, ast.NotEq, ast.GtE)):
            for s2 in st.body:
                if isinstance(s2, ast.Assign) and len(s2.targets) == 1 and isinstance(s2.targets[0], ast.Name) and isinstance(s2.value, ast.Call) \
                        and s2.targets[0].id in pre_alloc and not (isinstance(s2.value.func, ast.Attribute) and s2.value.func.attr.endswith("_")):
                    fresh.setdefault(s2.targets[0].id, s2.targets[0].id)
    rot = [st for st in loop_ast.body if isinstance(st, ast.Assign) and len(st.targets) == 1 and (
        (isinstance(st.targets[0], ast.Tuple) and isinstance(st.value, ast.Tuple) and all(
            isinstance(e, ast.Name) for e in st.targets[0].elts + st.value.elts))
        or (isinstance(st.targets[0], ast.Name) and isinstance(st.value, ast.Name)))]
    role = re.compile(r"^(.*)_(prev2|prev1|prev|curr)$")

    def canon(nm: str) -> str:
        seen = set()
        while nm in fresh and fresh[nm] != nm and nm not in seen:
            seen.add(nm)
            nm = fresh[nm]
        return nm

    for st in rot:
        tg = [e.id for e in st.targets[0].elts] if isinstance(st.targets[0], ast.Tuple) else [st.targets[0].id]
        vs = [e.id for e in st.value.elts] if isinstance(st.value, ast.Tuple) else [st.value.id]
        if len(tg) != len(vs) or not any(role.match(t) for t in tg):
            continue
        problems = []
        cv = [canon(v) for v in vs]
        if len(set(cv)) != len(cv):
            problems.append("one buffer is bound to two names")
        for t, v in zip(tg, vs):
            mt = role.match(t)
            if not mt:
                continue
            fam, r = mt.group(1), mt.group(2)
            mv = role.match(v)
            if r == "prev2":
                if not (mv and mv.group(1) == fam and mv.group(2) == "prev1"):
                    problems.append(f"{t} <- {v} (expected {fam}_prev1)")
            elif r in ("prev1", "prev"):
                curr = f"{fam}_curr"
                if not (v == curr or canon(v) == canon(curr)):
                    problems.append(f"{t} <- {v} (expected {curr})")
            else:  # curr receives a recycled buffer of its own family (the oldest) or a fresh one
                if mv and mv.group(1) == fam:
                    oldest = "prev2" if f"{fam}_prev2" in tg else ("prev" if f"{fam}_prev" in tg else "prev1")
                    if mv.group(2) != oldest:
                        problems.append(f"{t} <- {v} (expected the oldest buffer {fam}_{oldest})")
                elif v not in fresh:
                    problems.append(f"{t} <- {v} (neither recycled from its family nor allocated per iteration)")
            if v not in tg and v not in fresh:
                problems.append(f"{v} is neither rotated nor allocated per iteration")
        sample = {"rotation": short(st, 90)}
        if problems:
            rep.bad("C11.M6", Finding(PROP, "C11.M6", F, norm(st),
                                      f"`{short(st, 90)}`: {'; '.join(sorted(set(problems)))}: the next iteration's out= writes "
                                      "clobber a buffer it still reads / a recurrence term comes from the wrong iteration "
                                      "(manifests only after 2-3 iterations)", fn.loc(st)), sample)
        else:
            rep.ok("C11.M6", sample)

    # ---- M7
    rep.rule("C11.M7", "early exit controlled by minres_tolerance; divisions by Lanczos norms are clamped", floor=3)
    breaks = [n for n in cfg.stmt_nodes() if n.kind == "stmt" and isinstance(n.ast, ast.Break)]
    for b in breaks:
        ctl = controlling(cfg, b.id)
        if ctl and "minres_tolerance" in norm(ctl[0][0].ast):
            rep.ok("C11.M7", {"break_controlled_by": ctl[0][0].label[:70]})
        else:
            rep.bad("C11.M7", Finding(PROP, "C11.M7", F, "break: " + (ctl[0][0].label if ctl else "unconditional"),
                                      "the early exit is not controlled by settings.minres_tolerance", fn.loc(b.ast)))
    if not breaks:
        rep.bad("C11.M7", Finding(PROP, "C11.M7", F, "no break", "minres has no tolerance-controlled early exit", fn.loc(loop_ast)))
    n_div = 0
    for node in cfg.stmt_nodes():
        if node.kind != "stmt" or not _inside(loop_ast, node.ast):
            continue
        for x in ast.walk(node.ast):
            if (isinstance(x, ast.Call) and isinstance(x.func, ast.Attribute) and x.func.attr in ("div_", "div")
                    and x.args and isinstance(x.args[0], ast.Name) and x.args[0].id.startswith("beta")):
                n_div += 1
                den = x.args[0].id
                ok = None
                for d in cfg.dominators(node.id):
                    dn = cfg.nodes[d]
                    if dn.kind != "stmt" or not _inside(loop_ast, dn.ast):
                        continue
                    dd = [(nm, rd) for nm, rd in _defs_of(dn.ast) if nm == den]
                    if dd:
                        if "clamp_min_" in norm(dn.ast) or "clamp_min(" in norm(dn.ast):
                            ok = short(dn.ast, 50)
                        break
                if ok:
                    rep.ok("C11.M7", {"division": short(x, 50), "clamped_by": ok})
                else:
                    rep.bad("C11.M7", Finding(PROP, "C11.M7", F, norm(x) + " unclamped",
                                              f"`{short(x, 50)}`: the closest definition of `{den}` in the iteration is not the "
                                              "clamp away from zero: Lanczos breakdown (beta = 0, e.g. after size+1 steps) yields "
                                              "inf / NaN vectors", fn.loc(x)))
    if n_div < 2:
        rep.error(f"only {n_div} in-loop divisions by beta found in minres (expected 2)")


# ------------------------------------------------------------------------------------------------ ciq
def check_ciq(idx: ProgramIndex, rep: Report):
    m = idx.modules.get(CIQ)
    if m is None or "contour_integral_quad" not in m.functions:
        raise AnalysisError(f"{CIQ}.contour_integral_quad not found")
    fn = m.functions["contour_integral_quad"]
    F = fname(fn)
    try:  # same-module helpers (spectrum estimate, node / weight computation, batch matching) are analysed as part of the body
        from ..inline import inline_helpers

        fn, _inl = inline_helpers(idx, fn)
        rep.analysed["ciq_inlined_helpers"] = _inl
    except Exception:
        pass
    rets = [n for n in walk_body(fn) if isinstance(n, ast.Return) and isinstance(n.value, ast.Tuple)]
    if not rets or len({len(r.value.elts) for r in rets}) != 1:
        raise AnalysisError("contour_integral_quad: expected tuple returns of one arity")
    arity = len(rets[0].value.elts)
    roles = _CiqRoles(fn)
    ROLE_ORDER = ["shifted", "weights", "unshifted", "shifts"]
    ret_roles = [[sorted(roles.of(e, roles.rd.node_of(r))) for e in r.value.elts] for r in rets]
    # the role every position has on every return (None where the returns disagree or the role is not recovered)
    ret_names = [(ret_roles[0][i][0] if all(len(rr[i]) == 1 and rr[i] == ret_roles[0][i] for rr in ret_roles) else None)
                 for i in range(arity)]
    rep.analysed["ciq_return_roles"] = ret_roles

    # ---- Q1
    rep.rule("C11.Q1", "consumers unpack the producer's tuple by position; weights multiply the shifted solves", floor=3)
    n_sites = 0
    for f in idx.functions:
        for st in walk_body(f):
            if not (isinstance(st, ast.Assign) and isinstance(st.value, ast.Call)):
                continue
            d = dotted(st.value.func) or ""
            if not d.endswith("contour_integral_quad"):
                continue
            n_sites += 1
            tgt = st.targets[0]
            if not isinstance(tgt, ast.Tuple):
                rep.ok("C11.Q1", {"site": f"{fname(f)}", "unpack": "none (tuple kept)"})
                continue
            names = [e.id if isinstance(e, ast.Name) else None for e in tgt.elts]
            if len(names) != arity:
                rep.bad("C11.Q1", Finding(PROP, "C11.Q1", fname(f), norm(tgt) + " arity",
                                          f"{fname(f)} unpacks {len(names)} values from contour_integral_quad, which returns {arity}",
                                          f.loc(st)))
                continue
            # uses of weights: (X * weights) / X.mul(weights) -> X must derive from position 0
            wname = names[ROLE_ORDER.index("weights")] if arity == len(ROLE_ORDER) else None
            deps = dependence(f)
            bad = None
            n_prod = 0
            wnames = {wname} if wname and wname != "_" else set()
            saved = _saved_names(f)
            if "weights" in saved:
                wnames.add("weights")
            if wnames:
                for x in walk_body(f):
                    other = None
                    if isinstance(x, ast.BinOp) and isinstance(x.op, ast.Mult):
                        if isinstance(x.right, ast.Name) and x.right.id in wnames:
                            other = x.left
                        elif isinstance(x.left, ast.Name) and x.left.id in wnames:
                            other = x.right
                    elif isinstance(x, ast.Call) and isinstance(x.func, ast.Name) and idx.resolve_name(f.module, x.func.id) in idx.func_by_qual \
                            and len(x.args) == 2 and any(isinstance(a_, ast.Name) and a_.id in wnames for a_ in x.args):
                        # a package helper taking (solves, weights): the companion argument is what gets weighted
                        other = next((a_ for a_ in x.args if not (isinstance(a_, ast.Name) and a_.id in wnames)), None)
                    elif isinstance(x, ast.Call) and dotted(x.func) in ("torch.mul", "torch.multiply") and len(x.args) >= 2:
                        if isinstance(x.args[1], ast.Name) and x.args[1].id in wnames:
                            other = x.args[0]
                        elif isinstance(x.args[0], ast.Name) and x.args[0].id in wnames:
                            other = x.args[1]
                    elif (isinstance(x, ast.Call) and isinstance(x.func, ast.Attribute) and x.func.attr in ("mul", "mul_")
                          and x.args and isinstance(x.args[0], ast.Name) and x.args[0].id in wnames):
                        other = x.func.value
                    if other is None:
                        continue
                    n_prod += 1
                    on = sorted(nm for nm in reads(other) if "." not in nm)
                    src = set().union(*[deps.get(nm, set()) | {nm} for nm in on]) if on else set()
                    # derived from a shifted-solve name of SOME site in this function (forward/backward share names)
                    good = _solve_names(f, arity)
                    if f.cls is not None:  # names saved by a sibling (forward) and unpacked here by the same name (C07.P3)
                        for g in f.cls.methods.values():
                            if g is not f:
                                gd = dependence(g)
                                gs = _solve_names(g, arity)
                                good |= {nm for nm in saved if (gd.get(nm, set()) | {nm}) & gs}
                    if not on or not (src & good):
                        bad = x
            sample = {"site": fname(f), "unpack": names, "weight_products": n_prod}
            if bad is not None:
                rep.bad("C11.Q1", Finding(PROP, "C11.Q1", fname(f), norm(bad),
                                          f"{fname(f)}: `{short(bad, 60)}` multiplies the quadrature weights with a value that "
                                          "does not derive from position 0 of contour_integral_quad's result (the shifted solves)",
                                          f.loc(bad)), sample)
            else:
                rep.ok("C11.Q1", sample)
    if n_sites < 2:
        rep.error(f"only {n_sites} contour_integral_quad call sites found (expected >= 2)")
    if any(not rr[i] or "?" in rr[i] for rr in ret_roles for i in range(arity)):
        raise AnalysisError(f"contour_integral_quad: the role of a returned value was not recovered ({ret_roles})")
    if ret_names[:4] != ROLE_ORDER:
        rep.bad("C11.Q1", Finding(PROP, "C11.Q1", F, "return order " + " / ".join("+".join(x) for x in ret_roles[0]),
                                  f"contour_integral_quad returns (by what each position is computed from) {ret_roles}; every "
                                  "consumer unpacks (shifted solves, weights, un-shifted solve, shifts) by position", fn.loc(rets[0])))
    else:
        rep.ok("C11.Q1", {"producer_returns": ret_names})

    # ---- Q2 offsets
    rep.rule("C11.Q2", "the un-shifted solve occupies the same leading rows in shifts, the fill and the split", floor=3)
    N = "num_contour_quadrature"

    def offset(e: ast.AST) -> Optional[int]:
        if isinstance(e, ast.Name) and e.id == N:
            return 0
        if isinstance(e, ast.BinOp) and isinstance(e.op, ast.Add):
            if isinstance(e.left, ast.Name) and e.left.id == N and isinstance(e.right, ast.Constant):
                return e.right.value
            if isinstance(e.right, ast.Name) and e.right.id == N and isinstance(e.left, ast.Constant):
                return e.left.value
        return None

    alloc: Dict[str, int] = {}
    fills: Dict[str, int] = {}
    for st in walk_body(fn):
        if isinstance(st, ast.Assign) and isinstance(st.value, ast.Call) and dotted(st.value.func) in ("torch.zeros", "torch.empty") \
                and st.value.args and isinstance(st.targets[0], ast.Name):
            o = offset(st.value.args[0])
            if o is not None:
                alloc[st.targets[0].id] = o
        if isinstance(st, ast.Call) and isinstance(st.func, ast.Attribute) and st.func.attr == "copy_" and isinstance(st.func.value, ast.Subscript):
            sub = st.func.value
            rn = root_name(sub)
            sl = sub.slice.elts[0] if isinstance(sub.slice, ast.Tuple) else sub.slice
            if isinstance(sl, ast.Slice) and rn:
                lo = sl.lower.value if isinstance(sl.lower, ast.Constant) else (0 if sl.lower is None else None)
                fills[rn] = lo if (lo is not None and sl.upper is None) else "[" + norm(sl) + "]"
    split_lo = roles.split_lo
    noshift_idx = roles.noshift_idx
    # local aliases of the quadrature size (N = num_contour_quadrature)
    aliases = {st.targets[0].id for st in walk_body(fn) if isinstance(st, ast.Assign) and isinstance(st.targets[0], ast.Name)
               and isinstance(st.value, ast.Name) and st.value.id == N}

    def offset2(e: ast.AST) -> Optional[int]:
        o = offset(e)
        if o is not None:
            return o
        if isinstance(e, ast.Name) and e.id in aliases:
            return 0
        if isinstance(e, ast.BinOp) and isinstance(e.op, ast.Add):
            for a_, b_ in ((e.left, e.right), (e.right, e.left)):
                if isinstance(a_, ast.Name) and a_.id in aliases and isinstance(b_, ast.Constant):
                    return b_.value
        return None

    # row counts as the reader sees them: weights = <...>.view(Nw, ...), shifts = <...>.view(Ns, ...)
    for st in walk_body(fn):
        if isinstance(st, ast.Assign) and isinstance(st.targets[0], ast.Name) and st.targets[0].id in ("weights", "shifts") \
                and isinstance(st.value, ast.Call) and isinstance(st.value.func, ast.Attribute) and st.value.func.attr in ("view", "reshape") \
                and st.value.args:
            o = offset2(st.value.args[0])
            if o is not None:
                alloc.setdefault("view:" + st.targets[0].id, o)
        if isinstance(st, ast.Assign) and isinstance(st.value, ast.Call) and dotted(st.value.func) in ("torch.zeros", "torch.empty") \
                and st.value.args and isinstance(st.targets[0], ast.Name) and st.targets[0].id not in alloc:
            o = offset2(st.value.args[0])
            if o is not None:
                alloc[st.targets[0].id] = o
    # the weight table has one row per quadrature node, the shift table has the extra leading row(s) of the un-shifted solve;
    # a view of a table belongs to the table it is a view of
    view_root: Dict[str, str] = {}
    for st in walk_body(fn):
        if isinstance(st, ast.Assign) and isinstance(st.targets[0], ast.Name) and isinstance(st.value, ast.Call) \
                and isinstance(st.value.func, ast.Attribute) and st.value.func.attr in ("view", "reshape"):
            view_root["view:" + st.targets[0].id] = root_name(st.value.func.value) or ""
    tables = {k: v for k, v in alloc.items() if not k.startswith("view:")}
    if len(set(alloc.values())) < 2:
        raise AnalysisError(f"contour_integral_quad: cannot recover the shift / weight tables (alloc={alloc})")
    lo_rows = min(alloc.values())
    wtab = {k for k, v in tables.items() if v == lo_rows}
    stab = {k for k, v in tables.items() if v != lo_rows}
    ws = {k: v for k, v in alloc.items() if k in wtab or view_root.get(k) in wtab
          or (k.startswith("view:") and view_root.get(k) not in stab and v == lo_rows)}
    ss = {k: v for k, v in alloc.items() if k not in ws}
    if not ws or not ss or split_lo is None or noshift_idx is None:
        raise AnalysisError(f"contour_integral_quad: cannot recover the offset table (alloc={alloc}, fills={fills}, split={split_lo}, noshift={noshift_idx})")
    if len(set(ss.values())) != 1 or len(set(ws.values())) != 1:
        rep.bad("C11.Q2", Finding(PROP, "C11.Q2", F, f"row counts disagree: {alloc}",
                                  f"contour_integral_quad allocates / views the shift and weight tables with different row counts ({alloc})",
                                  fn.loc()))
    k = next(iter(ss.values())) - next(iter(ws.values()))
    sname = next((n_ for n_ in ss if n_ in fills), next(iter(ss)))
    table = {"shift_rows_minus_weight_rows": k, "fill_from_row": fills.get(sname), "split_from_row": split_lo, "no_shift_row": noshift_idx}
    conds = [(k == split_lo, f"{k} extra shift rows are allocated but the solves are split at row {split_lo}"),
             (fills.get(sname) == k, f"the computed shifts are stored from row {fills.get(sname)} but {k} leading rows are reserved for the un-shifted solve"),
             (isinstance(noshift_idx, int) and 0 <= noshift_idx < max(k, 1), f"the un-shifted solve is read from row {noshift_idx}, outside the {k} reserved rows")]
    for ok, msg in conds:
        if ok:
            rep.ok("C11.Q2", table)
        else:
            rep.bad("C11.Q2", Finding(PROP, "C11.Q2", F, msg, f"contour_integral_quad: {msg}: weights[q] no longer multiplies the "
                                      "solve at shift[q]", fn.loc()), table)

    # ---- Q3 inverse flag
    rep.rule("C11.Q3", "the `inverse` flag controls the extra multiplication by K", floor=1)
    cfg = CFG(fn)
    mm = [n for n in cfg.stmt_nodes() if n.kind == "stmt" and isinstance(n.ast, (ast.Assign, ast.Return))
          and any(isinstance(x, ast.Call) and isinstance(x.func, ast.Attribute) and x.func.attr in ("_matmul", "matmul") and
                  any(roles.of(a, roles.rd.node_of(n.ast)) & {"shifted", "all"} for a in x.args) for x in ast.walk(n.ast.value or ast.Constant(value=None)))]
    if not mm:
        rep.bad("C11.Q3", Finding(PROP, "C11.Q3", F, "no K-multiplication of the solves",
                                  "contour_integral_quad(inverse=False) must multiply the shifted solves by K to obtain K^{1/2} b; "
                                  "no such statement exists", fn.loc()))
    for n in mm:
        ctl = controlling(cfg, n.id)
        hit = [(t, pol) for t, pol in ctl if "inverse" in reads(t.ast)]
        if hit and ((norm(hit[0][0].ast) == "not inverse" and hit[0][1] is True) or (norm(hit[0][0].ast) == "inverse" and hit[0][1] is False)):
            rep.ok("C11.Q3", {"statement": short(n.ast, 60), "controlled_by": hit[0][0].label[:40]})
        else:
            rep.bad("C11.Q3", Finding(PROP, "C11.Q3", F, norm(n.ast) + " polarity",
                                      f"`{short(n.ast, 60)}` is not executed exactly when `inverse` is false: K^{{1/2}} b and "
                                      "K^{-1/2} b are confused", fn.loc(n.ast)))

    # ---- Q4 fallback
    rep.rule("C11.Q4", "a non-positive eigenvalue estimate falls back to the diagonal", floor=1)
    tries = [n for n in walk_body(fn) if isinstance(n, ast.Try)]
    okq4 = False
    for t in tries:
        body_assigned = {x.targets[0].id for s_ in t.body for x in ast.walk(s_)
                         if isinstance(x, ast.Assign) and len(x.targets) == 1 and isinstance(x.targets[0], ast.Name)}
        for h in t.handlers:
            h_assigned = {x.targets[0].id for x in ast.walk(h) if isinstance(x, ast.Assign) and len(x.targets) == 1
                          and isinstance(x.targets[0], ast.Name)}
            # the estimate: assigned in the try body AND re-assigned by the handler (the fallback)
            for est in sorted(body_assigned & h_assigned):
                guarded = [x for s_ in t.body for x in ast.walk(s_) if isinstance(x, ast.If)
                           and any(isinstance(y, ast.Name) and y.id == est for y in ast.walk(x.test))
                           and re.search(r"<=\s*0|<\s*0|<=\s*0\.0", norm(x.test)) and any(isinstance(y, ast.Raise) for y in ast.walk(x))]
                if not guarded:
                    continue
                rz = next(y for y in ast.walk(guarded[0]) if isinstance(y, ast.Raise))
                exc = None
                if rz.exc is not None:
                    exc = dotted(rz.exc.func) if isinstance(rz.exc, ast.Call) else dotted(rz.exc)
                htype = dotted(h.type) if h.type is not None else "BaseException"
                if exc == htype or htype in ("Exception", "BaseException"):
                    okq4 = True
                    rep.ok("C11.Q4", {"estimate": est, "test": short(guarded[0].test, 50), "raises": exc, "handler_installs": f"{est} (fallback)"})
    if not okq4:
        rep.bad("C11.Q4", Finding(PROP, "C11.Q4", F, "fallback for non-positive eigenvalue estimates",
                                  "the Lanczos eigenvalue estimate is not tested for non-positive values inside a try whose handler "
                                  "installs the diagonal fallback: sqrt of a negative minimum gives NaN quadrature nodes", fn.loc()))


class _CiqRoles:
    """What a value of contour_integral_quad is computed from, by reaching definitions: the shifted block of the minres result
    (``X[k:]``, possibly multiplied by K), its un-shifted row (``X[c]``), the weight table (the ``weights`` parameter / the table
    with one row per quadrature node) or the shift table (the ``shifts`` parameter / the table with the extra leading rows)."""

    N = "num_contour_quadrature"

    def __init__(self, fn: FunctionInfo):
        from ..deps import ReachingDefs

        self.fn = fn
        self.rd = ReachingDefs(fn)
        self.params = set(fn.params())
        self.split_lo = None
        self.noshift_idx = None
        self.n_alias = {st.targets[0].id for st in walk_body(fn) if isinstance(st, ast.Assign) and isinstance(st.targets[0], ast.Name)
                        and isinstance(st.value, ast.Name) and st.value.id == self.N}
        rows = []
        for st in walk_body(fn):
            if isinstance(st, ast.Assign) and isinstance(st.value, ast.Call) and dotted(st.value.func) in ("torch.zeros", "torch.empty") \
                    and st.value.args:
                o = self._offset(st.value.args[0])
                if o is not None:
                    rows.append(o)
            if isinstance(st, ast.Assign) and isinstance(st.value, ast.Call) and isinstance(st.value.func, ast.Attribute) \
                    and st.value.func.attr in ("view", "reshape") and st.value.args:
                o = self._offset(st.value.args[0])
                if o is not None:
                    rows.append(o)
        self.min_rows = min(rows) if len(set(rows)) > 1 else None

    def _offset(self, e: ast.AST) -> Optional[int]:
        names = {self.N} | self.n_alias
        if isinstance(e, ast.Name) and e.id in names:
            return 0
        if isinstance(e, ast.BinOp) and isinstance(e.op, ast.Add):
            for a_, b_ in ((e.left, e.right), (e.right, e.left)):
                if isinstance(a_, ast.Name) and a_.id in names and isinstance(b_, ast.Constant) and isinstance(b_.value, int):
                    return b_.value
        return None

    @staticmethod
    def _bindings(stmt: ast.AST, name: str) -> Optional[List[ast.AST]]:
        """The expressions ``name`` is bound to by the statement (None: not a plain binding of the name)."""
        if isinstance(stmt, ast.For):
            return [stmt.iter] if any(isinstance(x, ast.Name) and x.id == name for x in ast.walk(stmt.target)) else None
        if not isinstance(stmt, ast.Assign):
            return None
        out: List[ast.AST] = []
        for t in stmt.targets:
            if isinstance(t, ast.Name) and t.id == name:
                out.append(stmt.value)
            elif isinstance(t, (ast.Tuple, ast.List)) and any(isinstance(x, ast.Name) and x.id == name for x in ast.walk(t)):
                v = stmt.value
                if isinstance(v, (ast.Tuple, ast.List)) and len(v.elts) == len(t.elts) and not any(
                        isinstance(x, ast.Starred) for x in list(t.elts) + list(v.elts)):
                    out += [b for a, b in zip(t.elts, v.elts) if any(isinstance(x, ast.Name) and x.id == name for x in ast.walk(a))]
                else:
                    out.append(v)
        return out or None

    def of(self, e: ast.AST, nid: Optional[int], depth: int = 0) -> Set[str]:
        if nid is None or depth > 10 or e is None:
            return set()
        if isinstance(e, ast.Call) and (dotted(e.func) or "").split(".")[-1] == "minres":
            return {"all"}
        if isinstance(e, ast.Call) and dotted(e.func) in ("torch.zeros", "torch.empty") and e.args:
            o = self._offset(e.args[0])
            if o is not None and self.min_rows is not None:
                return {"weights"} if o == self.min_rows else {"shifts"}
        if isinstance(e, ast.Call) and isinstance(e.func, ast.Attribute) and e.func.attr in ("view", "reshape") and e.args \
                and self._offset(e.args[0]) is not None and self.min_rows is not None:
            return {"weights"} if self._offset(e.args[0]) == self.min_rows else {"shifts"}
        if isinstance(e, ast.Subscript) and "all" in self.of(e.value, nid, depth + 1):
            sl = e.slice.elts[0] if isinstance(e.slice, ast.Tuple) and e.slice.elts else e.slice
            if isinstance(sl, ast.Slice) and sl.upper is None and sl.step is None:
                lo = sl.lower.value if isinstance(sl.lower, ast.Constant) else (0 if sl.lower is None else "[" + norm(sl) + "]")
                self.split_lo = lo
                return {"shifted"}
            if isinstance(sl, ast.Slice):
                self.split_lo = "[" + norm(sl) + "]"
                return {"shifted"}
            if isinstance(sl, ast.Constant) and isinstance(sl.value, int):
                self.noshift_idx = sl.value
                return {"unshifted"}
            return {"?"}
        if isinstance(e, ast.Name):
            out: Set[str] = set()
            if e.id in self.params and e.id in ("weights", "shifts"):
                out.add(e.id)
            for d, _i in self.rd.IN.get(nid, {}).get(e.id, ()):
                stmt = self.rd.cfg.nodes[d].ast
                vals = self._bindings(stmt, e.id)
                for v in vals or []:
                    out |= self.of(v, d, depth + 1)
            return out
        out = set()
        for x in ast.iter_child_nodes(e):
            if isinstance(x, (ast.expr, ast.comprehension, ast.keyword)):
                out |= self.of(x, nid, depth + 1) if isinstance(x, ast.expr) else set().union(
                    *[self.of(y, nid, depth + 1) for y in ast.iter_child_nodes(x) if isinstance(y, ast.expr)] or [set()])
        return out


def _saved_names(f: FunctionInfo) -> Set[str]:
    out: Set[str] = set()
    for st in walk_body(f):
        if isinstance(st, ast.Assign) and "saved_tensors" in norm(st.value):
            for x in ast.walk(st.targets[0]):
                if isinstance(x, ast.Name):
                    out.add(x.id)
    return out


def _solve_names(f: FunctionInfo, arity: int) -> Set[str]:
    out: Set[str] = set()
    for st in walk_body(f):
        if isinstance(st, ast.Assign) and isinstance(st.value, ast.Call) and (dotted(st.value.func) or "").endswith("contour_integral_quad"):
            t = st.targets[0]
            if isinstance(t, ast.Tuple) and len(t.elts) == arity and isinstance(t.elts[0], ast.Name):
                out.add(t.elts[0].id)
    # names saved by forward and re-read by backward keep their names (rhs_solves, lhs_solves): accept *_solves splits
    for st in walk_body(f):
        if isinstance(st, ast.Assign) and isinstance(st.targets[0], ast.Tuple) and isinstance(st.value, ast.Call) \
                and isinstance(st.value.func, ast.Attribute) and st.value.func.attr == "split" and root_name(st.value.func.value) in out:
            out |= {e.id for e in st.targets[0].elts if isinstance(e, ast.Name)}
    return out


def run(idx: ProgramIndex, rep: Report, tier: str, selftest: bool = True):
    rep.extra["explanation"] = (
        "Dependence, dominance and table-agreement rules over minres, its update helper, contour_integral_quad and the "
        "five call sites that consume its 4-tuple. They decide for all inputs, shift batches and iteration counts the "
        "skeleton C11 presupposes: zero-rhs masking and un-normalisation after the loop, the squeeze rules (leading shift "
        "dimension iff a single shift; last dimension iff the rhs was a vector), that shifts and value enter the "
        "recurrence, that every tail rotation of the Givens / Lanczos buffers is alias-free and shifts roles "
        "prev2 <- prev1 <- curr (errors there manifest only after 2-3 iterations and depend on iteration count), clamped "
        "divisions, the tolerance-controlled exit; for the quadrature the positional protocol solves/weights/no_shift/"
        "shifts, the row-offset table of the un-shifted solve, the inverse flag and the eigenvalue fallback. NOT decided "
        "(numerical): that the recurrences solve the shifted systems to tolerance, quadrature accuracy, sqrt_inv_matmul "
        "applied twice = A^{-1}, the covariance of CIQ samples."
    )
    rep.assumptions += ["in-place tensor methods and out= keywords define their target (dependence model)",
                        "buffers are named by role (*_prev2, *_prev1, *_prev, *_curr) as in the current source; the helper reads "
                        "and writes them by these roles (checked: call arguments equal parameter names)"]
    check_minres(idx, rep)
    check_ciq(idx, rep)
    if selftest:
        from ..selftest import run_fixtures

        run_fixtures(rep, PROP)
