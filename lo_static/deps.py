"""Intra-procedural data dependence (flow-insensitive closure) in which in-place tensor methods and ``out=`` keywords
count as definitions of their target:  ``alpha.masked_fill_(has_converged, 0)`` makes ``alpha`` depend on
``has_converged``; ``torch.norm(residual, out=residual_norm)`` makes ``residual_norm`` depend on ``residual``."""
from __future__ import annotations

import ast
from typing import Dict, Iterable, List, Optional, Set

from .index import FunctionInfo, dotted, walk_body


def root_name(e: ast.AST) -> Optional[str]:
    while isinstance(e, (ast.Attribute, ast.Subscript, ast.Call, ast.Starred)):
        if isinstance(e, ast.Call):
            if isinstance(e.func, ast.Attribute):
                e = e.func.value
            else:
                return None
        elif isinstance(e, ast.Starred):
            e = e.value
        else:
            e = e.value
    return e.id if isinstance(e, ast.Name) else None


def reads(e: ast.AST) -> Set[str]:
    out: Set[str] = set()
    for x in ast.walk(e):
        if isinstance(x, ast.Name):
            out.add(x.id)
        elif isinstance(x, ast.Attribute):
            d = dotted(x)
            if d:
                out.add(d)
    return out


def statement_defs(n: ast.AST) -> List[tuple]:
    """[(defined name, set of names read)] for one ast node (not recursive)."""
    out = []
    if isinstance(n, ast.Assign):
        r = reads(n.value)
        for t in n.targets:
            for x in ast.walk(t):
                if isinstance(x, ast.Name) and isinstance(x.ctx, ast.Store):
                    out.append((x.id, r))
            rn = root_name(t) if isinstance(t, (ast.Subscript, ast.Attribute)) else None
            if rn:
                out.append((rn, r | reads(t)))
    elif isinstance(n, ast.AugAssign):
        rn = root_name(n.target)
        if rn:
            out.append((rn, reads(n.value) | {rn}))
    elif isinstance(n, ast.For):
        r = reads(n.iter)
        for x in ast.walk(n.target):
            if isinstance(x, ast.Name):
                out.append((x.id, r))
    elif isinstance(n, ast.Call):
        args = list(n.args) + [k.value for k in n.keywords if k.arg != "out"]
        r: Set[str] = set()
        for a in args:
            r |= reads(a)
        for k in n.keywords:
            if k.arg == "out":
                for x in ([k.value] if not isinstance(k.value, (ast.Tuple, ast.List)) else list(k.value.elts)):
                    rn = root_name(x)
                    if rn:
                        out.append((rn, r | (reads(x) - {rn})))
        if isinstance(n.func, ast.Attribute) and n.func.attr.endswith("_") and not n.func.attr.startswith("_"):
            rn = root_name(n.func.value)
            if rn:
                out.append((rn, r | reads(n.func.value)))
    return out


def dependence(fn: FunctionInfo, nodes: Optional[Iterable[ast.AST]] = None) -> Dict[str, Set[str]]:
    """name -> everything it may depend on, over the statements of fn (or of the given sub-tree nodes)."""
    direct: Dict[str, Set[str]] = {}
    it = nodes if nodes is not None else walk_body(fn)
    for n in it:
        for name, r in statement_defs(n):
            direct.setdefault(name, set()).update(r)
    closed = {k: set(v) for k, v in direct.items()}
    changed = True
    while changed:
        changed = False
        for k, v in closed.items():
            add: Set[str] = set()
            for d in list(v):
                if d in closed and d != k:
                    add |= closed[d]
            if not add <= v:
                v |= add
                changed = True
    return closed


def subtree_nodes(stmts: List[ast.stmt]) -> List[ast.AST]:
    out: List[ast.AST] = []
    for s in stmts:
        for x in ast.walk(s):
            out.append(x)
    return out
